#!/venv/bin/python
"""Entry point:  check.py <Cxx> [--tier quick|thorough] [--replay file]

exit 0  property held on everything explored (KNOWN-FINDING lines possible)
exit 1  VIOLATION line(s) printed
exit 2  infrastructure error / time-out (no verdict)
"""
import argparse
import importlib
import os
import sys
import traceback

sys.path.insert(0, os.path.dirname(os.path.abspath(__file__)))
from lib import core  # noqa: E402


def main():
    ap = argparse.ArgumentParser()
    ap.add_argument("prop")
    ap.add_argument("--tier", default=os.environ.get("VERIF_TIER", "quick"), choices=["quick", "thorough"])
    ap.add_argument("--replay")
    a = ap.parse_args()
    seed = int(os.environ.get("VERIF_SEED", "0") or 0)
    try:
        prop = importlib.import_module("props." + a.prop.lower())
        rc = core.run_check(prop, a.tier, seed, replay=a.replay)
    except core.Infra as e:
        print("INFRA-ERROR %s: %s" % (a.prop, e), file=sys.stderr)
        rc = 2
    except Exception:
        traceback.print_exc()
        rc = 2
    finally:
        core.cleanup()
    sys.exit(rc)


if __name__ == "__main__":
    main()
