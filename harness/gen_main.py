#!/usr/bin/env python3
"""Regenerate lean/Driver/Main.lean from the session files present under lean/Driver
(every Driver/X.lean that defines `def sess : Sess` in namespace Driver.XS)."""
import os
import re
HERE = os.path.dirname(os.path.abspath(__file__))
D = os.path.join(os.path.dirname(HERE), "lean", "Driver")
mods = []
for f in sorted(os.listdir(D)):
    if not f.endswith(".lean") or f in ("Main.lean", "Sess.lean"):
        continue
    src = open(os.path.join(D, f)).read()
    m = re.search(r"^namespace (Driver\.\w+)", src, re.M)
    names = re.findall(r"^def (sess\w*) : Sess", src, re.M)
    if m and names:
        for n in names:
            key = f[:-5].lower() + n[4:].lower()
            mods.append((f[:-5], m.group(1).split(".", 1)[1], n, key))
imports = sorted({m[0] for m in mods})
out = ["import Driver.Sess"] + ["import Driver.%s" % i for i in imports] + ["open Driver", "",
       "def sessions : List (String × Sess) := ["]
out += ["  (\"%s\", %s.%s)%s" % (key, ns, n, "," if i < len(mods) - 1 else "") for i, (_, ns, n, key) in enumerate(mods)]
out += ["]", "", r'''def tokens (line : String) : List String :=
  (line.splitOn " ").filter (· ≠ "")

/-- `saved` = the session as of the last `txn commit` (every session state is a pure value, so a
transaction abort of the database the real objects live in is "continue from the saved value";
a commit and a cache eviction are invisible).  Used by the ZODB-backed streams of the index checks. -/
partial def loop (h : IO.FS.Stream) (out : IO.FS.Stream) (cur saved : Option Sess) : IO Unit := do
  let line ← h.getLine
  if line.isEmpty then return ()
  let line := (line.replace "\n" "").replace "\r" ""
  match tokens line with
  | ["session", name] =>
    match sessions.lookup name with
    | some s => out.putStrLn "ok"; loop h out (some s) none
    | none => out.putStrLn "bad-session"; loop h out none none
  | "txn" :: "commit" :: _ => out.putStrLn "ok"; loop h out cur cur
  | ["txn", "abort"] => out.putStrLn "ok"; loop h out (if saved.isSome then saved else cur) saved
  | toks =>
    match cur with
    | none => out.putStrLn "no-session"; loop h out none saved
    | some s =>
      let (s', o) := s.run1 toks
      out.putStrLn o
      loop h out (some s') saved

def main : IO Unit := do
  let stdin ← IO.getStdin
  let stdout ← IO.getStdout
  loop stdin stdout none none
  stdout.flush''']
open(os.path.join(D, "Main.lean"), "w").write("\n".join(out) + "\n")
print("sessions:", [m[3] for m in mods])
