"""Shared machinery of the correspondence harness.

Verdict logic (DESIGN.md section 5):

  proof step   lake build + source audit + `#print axioms` of the property's theorems
  corpus       minimized past failures and known-finding witnesses run first
  generated    cases from the property's generator, sharded over all cores
  per command  I = implementation answer, M = model answer, S = spec answer
               (S is printed by the driver after ' ## '; absent => S := M, which the
               property's theorems justify)
     I == S and I == M    agreement
     I != S               the property fails on this input on the real code:
                          known finding (listed)  -> KNOWN-FINDING line, exit code unaffected
                          otherwise               -> VIOLATION, replay = shrunk case
     I == S but I != M    correspondence broken although the property holds on this input:
                          allowed only where the model mirrors a listed known finding
                          (the code was repaired); otherwise VIOLATION … no-failing-input-found
"""
import hashlib
import importlib
import json
import os
import random
import re
import shutil
import subprocess
import sys
import time
import traceback
from concurrent.futures import ProcessPoolExecutor
import multiprocessing
from pathlib import Path

from . import fingerprint

VERIF = Path(__file__).resolve().parents[2]
LEAN = VERIF / "lean"
HMODEL = LEAN / ".lake" / "build" / "bin" / "hmodel"
REPO = Path(os.environ.get("VERIF_REPO", "/repo"))
ALLOWED_AXIOMS = {"propext", "Quot.sound", "Classical.choice"}
FORBIDDEN = re.compile(r"\bsorry\b|\badmit\b|^\s*axiom\s|native_decide|bv_decide|implemented_by|"
                       r"\bunsafe\s|maxHeartbeats\s+0\b", re.M)
NCPU = int(os.environ.get("VERIF_JOBS", "16"))
ESCALATION = 1      # set by run_check: >1 when /repo differs structurally from the registered tree


class Infra(Exception):
    """infrastructure failure: exit 2, never a verdict about /repo"""


# ----------------------------------------------------------------------------
# scratch copy of the implementation
# ----------------------------------------------------------------------------
_SCRATCH = None


def scratch_dir():
    global _SCRATCH
    if _SCRATCH is None:
        base = os.environ.get("VERIF_SCRATCH") or "/var/tmp/hypatia-verif.%d" % os.getpid()
        p = Path(base)
        if p.exists():
            shutil.rmtree(p)
        p.mkdir(parents=True)
        _SCRATCH = p
    return _SCRATCH


def cleanup():
    global _SCRATCH
    if _SCRATCH is not None and _SCRATCH.exists():
        shutil.rmtree(_SCRATCH, ignore_errors=True)
    _SCRATCH = None


def load_impl(build_c=False):
    """Copy /repo/hypatia (working tree, sources only) to the scratch dir and import it from
    there.  The stale compiled okascore extension is never copied; with build_c it is rebuilt
    from the working tree's okascore.c."""
    sd = scratch_dir()
    dst = sd / "impl"
    src = REPO / "hypatia"
    if not src.is_dir():
        raise Infra("no %s" % src)
    shutil.copytree(src, dst / "hypatia",
                    ignore=shutil.ignore_patterns("*.so", "__pycache__", "*.pyc", "tests", "tests.py"))
    if build_c:
        build_okascore(dst / "hypatia" / "text")
    os.environ.pop("PURE_PYTHON", None)
    sys.path.insert(0, str(dst))
    for k in [k for k in sys.modules if k == "hypatia" or k.startswith("hypatia.")]:
        del sys.modules[k]
    try:
        hyp = importlib.import_module("hypatia")
    except Exception as e:  # a tree that does not import is the repo's problem, but not a verdict
        raise Infra("cannot import the scratch copy of hypatia: %r" % (e,))
    if not str(hyp.__file__).startswith(str(dst)):
        raise Infra("imported hypatia from %s, not from the scratch copy" % hyp.__file__)
    return hyp


def build_okascore(textdir):
    import sysconfig
    inc = sysconfig.get_paths()["include"]
    suffix = sysconfig.get_config_var("EXT_SUFFIX")
    out = textdir / ("okascore" + suffix)
    cmd = ["gcc", "-shared", "-fPIC", "-O2", "-I", inc, str(textdir / "okascore.c"), "-o", str(out)]
    r = subprocess.run(cmd, capture_output=True, text=True)
    if r.returncode != 0:
        raise Infra("gcc failed on okascore.c:\n" + r.stderr[-2000:])
    return out


# ----------------------------------------------------------------------------
# Lean side: build, audit, driver
# ----------------------------------------------------------------------------
def ensure_built():
    t = time.time()
    r = subprocess.run(["lake", "build"], cwd=LEAN, capture_output=True, text=True)
    if r.returncode != 0:
        log = (r.stdout + r.stderr).split("\n")
        errs = [l for l in log if "error" in l.lower()][:12]
        raise Infra("lake build failed:\n" + "\n".join(errs or log[-15:]))
    if not HMODEL.exists():
        raise Infra("driver %s missing after lake build" % HMODEL)
    return time.time() - t


def strip_comments(src):
    # remove /- ... -/ (nested) and -- ... comments
    out = []
    i, depth, n = 0, 0, len(src)
    while i < n:
        if src.startswith("/-", i):
            depth += 1
            i += 2
        elif depth and src.startswith("-/", i):
            depth -= 1
            i += 2
        elif depth:
            i += 1
        elif src.startswith("--", i):
            j = src.find("\n", i)
            i = n if j < 0 else j
        else:
            out.append(src[i])
            i += 1
    return "".join(out)


def source_audit():
    bad = []
    for p in sorted(LEAN.rglob("*.lean")):
        if ".lake" in p.parts:
            continue
        txt = strip_comments(p.read_text())
        for m in FORBIDDEN.finditer(txt):
            bad.append("%s: %s" % (p.relative_to(LEAN), m.group(0).strip()))
    return bad


def axiom_audit(imports, theorems):
    """`#print axioms` for every theorem; returns {theorem: [axioms]}"""
    sd = scratch_dir()
    f = sd / ("audit_%d.lean" % os.getpid())
    body = "".join("import %s\n" % m for m in imports)
    body += "".join("#print axioms %s\n" % t for t in theorems)
    f.write_text(body)
    r = subprocess.run(["lake", "env", "lean", str(f)], cwd=LEAN, capture_output=True, text=True)
    out = r.stdout + r.stderr
    res = {}
    for m in re.finditer(r"'([^']+)' depends on axioms: \[([^\]]*)\]", out):
        res[m.group(1)] = [a.strip() for a in m.group(2).replace("\n", " ").split(",") if a.strip()]
    for m in re.finditer(r"'([^']+)' does not depend on any axioms", out):
        res[m.group(1)] = []
    if r.returncode != 0 or len(res) < len(theorems):
        missing = [t for t in theorems if t not in res]
        raise Infra("axiom audit failed (missing %s):\n%s" % (missing, out[-3000:]))
    return res


class ModelTimeout(Exception):
    """the compiled model did not answer within the limit (a pathological case for its association lists)"""


MODEL_TIMEOUT_S = int(os.environ.get("VERIF_MODEL_TIMEOUT", "240"))


def run_model(lines, timeout=None):
    if not lines:
        return []
    data = "\n".join(lines) + "\n"
    try:
        r = subprocess.run([str(HMODEL)], input=data, capture_output=True, text=True, timeout=timeout)
    except subprocess.TimeoutExpired:
        raise ModelTimeout("hmodel gave no answer to %d lines within %s s" % (len(lines), timeout))
    if r.returncode != 0:
        raise Infra("hmodel exited %d: %s" % (r.returncode, r.stderr[-2000:]))
    out = r.stdout.split("\n")
    if out and out[-1] == "":
        out.pop()
    if len(out) != len(lines):
        raise Infra("hmodel produced %d lines for %d commands" % (len(out), len(lines)))
    return out


def leanchecker(modules):
    r = subprocess.run(["lake", "env", "leanchecker"] + modules, cwd=LEAN, capture_output=True, text=True)
    return r.returncode == 0, (r.stdout + r.stderr)[-2000:]


# ----------------------------------------------------------------------------
# cases
# ----------------------------------------------------------------------------
_MODEL_CMD = None


def case_lines(case):
    """model input lines of a case: session header, configuration lines, commands (a property may map
    several implementation entry points to one model command through `model_cmd`)"""
    f = _MODEL_CMD or (lambda c: c)
    return ["session " + case["session"]] + [" ".join(map(str, c)) for c in case.get("cfg", [])] + \
           [" ".join(map(str, f(c))) for c in case["cmds"]]


def split_ms(line):
    if " ## " in line:
        m, s = line.split(" ## ", 1)
        return m, s
    if line.endswith(" ##"):
        return line[:-3], ""
    return line, None


def exc_name(e):
    return "err " + type(e).__name__


def idset(xs):
    return "{" + " ".join(str(x) for x in sorted(xs)) + "}"


def idlist(xs):
    return "[" + " ".join(str(x) for x in xs) + "]"


class Outcome:
    __slots__ = ("kind", "idx", "impl", "model", "spec", "finding")

    def __init__(self, kind, idx, impl, model, spec, finding=None):
        self.kind, self.idx, self.impl, self.model, self.spec, self.finding = kind, idx, impl, model, spec, finding

    def as_dict(self):
        return {"kind": self.kind, "cmd_index": self.idx, "impl": self.impl, "model": self.model,
                "spec": self.spec, "finding": self.finding}


def evaluate(prop, hyp, case, model_out=None):
    """Run one case on both sides. Returns (impl_outs, outcomes) where outcomes lists every command
    that is not a plain agreement."""
    ncfg = 1 + len(case.get("cfg", []))
    if model_out is None:
        model_out = run_model(case_lines(case))
    for i in range(ncfg):
        if model_out[i] not in ("ok",):
            raise Infra("model rejected configuration line %r of case: %r" % (case_lines(case)[i], model_out[i]))
    mouts = model_out[ncfg:]
    iouts = prop.impl_run(hyp, case)
    if hasattr(prop, "post_model"):
        # the model's answer may name *what* to observe (e.g. the surviving operations of a history);
        # the property turns it into an observation comparable with the implementation's
        mouts = prop.post_model(hyp, case, mouts, iouts)
    if len(iouts) != len(mouts):
        raise Infra("impl produced %d outputs for %d commands" % (len(iouts), len(mouts)))
    eq = getattr(prop, "same", lambda a, b: a == b)
    outcomes = []
    for i, (io, mo) in enumerate(zip(iouts, mouts)):
        m, s = split_ms(mo)
        if m == "bad-op":
            raise Infra("model does not understand command %r" % (case["cmds"][i],))
        if io is None:      # harness chose not to observe this command
            continue
        spec = m if s is None else s
        ok_spec = eq(io, spec)
        ok_model = eq(io, m)
        if ok_spec and ok_model:
            continue
        finding = prop.classify(case, i, io, m, spec) if hasattr(prop, "classify") else None
        if not ok_spec:
            outcomes.append(Outcome("known" if finding else "violation", i, io, m, spec, finding))
        else:
            outcomes.append(Outcome("repaired" if finding else "drift", i, io, m, spec, finding))
    return iouts, outcomes


def bad_outcomes(outcomes):
    return [o for o in outcomes if o.kind in ("violation", "drift")]


def shrink(prop, hyp, case, budget=400):
    """delta-debug the command list (then let the property shrink further) while an unlisted
    violation/drift persists"""
    def fails(c, need_violation=None):
        try:
            _, outs = evaluate(prop, hyp, c)
        except Infra:
            return False
        except Exception:
            return False
        if need_violation if need_violation is not None else want_violation:
            # a concrete failing input must stay one: never shrink it into a case that only shows drift
            return any(o.kind == "violation" for o in outs)
        return bool(bad_outcomes(outs))

    want_violation = False
    want_violation = fails(case, need_violation=True)
    cmds = list(case["cmds"])
    keep = getattr(prop, "keep_cmd", None)      # protocol commands a case cannot do without
    tries = 0
    n = 2
    while len(cmds) >= 2 and tries < budget:
        chunk = max(1, len(cmds) // n)
        reduced = False
        for start in range(0, len(cmds), chunk):
            dropped = cmds[start:start + chunk]
            if keep is not None:
                cand = cmds[:start] + [c for c in dropped if keep(c)] + cmds[start + chunk:]
                if len(cand) == len(cmds):
                    continue
            else:
                cand = cmds[:start] + cmds[start + chunk:]
            if not cand:
                continue
            tries += 1
            c2 = dict(case, cmds=cand)
            if fails(c2):
                cmds = cand
                n = max(n - 1, 2)
                reduced = True
                break
            if tries >= budget:
                break
        if not reduced:
            if chunk == 1:
                break
            n = min(n * 2, len(cmds))
    best = dict(case, cmds=cmds)
    if hasattr(prop, "shrink_more"):
        try:
            best = prop.shrink_more(best, fails)
        except Exception:
            pass
    return best


def case_hash(case):
    return hashlib.sha1(json.dumps([case.get("session"), case.get("cfg"), case["cmds"]], sort_keys=True,
                                   default=str).encode()).hexdigest()


# ----------------------------------------------------------------------------
# shard worker
# ----------------------------------------------------------------------------
_HYP = None
_PROP = None


def _shard(args):
    prop_name, seed, shard, ncases, tier, deadline = args
    prop = _PROP
    hyp = _HYP
    rng = random.Random("%s/%d/%d" % (prop_name, seed, shard))
    stats = {"evaluations": 0, "commands": 0, "nontrivial": set(), "features": {}, "samples": [],
             "failures": [], "known": {}, "repaired": {}, "disagreements": 0, "timeout": False}
    batch = []
    B = getattr(prop, "BATCH", 50)
    for i in range(ncases):
        batch.append(prop.gen(rng, tier, shard * 1000003 + i))
        if len(batch) >= B or i == ncases - 1:
            _run_batch(prop, hyp, batch, stats)
            batch = []
            if time.time() > deadline:
                stats["timeout"] = True
                break
            # stop early only on concrete failing inputs: a broken correspondence alone (drift) keeps the
            # search going, so that a real failing input - if one exists - is what gets reported
            nviol = sum(1 for f in stats["failures"] if any(o["kind"] == "violation" for o in f["outcomes"]))
            if nviol >= 2:
                break
    stats["nontrivial"] = list(stats["nontrivial"])
    return stats


def _run_batch(prop, hyp, batch, stats):
    lines = []
    spans = []
    for c in batch:
        cl = case_lines(c)
        spans.append((len(lines), len(lines) + len(cl)))
        lines += cl
    try:
        mout = run_model(lines, timeout=MODEL_TIMEOUT_S)
    except ModelTimeout:
        # one pathological case must not stall the shard: run the cases of this batch one by one and
        # skip (and count) the ones the model cannot answer in time
        mout = []
        keep = []
        for c, (a, b) in zip(batch, spans):
            try:
                mout += run_model(lines[a:b], timeout=MODEL_TIMEOUT_S)
                keep.append(c)
            except ModelTimeout:
                stats["features"]["skipped:model-timeout"] = stats["features"].get("skipped:model-timeout", 0) + 1
        batch = keep
        spans, n = [], 0
        for c in batch:
            k = len(case_lines(c))
            spans.append((n, n + k))
            n += k
    for c, (a, b) in zip(batch, spans):
        try:
            iouts, outcomes = evaluate(prop, hyp, c, mout[a:b])
        except Infra:
            raise
        stats["evaluations"] += 1
        stats["commands"] += len(c["cmds"])
        if prop.nontrivial(c, iouts):
            stats["nontrivial"].add(case_hash(c))
        for f in prop.features(c, iouts) if hasattr(prop, "features") else ():
            stats["features"][f] = stats["features"].get(f, 0) + 1
        if any(len(x) > 1 and x[1] == "zodb" for x in c.get("cfg", [])):
            # ZODB-backed stream (lib/zbox.py): the real objects live in a database connection
            for f in ["stream:zodb-backed"] + ["stream:txn " + " ".join(map(str, x[1:])) for x in c["cmds"]
                                               if x and x[0] == "txn"]:
                stats["features"][f] = stats["features"].get(f, 0) + 1
        if len(stats["samples"]) < 2:
            stats["samples"].append({"case": c, "impl": iouts[:12]})
        for o in outcomes:
            stats["disagreements"] += 1
            if o.kind == "known":
                stats["known"].setdefault(o.finding, {"case": c, "outcome": o.as_dict()})
            elif o.kind == "repaired":
                stats["repaired"].setdefault(o.finding, {"case": c, "outcome": o.as_dict()})
        if bad_outcomes(outcomes):
            is_viol = any(o.kind == "violation" for o in outcomes)
            ndrift = sum(1 for f in stats["failures"] if not any(o["kind"] == "violation" for o in f["outcomes"]))
            if is_viol or ndrift < 8:       # keep every failing input, but only the first few drift cases
                stats["failures"].append({"case": c, "outcomes": [o.as_dict() for o in bad_outcomes(outcomes)]})


# ----------------------------------------------------------------------------
# main entry
# ----------------------------------------------------------------------------
def load_known():
    p = VERIF / "known_findings.json"
    if not p.exists():
        return {"known": [], "fixed": []}
    return json.loads(p.read_text())


def out_root():
    """where evidence/ and replays/ are written: /verif, unless VERIF_OUT redirects them (used when the
    checks are pointed at a deliberately modified copy of the repository, see harness/seedrun.py)"""
    return Path(os.environ.get("VERIF_OUT") or VERIF)


def write_evidence(prop, ev):
    d = out_root() / "evidence"
    d.mkdir(parents=True, exist_ok=True)
    (d / (prop.ID + ".json")).write_text(json.dumps(ev, indent=1, default=str) + "\n")


def write_replay(prop, payload):
    d = out_root() / "replays"
    d.mkdir(parents=True, exist_ok=True)
    h = hashlib.sha1(json.dumps(payload, sort_keys=True, default=str).encode()).hexdigest()[:10]
    p = d / ("%s_%s.json" % (prop.ID, h))
    p.write_text(json.dumps(payload, indent=1, default=str) + "\n")
    return p


def corpus_cases(prop):
    d = VERIF / "corpus" / prop.ID
    out = []
    if d.is_dir():
        for p in sorted(d.glob("*.json")):
            out.append((p.name, json.loads(p.read_text())))
    return out


def run_check(prop, tier, seed, replay=None):
    global _HYP, _PROP, _MODEL_CMD
    _MODEL_CMD = getattr(prop, "model_cmd", None)
    t0 = time.time()
    violations = []        # (replay path, suffix)
    known_lines = []
    notes = []
    known_db = load_known()
    listed = {k["id"]: k for k in known_db.get("known", []) if prop.ID in k.get("property", [])}

    # ---- proof step --------------------------------------------------------
    build_s = ensure_built()
    bad = source_audit()
    if bad:
        raise Infra("forbidden constructs in Lean sources: %s" % bad[:5])
    ax = axiom_audit(prop.AUDIT_IMPORTS, prop.THEOREMS)
    obligations = len(prop.THEOREMS)
    discharged = 0
    ax_used = set()
    for t in prop.THEOREMS:
        a = set(ax.get(t, ["<missing>"]))
        ax_used |= a
        if a <= ALLOWED_AXIOMS:
            discharged += 1
        else:
            raise Infra("theorem %s depends on non-allowed axioms %s" % (t, sorted(a)))
    checker_note = ""
    if tier == "thorough" and getattr(prop, "LEANCHECKER", True):
        ok, out = leanchecker(prop.AUDIT_IMPORTS)
        if not ok:
            raise Infra("leanchecker rejected %s: %s" % (prop.AUDIT_IMPORTS, out))
        checker_note = "; leanchecker re-checked %s" % ",".join(prop.AUDIT_IMPORTS)

    # ---- did the source change structurally? (more cases if so; not a verdict) ---------------
    global ESCALATION
    src_changed = []
    try:
        src_changed = fingerprint.changed(REPO, "ALL")
    except Exception as e:          # a tree that does not parse is not this step's business
        notes.append("fingerprint step skipped: %r" % (e,))
    anchored = [c for c in src_changed if c.split(":")[0] in fingerprint.anchored_files(prop.ID)]
    ESCALATION = 1
    if src_changed and not replay:
        ESCALATION = int(os.environ.get("VERIF_ESCALATE", getattr(prop, "ESCALATE", 6)))
        notes.append("source differs structurally from the registered tree in %d place(s) (%d in this property's "
                     "anchored files): generating %dx the cases" % (len(src_changed), len(anchored), ESCALATION))

    # ---- implementation ----------------------------------------------------
    hyp = load_impl(build_c=getattr(prop, "BUILD_C", False))
    if hasattr(prop, "setup"):
        prop.setup(hyp, tier, seed)
    _HYP, _PROP = hyp, prop

    def handle_failure(case, origin):
        small = shrink(prop, hyp, case)
        try:
            iouts, outs = evaluate(prop, hyp, small)
        except Exception:
            small = case
            iouts, outs = evaluate(prop, hyp, small)
        bads = bad_outcomes(outs)
        if not bads:
            small = case
            iouts, outs = evaluate(prop, hyp, small)
            bads = bad_outcomes(outs)
        viol = [o for o in bads if o.kind == "violation"]
        if viol:
            payload = {"property": prop.ID, "verdict": "failing-input", "origin": origin, "case": small,
                       "commands": case_lines(small), "disagreements": [o.as_dict() for o in viol],
                       "explanation": "implementation answer differs from the specification's answer "
                                      "(I != S) on the listed command(s)"}
            violations.append((write_replay(prop, payload), ""))
        else:
            # correspondence broke, but on this input the property still holds: look for a real one
            found = None
            if hasattr(prop, "neighbourhood"):
                rng = random.Random("nbh/%s" % case_hash(small))
                for _ in range(getattr(prop, "NEIGHBOURHOOD_TRIES", 300)):
                    c2 = prop.neighbourhood(rng, small)
                    try:
                        _, o2 = evaluate(prop, hyp, c2)
                    except Exception:
                        continue
                    v2 = [o for o in o2 if o.kind == "violation"]
                    if v2:
                        found = (c2, v2)
                        break
            if found:
                c2 = shrink(prop, hyp, found[0])
                _, o2 = evaluate(prop, hyp, c2)
                v2 = [o for o in o2 if o.kind == "violation"] or found[1]
                payload = {"property": prop.ID, "verdict": "failing-input", "origin": origin, "case": c2,
                           "commands": case_lines(c2), "disagreements": [o.as_dict() for o in v2]}
                violations.append((write_replay(prop, payload), ""))
            else:
                payload = {"property": prop.ID, "verdict": "no-failing-input-found", "origin": origin,
                           "case": small, "commands": case_lines(small),
                           "disagreements": [o.as_dict() for o in bads],
                           "broken": "correspondence implementation ~ model (relation: equal after "
                                     "canonicalisation) for session '%s'; theorems %s are about the model "
                                     "and no longer transfer to the code" % (small.get("session"),
                                                                             ", ".join(prop.THEOREMS[:4]))}
                violations.append((write_replay(prop, payload), " no-failing-input-found"))

    evaluations = 0
    nontrivial = set()
    features = {}
    samples = []
    disagreements = 0
    reproduced = {}
    repaired = {}

    def absorb_single(case, origin):
        nonlocal evaluations, disagreements
        iouts, outs = evaluate(prop, hyp, case)
        evaluations += 1
        if prop.nontrivial(case, iouts):
            nontrivial.add(case_hash(case))
        for o in outs:
            disagreements += 1
            if o.kind == "known":
                reproduced.setdefault(o.finding, {"case": case, "outcome": o.as_dict()})
            elif o.kind == "repaired":
                repaired.setdefault(o.finding, {"case": case, "outcome": o.as_dict()})
        if bad_outcomes(outs):
            handle_failure(case, origin)
        return iouts, outs

    if replay:
        payload = json.loads(Path(replay).read_text())
        case = payload["case"] if "case" in payload else payload
        iouts, outs = absorb_single(case, "replay")
        for i, (c, o) in enumerate(zip(case["cmds"], iouts)):
            print("  %3d %-40s -> %s" % (i, " ".join(map(str, c)), o))
        for o in outs:
            print("  ", o.as_dict())
    else:
        # corpus + witnesses first
        for name, case in corpus_cases(prop):
            absorb_single(case, "corpus/" + name)
        for fid, case in (prop.witnesses() if hasattr(prop, "witnesses") else []):
            absorb_single(case, "witness/" + fid)
        if hasattr(prop, "extra"):
            # property-specific exhaustive / large checks; returns dict(evaluations, features, failures)
            ex = prop.extra(hyp, tier, seed)
            evaluations += ex.get("evaluations", 0)
            for k, v in ex.get("features", {}).items():
                features[k] = features.get(k, 0) + v
            for h in ex.get("nontrivial", []):
                nontrivial.add(h)
            for fcase in ex.get("failures", []):
                handle_failure(fcase, "extra")
            for s in ex.get("samples", []):
                samples.append(s)
            for payload, suffix in ex.get("violations", []):
                violations.append((write_replay(prop, payload), suffix))
        # generated cases; several times more of them when the source differs structurally from the tree
        # the check was registered on (lib/fingerprint.py) - never a verdict, only more search
        ncases = prop.CASES[tier] * ESCALATION
        budget = prop.BUDGET_S[tier] if hasattr(prop, "BUDGET_S") else (50 if tier == "quick" else 780)
        deadline = time.time() + budget
        nshards = min(NCPU, max(1, ncases // 5))
        per = (ncases + nshards - 1) // nshards
        if ncases > 0:
            ctx = multiprocessing.get_context("fork")
            with ProcessPoolExecutor(max_workers=nshards, mp_context=ctx) as ex:
                results = list(ex.map(_shard, [(prop.ID, seed, s, per, tier, deadline) for s in range(nshards)]))
            for st in results:
                evaluations += st["evaluations"]
                nontrivial.update(st["nontrivial"])
                disagreements += st["disagreements"]
                for k, v in st["features"].items():
                    features[k] = features.get(k, 0) + v
                if len(samples) < 3:
                    samples += st["samples"][:1]
                for k, v in st["known"].items():
                    reproduced.setdefault(k, v)
                for k, v in st["repaired"].items():
                    repaired.setdefault(k, v)
                if st["timeout"]:
                    notes.append("time budget reached; %d cases done in one shard" % st["evaluations"])
            # concrete failing inputs first, correspondence-only drift after them
            allf = [f for st in results for f in st["failures"]]
            allf.sort(key=lambda f: (0 if any(o["kind"] == "violation" for o in f["outcomes"]) else 1,
                                     len(f["case"]["cmds"])))
            have_input = False
            for n, f in enumerate(allf[:3]):
                is_drift = not any(o["kind"] == "violation" for o in f["outcomes"])
                if is_drift and have_input:
                    break       # a concrete failing input is already reported
                handle_failure(f["case"], "generated")
                have_input = have_input or not is_drift

    # ---- known findings ----------------------------------------------------
    for fid, rec in reproduced.items():
        if fid in listed:
            known_lines.append("KNOWN-FINDING: property=%s %s: %s" % (prop.ID, fid, listed[fid]["what"]))
        else:
            payload = {"property": prop.ID, "verdict": "failing-input", "origin": "unlisted-finding " + str(fid),
                       "case": rec["case"], "commands": case_lines(rec["case"]),
                       "disagreements": [rec["outcome"]]}
            violations.append((write_replay(prop, payload), ""))
    for fid in listed:
        if fid not in reproduced and not replay:
            notes.append("listed known finding %s did not reproduce in this run" % fid)
    for fid in repaired:
        notes.append("known finding %s: implementation now agrees with the specification on a case where "
                     "the model mirrors the defect" % fid)

    for line in known_lines:
        print(line)
    seen = set()
    violations.sort(key=lambda v: 1 if v[1] else 0)     # concrete failing inputs first
    for path, suffix in violations:
        if str(path) in seen:
            continue
        seen.add(str(path))
        print("VIOLATION property=%s replay=%s%s" % (prop.ID, path, suffix))

    wall = time.time() - t0
    ev = {
        "property_id": prop.ID,
        "tier": tier,
        "seed": seed,
        "level": "proof",
        "coverage": {
            "obligations": obligations,
            "discharged": discharged,
            "checker_cmd": "cd lean && lake build && lake env lean <#print axioms of the %d theorems>%s"
                           % (obligations, checker_note),
            "trusted_base": [
                "Lean 4.33.0 kernel; axioms used by these theorems: %s" % (sorted(ax_used) or ["none"]),
                "hand-written Lean model of the anchored code, tied to /repo by this run's correspondence "
                "check (sampled, public API only)",
                "the harness (generators, canonicaliser, exception mapping) and the compiled driver hmodel",
            ] + list(getattr(prop, "TRUSTED", [])),
            "theorems": prop.THEOREMS,
            "evaluations": evaluations,
            "distinct_nontrivial": len(nontrivial),
            "rule": prop.RULE,
            "samples": samples[:3] if samples else [{"note": "no generated samples in this mode"}],
            "features": dict(sorted(features.items())),
            "disagreements_checked": disagreements,
            "known_findings_reproduced": sorted(reproduced),
            "notes": notes,
            "anchored_source_changed": src_changed[:40],
            "lake_build_s": round(build_s, 2),
        },
        "assumptions": list(getattr(prop, "ASSUMPTIONS", [])),
        "wall_s": round(wall, 2),
        "violations": len(seen),
    }
    if not replay:
        write_evidence(prop, ev)
    print("%s %s seed=%d: %d theorems audited, %d cases (%d distinct non-trivial), %d violation(s), %.1fs"
          % (prop.ID, tier, seed, discharged, evaluations, len(nontrivial), len(seen), wall))
    return 1 if seen else 0
