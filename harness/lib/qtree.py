"""Query trees over a real catalog: generator, builder, serialiser (shared by C04, C05, C18)."""
from lib.core import exc_name, idset

FIELD_CMPS = ["eq", "noteq", "gt", "ge", "lt", "le", "any", "notany", "inrange", "notinrange"]
KW_CMPS = ["eq", "noteq", "any", "notany", "all", "notall"]
TEXT_CMPS = ["contains", "notcontains", "eq", "noteq"]
ALL_CMPS = ["eq", "noteq", "gt", "ge", "lt", "le", "any", "notany", "all", "notall", "contains", "notcontains"]
WORDS = ["apple", "berry", "cherry", "date", "elder", "fig", "grape", "hazel"]
CLASSNAME = {"eq": "Eq", "noteq": "NotEq", "gt": "Gt", "ge": "Ge", "lt": "Lt", "le": "Le", "any": "Any",
             "notany": "NotAny", "all": "All", "notall": "NotAll", "contains": "Contains",
             "notcontains": "NotContains"}
NAME_OF_CLASS = {v: k for k, v in CLASSNAME.items()}

# --- model-backed facet and text indexes (`e2e` catalogs: C04's `applye2e` composes the C13 / C03 index models) ---
# configured facets; the dictionary of leaf values (two names are not configured); the dictionary of document
# values (the last two paths match no configured facet: such a document is not known to the index)
FACETS = ["k0", "k0:a", "k0:a:b", "k1", "k1:a", "k2"]
FACET_NAMES = FACETS + ["k3", "k1:b"]
FACET_PATHS = ["k0", "k0:a", "k0:a:b", "k0:c", "k1:a:x", "k1", "k2:z", "k3", "q:k0"]
FACET_MATCHED = 7
SEGMENTS = {"k0": 0, "k1": 1, "k2": 2, "k3": 3, "a": 10, "b": 11, "c": 12, "x": 13, "z": 14, "q": 15}
# the dictionary of text leaf values: query STRINGS of the text query language (the first len(WORDS) are the
# single words); every one is accepted by the parser
QUERIES = WORDS + ['"apple berry"', "cherry AND NOT date", "(fig OR grape) AND elder", "ha*", "berry cherry",
                   "apple -berry", 'Date OR "elder fig"', "gr?pe or hazel", "the apple", "fig AND cherry",
                   '"cherry date elder"', "(apple OR berry) AND NOT (cherry OR date)"]
NVALS = {"field": 10, "keyword": 6, "facet": 6, "text": len(WORDS)}
NVALS_E2E = {"field": 10, "keyword": 6, "facet": len(FACET_NAMES), "text": len(QUERIES)}
NDOCVALS_E2E = {"keyword": 6, "facet": len(FACET_PATHS), "text": len(WORDS)}


def facet_tok(f):
    return ".".join(str(SEGMENTS[s]) for s in f.split(":"))


def enc(s):
    return "u" + ".".join("%x" % ord(c) for c in s)


_TEXT_CFG = None


def text_cfg():
    """lexicon configuration lines of the default TextIndex lexicon (Splitter, CaseNormalizer, StopWordRemover)
    for the alphabet of WORDS/QUERIES, computed from CPython like the `text` session's"""
    global _TEXT_CFG
    if _TEXT_CFG is None:
        import re
        import sys
        from props import c15
        chars = sorted(set("".join(WORDS + QUERIES)) | set("".join(WORDS + QUERIES).upper())
                       | set("".join(WORDS + QUERIES).lower()))
        spaces = [c for c in range(sys.maxunicode + 1) if re.match(r"\s", chr(c))]
        _TEXT_CFG = c15.table_cfg(chars) + [["cfg", "stop"] + [enc(w) for w in c15.stops()],
                                            ["cfg", "pipeline", "splitter", "case", "stop"],
                                            ["cfg", "space"] + ["%x" % c for c in spaces]]
    return [list(c) for c in _TEXT_CFG]


def doc_values(rng, k, total, e2e, dist=None):
    """the value tokens of one `doc` line for an index of kind k (dist: the value distribution of a large /
    wide catalog, see `Dist`)"""
    if k == "field":
        return [dist.pick(rng, "field") if dist else rng.randrange(10)]
    if k == "text":
        n = rng.randrange(1, 5) if total else rng.randrange(0, 5)
        return [rng.randrange(len(WORDS)) for _ in range(n)]
    if k == "facet" and e2e:
        hi = FACET_MATCHED if total or rng.random() < 0.8 else len(FACET_PATHS)
        return sorted(set(rng.randrange(hi) for _ in range(rng.randrange(1, 4))))
    if dist and k == "keyword":
        return sorted(set(dist.pick(rng, "keyword") for _ in range(rng.randrange(1, 4))))
    return sorted(set(rng.randrange(6) for _ in range(rng.randrange(1, 4))))


class Dist(object):
    """value distribution of a large / wide catalog: `n[kind]` distinct values; with skew the x-th most frequent
    value is perm[x] and frequencies fall off cubically (40 values, 400 documents: the most frequent value has
    ~ 115 documents, each of the 10 rarest ~ 3), so that the operands of one query differ in size by far more
    than the thresholds of size-dependent code paths (x 32, x 64)"""

    def __init__(self, rng, nfield, nkw, skew):
        self.n = {"field": nfield, "keyword": nkw}
        self.skew = skew
        self.perm = {k: rng.sample(range(n), n) for k, n in self.n.items()}

    def pick(self, rng, kind):
        n = self.n[kind]
        if not self.skew:
            return rng.randrange(n)
        return self.perm[kind][min(n - 1, int(n * rng.random() ** 3))]

    def frequent(self, rng, kind):
        return self.perm[kind][rng.randrange(min(3, self.n[kind]))]

    def rare(self, rng, kind):
        n = self.n[kind]
        return self.perm[kind][rng.randrange(n // 2, n)]


class Doc(object):
    pass


def gen_catalog(rng, total, kinds=None, e2e=False):
    """cfg + doc lines.  total=True: every document has a (non-empty) value in every index.
    e2e=True: facet and text indexes are model-backed in the driver (hierarchical facets, query strings)."""
    return gen_catalog_x(rng, total, kinds, e2e)[:3]


def pair_kinds(rng):
    """kinds for a `twocat` catalog: the indexes 2j and 2j+1 have the same kind (they get the same NAME in two
    different catalogs)"""
    ks = []
    for _ in range(rng.choice([1, 1, 2])):
        k = rng.choice(["field", "field", "keyword", "facet", "text"])
        ks += [k, k]
    if rng.random() < 0.3:
        ks.append(rng.choice(["field", "keyword"]))
    return ks


def gen_catalog_x(rng, total, kinds=None, e2e=False, ndocs=None, dist=None, twocat=False, idrange=40):
    """gen_catalog with the knobs of the large / wide / two-catalog modes; returns (kinds, cfg, docs, dist).
    twocat: index i is registered in catalog i % 2 under the name n<i // 2> - two catalogs whose indexes carry
    the same names (the driver ignores the line: to the model they are simply different indexes)"""
    nidx = rng.randrange(1, 5)
    if kinds is None:
        kinds = [rng.choice(["field", "field", "keyword", "facet", "text"]) for _ in range(nidx)]
    cfg = [["cfg", "family", 64]]
    if twocat:
        cfg.append(["cfg", "twocat", 1])
    if e2e:
        cfg.append(["cfg", "e2e", 1])
        if "text" in kinds:
            cfg += text_cfg()
    for k in kinds:
        if e2e and k == "facet":
            cfg += [["cfg", "index", "facet"], ["cfg", "dict", "facets"] + [facet_tok(f) for f in FACETS],
                    ["cfg", "dict", "names"] + [facet_tok(f) for f in FACET_NAMES],
                    ["cfg", "dict", "paths"] + [facet_tok(f) for f in FACET_PATHS]]
        elif e2e and k == "text":
            cfg += [["cfg", "index", "textm"], ["cfg", "dict", "words"] + [enc(w) for w in WORDS],
                    ["cfg", "dict", "queries"] + [enc(q) for q in QUERIES]]
        else:
            cfg.append(["cfg", "index", "keyword" if k == "facet" else k])
    if ndocs is None:
        ndocs = rng.choice([0, 1, 2, 3, 5, 8, 12, 25])
    docs = []
    ids = rng.sample(range(max(idrange, ndocs)), ndocs)
    for d in ids:
        for i, k in enumerate(kinds):
            if not total and rng.random() < 0.2:
                if rng.random() < 0.5:
                    docs.append(["doc", i, d, "none"])
                continue        # else: not known to this index at all
            docs.append(["doc", i, d] + doc_values(rng, k, total, e2e, dist))
    return kinds, cfg, docs, dist


def gen_leaf(rng, kinds, admissible_p=0.93, e2e=False, dist=None):
    i = rng.randrange(len(kinds))
    k = kinds[i]
    pool = {"field": FIELD_CMPS, "keyword": KW_CMPS, "facet": KW_CMPS, "text": TEXT_CMPS}[k]
    c = rng.choice(pool) if rng.random() < admissible_p else rng.choice(ALL_CMPS + ["inrange"])
    nvals = (NVALS_E2E if e2e else NVALS)[k]
    if dist and k in dist.n:
        nvals = dist.n[k]
    if c in ("inrange", "notinrange"):
        return ["range", 1 if c == "notinrange" else 0, i, rng.randrange(nvals), rng.randrange(nvals),
                rng.randrange(2), rng.randrange(2)]
    if c in ("any", "notany", "all", "notall"):
        n = rng.choice([0, 1, 2, 2, 3])
        return ["cmp", c, i, "many", [rng.randrange(nvals) for _ in range(n)]]
    return ["cmp", c, i, "one", rng.randrange(nvals)]


def gen_tree(rng, kinds, depth, range_bias=0.0, allow_not=True, e2e=False, dist=None):
    r = rng.random()
    if depth <= 0 or r < 0.3:
        if rng.random() < range_bias:
            fi = [i for i, k in enumerate(kinds) if k == "field"]
            if fi:
                return ["cmp", rng.choice(["gt", "ge", "lt", "le"]), rng.choice(fi), "one",
                        rng.randrange(dist.n["field"] if dist else 10)]
        return gen_leaf(rng, kinds, e2e=e2e, dist=dist)
    if allow_not and r < 0.42:
        return ["not", gen_tree(rng, kinds, depth - 1, range_bias, allow_not, e2e, dist)]
    op = "and" if r < 0.72 else "or"
    n = rng.choice([1, 2, 2, 2, 3, 3, 4])
    kids = [gen_tree(rng, kinds, depth - 1, range_bias, allow_not, e2e, dist) for _ in range(n)]
    if rng.random() < 0.15 and kids:
        kids.append(kids[0])          # repeated operand
    return [op, kids]


# --- generators aimed at size- and arity-dependent code paths, and at folds across indexes --------------------
NEG_CMP = {"eq": "noteq", "noteq": "eq", "gt": "le", "le": "gt", "lt": "ge", "ge": "lt", "any": "notany",
           "notany": "any", "all": "notall", "notall": "all", "contains": "notcontains", "notcontains": "contains"}
WIDE_ARITIES = [9, 12, 15, 16, 17, 17, 18, 19, 20, 21, 23, 24, 25, 31, 32, 33, 33, 34, 40]


def neg_tree(t):
    """the tree hypatia's negate() gives (without flattening): same answer as Not(t) on a Total catalog"""
    if t[0] == "cmp":
        return ["cmp", NEG_CMP[t[1]], t[2], t[3], t[4]]
    if t[0] == "range":
        return ["range", 0 if t[1] else 1] + list(t[2:])
    if t[0] == "not":
        return t[1]
    return ["or" if t[0] == "and" else "and", [neg_tree(k) for k in t[1]]]


def _nv(kinds, i, e2e, dist):
    k = kinds[i]
    return dist.n[k] if dist and k in dist.n else (NVALS_E2E if e2e else NVALS)[k]


def selective_leaf(rng, kinds, e2e, dist, rare=False):
    """a leaf that matches FEW documents (one value, two values, a short range); rare: one of the rare values of
    a skewed catalog"""
    i = rng.randrange(len(kinds))
    k = kinds[i]
    n = _nv(kinds, i, e2e, dist)
    val = (lambda: dist.rare(rng, k)) if rare and dist and dist.skew and k in dist.n else (lambda: rng.randrange(n))
    r = rng.random()
    if k == "text":
        return ["cmp", rng.choice(["contains", "eq"]), i, "one", val()]
    if r < 0.6:
        return ["cmp", "eq", i, "one", val()]
    if r < 0.8 or k != "field":
        return ["cmp", "any", i, "many", [val() for _ in range(rng.choice([1, 2, 2, 3]))]]
    lo = val()
    return ["range", 0, i, lo, lo + rng.choice([0, 0, 1]), 0, 0]


def broad_leaf(rng, kinds, e2e, dist, total):
    """a leaf that matches MOST or MANY documents: open bounds (everything that has a value), bounds in the middle
    and the frequent values of a skewed catalog (a large part - a later selective operand is then usually NOT a
    subset), complements of frequent / of rare values"""
    t = selective_leaf(rng, kinds, e2e, dist, rare=True)
    i = t[2]
    k = kinds[i]
    r = rng.random()
    skew = dist and dist.skew and k in dist.n
    if k == "field" and r < 0.2:
        n = _nv(kinds, i, e2e, dist)
        return rng.choice([["cmp", "ge", i, "one", rng.randrange(0, 2)], ["cmp", "le", i, "one", n - 1 - rng.randrange(0, 2)],
                           ["cmp", "gt", i, "one", -1], ["range", 0, i, 0, n, 0, 0]])
    if k == "field" and r < 0.45:
        n = _nv(kinds, i, e2e, dist)
        m = rng.randrange(n // 4, 3 * n // 4 + 1)
        return rng.choice([["cmp", "ge", i, "one", m], ["cmp", "lt", i, "one", m], ["cmp", "le", i, "one", m],
                           ["range", rng.randrange(2), i, n // 4, m, 0, 1]])
    if skew and r < 0.55:
        return ["cmp", "any", i, "many", sorted(set(dist.frequent(rng, k) for _ in range(3)))]
    if skew and r < 0.67:
        # one frequent value: on a keyword index the answer IS the stored posting set (an operation that updated
        # its bigger operand in place would corrupt the index for the queries that follow)
        return rng.choice([["cmp", "eq", i, "one", dist.perm[k][0]], ["cmp", "eq", i, "one", dist.frequent(rng, k)],
                           ["cmp", "all" if k != "field" else "eq", i, "many" if k != "field" else "one",
                            [dist.perm[k][0]] if k != "field" else dist.perm[k][0]]])
    if skew and r < 0.8:
        return rng.choice([["cmp", "noteq", i, "one", dist.frequent(rng, k)],
                           ["cmp", "notany", i, "many", [dist.frequent(rng, k), dist.rare(rng, k)]]])
    # NotEq / NotAny / NotInRange of a selective leaf: the index's whole population minus a few (on a non-Total
    # catalog that includes value-less documents: still an And/Or clause the specification determines)
    return neg_tree(t)


def present(rng, op, kids, total):
    """one of the ways hypatia arrives at an n-ary And/Or over `kids`: the flat constructor call, nested
    same-type groups (flattened by the constructor), and - on Total catalogs, where the specification determines
    complements - Not over the dual node of the negated operands (expanded by negate())"""
    r = rng.random()
    if total and r < 0.25:
        return ["not", ["or" if op == "and" else "and", [neg_tree(k) for k in kids]]]
    if r < 0.5 and len(kids) >= 4:
        out, j = [], 0
        while j < len(kids):
            g = rng.choice([1, 1, 2, 3, 5, 8])
            grp = kids[j:j + g]
            j += g
            if len(grp) == 1:
                out += grp
            elif total and rng.random() < 0.2:
                out.append(["not", ["or" if op == "and" else "and", [neg_tree(k) for k in grp]]])
            else:
                out.append([op, grp])
        return [op, out]
    return [op, list(kids)]


def gen_wide(rng, kinds, total, e2e=False, dist=None):
    """And / Or with 9-40 operands (around 16 and 32, mostly not powers of two): every operand of an Or is
    selective, every operand of an And broad, so that each single operand matters for the answer"""
    op = rng.choice(["and", "or"])
    n = rng.choice(WIDE_ARITIES)
    kids = []
    for _ in range(n):
        r = rng.random()
        if r < 0.06:
            kids.append(gen_tree(rng, kinds, 1, e2e=e2e, dist=dist, allow_not=total))
        elif op == "or":
            kids.append(selective_leaf(rng, kinds, e2e, dist))
        else:
            kids.append(broad_leaf(rng, kinds, e2e, dist, total))
    if rng.random() < 0.1:
        kids.append(kids[rng.randrange(len(kids))])
    return present(rng, op, kids, total)


def gen_skew(rng, kinds, total, e2e=False, dist=None):
    """And / Or of 2-5 operands of very different sizes in random order (the small operand first, last, in the
    middle): broad leaves and selective leaves over rare values"""
    op = rng.choice(["and", "and", "or"])
    stored = [i for i, k in enumerate(kinds) if k in ("keyword", "facet")]
    if dist and dist.skew and stored and rng.random() < 0.25:
        # the first operand's answer is a stored posting set (Eq / All of one frequent keyword), the operands after
        # it are tiny: whatever combines them must not write into its bigger operand
        i = rng.choice(stored)
        v = dist.perm["keyword"][0] if kinds[i] == "keyword" else rng.randrange(_nv(kinds, i, e2e, dist))
        first = rng.choice([["cmp", "eq", i, "one", v], ["cmp", "all", i, "many", [v]]])
        op = rng.choice(["and", "or", "or"])
        return [op, [first] + [selective_leaf(rng, kinds, e2e, dist, rare=True) for _ in range(rng.choice([1, 2, 3]))]]
    nb, ns = rng.choice([(1, 1), (1, 1), (2, 1), (1, 2), (3, 1), (2, 2), (1, 0), (3, 2)])
    kids = [broad_leaf(rng, kinds, e2e, dist, total) for _ in range(nb)] + \
           [selective_leaf(rng, kinds, e2e, dist, rare=True) for _ in range(ns)]
    if rng.random() < 0.6:
        rng.shuffle(kids)
    if rng.random() < 0.2:
        kids.append(gen_tree(rng, kinds, 2, e2e=e2e, dist=dist, allow_not=total))
    t = present(rng, op, kids, total)
    if rng.random() < 0.2:
        # one level up: the skewed node is itself an operand
        t = [rng.choice(["and", "or"]), [broad_leaf(rng, kinds, e2e, dist, total), t]]
    return t


def gen_eqfold(rng, kinds, e2e=False, dist=None, allow_not=True):
    """And / Or whose operands are all Eq (or all NotEq): the shape the optimiser folds into Any/All/NotAny/NotAll
    when the operands address ONE index - here they address one index, or several indexes of the same kind
    (with `twocat` catalogs: same-named indexes of two catalogs)"""
    i = rng.randrange(len(kinds))
    same = [j for j, k in enumerate(kinds) if k == kinds[i]]
    c = rng.choice(["eq", "eq", "noteq"])
    n = rng.choice([2, 2, 2, 3, 3, 4])
    mixed = len(same) > 1 and rng.random() < 0.6
    kids = []
    for _ in range(n):
        j = rng.choice(same) if mixed else i
        kids.append(["cmp", c, j, "one", rng.randrange(_nv(kinds, j, e2e, dist))])
    t = [rng.choice(["and", "or"]), kids]
    r = rng.random()
    if allow_not and r < 0.2:
        t = ["not", neg_tree(t)]
    elif r < 0.4:
        t = [rng.choice(["and", "or"]), [t, gen_leaf(rng, kinds, e2e=e2e, dist=dist)]]
    return t


class Impl(object):
    """a real catalog with real indexes, filled from the doc lines"""

    def __init__(self, hyp, cfg, kinds=None):
        import BTrees
        from hypatia.catalog import Catalog
        from hypatia.field import FieldIndex
        from hypatia.keyword import KeywordIndex
        from hypatia.facet import FacetIndex
        from hypatia.text import TextIndex
        fam = BTrees.family64
        for c in cfg:
            if c[1] == "family" and c[2] == 32:
                fam = BTrees.family32
        self.family = fam
        self.e2e = any(c[1] == "e2e" for c in cfg)
        self.kinds = kinds or [c[2] for c in cfg if c[1] == "index"]
        self.twocat = any(c[1] == "twocat" for c in cfg)
        # keyword indexes are a subclass overriding the documented `normalize()` hook (case-insensitive
        # keywords): documents and query constants are spelled K<n>, the index stores k<n> (seeded C05_H)
        self.normkw = any(c[1] == "normkw" for c in cfg)
        if self.normkw:
            class NormKeywordIndex(KeywordIndex):
                def normalize(self, seq):
                    return [w.lower() if isinstance(w, str) else w for w in seq]
            KeywordIndex = NormKeywordIndex
        self.cats = [Catalog(family=fam), Catalog(family=fam)] if self.twocat else [Catalog(family=fam)]
        self.cat = self.cats[0]
        self.idx = []
        self.table = {}         # index -> {docid: value | None}: what was indexed (for the independent evaluation)
        for i, k in enumerate(self.kinds):
            attr = "a%d" % i
            if k == "field":
                ix = FieldIndex(attr, family=fam)
            elif k == "keyword":
                ix = KeywordIndex(attr, family=fam)
            elif k == "facet":
                ix = FacetIndex(attr, facets=list(FACETS) if self.e2e else ["k%d" % j for j in range(6)],
                                family=fam)
            else:
                ix = TextIndex(attr, family=fam)
            if self.twocat:
                # index i lives in catalog i % 2 under the name n<i // 2>: two catalogs, same index names
                self.cats[i % 2]["n%d" % (i // 2)] = ix
            else:
                self.cat["i%d" % i] = ix
            self.idx.append(ix)

    def value(self, i, toks):
        k = self.kinds[i]
        if toks == ["none"]:
            return None
        if k == "field":
            return toks[0]
        if k == "text":
            return " ".join(WORDS[t] for t in toks)
        if k == "facet" and self.e2e:
            return [FACET_PATHS[t] for t in toks]
        if k == "keyword" and getattr(self, "normkw", False):
            return ["K%d" % t for t in toks]
        return ["k%d" % t for t in toks]

    def xbuild(self, t, names):
        """a query over exotic constants (see the section at the end of this module); fills `names`"""
        from hypatia import query as Q
        from hypatia.query import Name
        if t[0] == "not":
            return Q.Not(self.xbuild(t[1], names))
        if t[0] in ("and", "or"):
            return (Q.And if t[0] == "and" else Q.Or)(*[self.xbuild(k, names) for k in t[1]])
        i = t[2]
        conv = lambda x: self.const(i, x)       # noqa: E731
        sfx = "_" + self.kinds[i][0]
        if t[0] == "range":
            _, neg, _, lo, hi, el, eh = t
            return (Q.NotInRange if neg else Q.InRange)(self.idx[i], xparse_val(lo, names, conv, sfx),
                                                        xparse_val(hi, names, conv, sfx), bool(el), bool(eh))
        _, c, _, tag, v = t
        if tag == "one":
            val = xparse_val(v, names, conv, sfx)
        else:
            val = [xparse_val(x, names, conv, sfx) for x in v]
            if tag == "manyt":
                val = tuple(val)
            elif tag == "manyn":
                key = "c%d" % len(names)
                names[key] = val
                val = Name(key)
        return getattr(Q, CLASSNAME[c])(self.idx[i], val)

    def doc(self, c):
        i, d = c[1], c[2]
        o = Doc()
        v = self.value(i, list(c[3:]))
        self.table.setdefault(i, {})[d] = v
        if v is not None:
            setattr(o, "a%d" % i, v)
        self.idx[i].index_doc(d, o)

    def const(self, i, x):
        k = self.kinds[i]
        if k == "field":
            return x
        if k == "text":
            return QUERIES[x] if self.e2e else WORDS[x]
        if k == "facet" and self.e2e:
            return FACET_NAMES[x]
        if k == "keyword" and getattr(self, "normkw", False):
            return "K%d" % x
        return "k%d" % x

    def build(self, t):
        from hypatia import query as Q
        if t[0] == "cmp":
            _, c, i, tag, v = t
            val = self.const(i, v) if tag == "one" else [self.const(i, x) for x in v]
            return getattr(Q, CLASSNAME[c])(self.idx[i], val)
        if t[0] == "range":
            _, neg, i, lo, hi, el, eh = t
            cls = Q.NotInRange if neg else Q.InRange
            return cls(self.idx[i], self.const(i, lo), self.const(i, hi), bool(el), bool(eh))
        if t[0] == "not":
            return Q.Not(self.build(t[1]))
        cls = Q.And if t[0] == "and" else Q.Or
        return cls(*[self.build(k) for k in t[1]])

    def unconst(self, ix, v):
        i = self.idx.index(ix) if ix in self.idx else [id(x) for x in self.idx].index(id(ix))
        k = self.kinds[i]
        if k == "field":
            return i, v
        if k == "text":
            return i, (QUERIES if self.e2e else WORDS).index(v)
        if k == "facet" and self.e2e:
            return i, FACET_NAMES.index(v)
        return i, int(v[1:])

    def tokens(self, q):
        """serialise a real query object (as constructed / as optimised) to the driver's prefix form"""
        from hypatia import query as Q
        name = type(q).__name__
        if isinstance(q, (Q.InRange, Q.NotInRange)):
            i, lo = self.unconst(q.index, q._start)
            _, hi = self.unconst(q.index, q._end)
            return ["range", 1 if isinstance(q, Q.NotInRange) else 0, i, lo, hi,
                    1 if q.start_exclusive else 0, 1 if q.end_exclusive else 0]
        if isinstance(q, Q.Comparator):
            v = q._value
            if isinstance(v, (list, tuple)):
                xs = [self.unconst(q.index, x) for x in v]
                i = self.unconst(q.index, v[0])[0] if v else \
                    [id(x) for x in self.idx].index(id(q.index))
                return ["cmp", NAME_OF_CLASS[name], i, "many", len(xs)] + [x[1] for x in xs]
            i, x = self.unconst(q.index, v)
            return ["cmp", NAME_OF_CLASS[name], i, "one", x]
        if isinstance(q, Q.Not):
            return ["not"] + self.tokens(q.query)
        if isinstance(q, Q.BoolOp):
            out = ["and" if isinstance(q, Q.And) else "or", len(q.queries)]
            for k in q.queries:
                out += self.tokens(k)
            return out
        raise TypeError("not a query: %r" % (q,))

    def snapshot(self, q):
        """deep structural snapshot including object identities of the nodes"""
        from hypatia import query as Q
        if isinstance(q, Q.BoolOp):
            return (type(q).__name__, id(q), id(q.queries), tuple(self.snapshot(k) for k in q.queries))
        if isinstance(q, Q.Not):
            return ("Not", id(q), self.snapshot(q.query))
        if isinstance(q, Q._Range):
            return (type(q).__name__, id(q), id(q.index), repr(q._start), repr(q._end), q.start_exclusive,
                    q.end_exclusive)
        return (type(q).__name__, id(q), id(q.index), repr(q._value), id(q._value))


def flat_tokens(t):
    """tokens of a generated (pre-construction) tree – only used for display"""
    if t[0] == "cmp":
        _, c, i, tag, v = t
        return ["cmp", c, i, tag] + ([len(v)] + list(v) if tag != "one" else [v])
    if t[0] == "range":
        return list(t)
    if t[0] == "not":
        return ["not"] + flat_tokens(t[1])
    out = [t[0], len(t[1])]
    for k in t[1]:
        out += flat_tokens(k)
    return out


def parse_tokens(toks):
    """inverse of Impl.tokens: prefix tokens -> generated-tree form"""
    def go(i):
        h = toks[i]
        if h == "cmp":
            c, ix, tag = toks[i + 1], toks[i + 2], toks[i + 3]
            if tag == "one":
                return ["cmp", c, ix, "one", toks[i + 4]], i + 5
            n = toks[i + 4]
            return ["cmp", c, ix, tag, list(toks[i + 5:i + 5 + n])], i + 5 + n
        if h == "range":
            return ["range"] + list(toks[i + 1:i + 7]), i + 7
        if h == "not":
            k, j = go(i + 1)
            return ["not", k], j
        n = toks[i + 1]
        j = i + 2
        kids = []
        for _ in range(n):
            k, j = go(j)
            kids.append(k)
        return [h, kids], j
    t, j = go(0)
    assert j == len(toks), (j, toks)
    return t


def run_ids(fn):
    try:
        rs = fn()
        ids = list(rs.ids) if hasattr(rs, "ids") else list(rs)
        return idset(ids)
    except Exception as e:
        return exc_name(e)


# ======================================================================================================
# exotic constants (implementation-vs-implementation stream of C05 `xopt` / C04 `xapply`)
#
# The Lean model's leaf constants are integers.  hypatia documents more: `hypatia.RangeValue` as the value of
# Eq / NotEq / Any / NotAny on a field index, floats, tuples as containers of Any/All values, late-bound
# `Name`s (also inside containers, also bound to a RangeValue or to a whole container).  For trees over such
# constants the check compares execute(optimize=True), execute(optimize=False) and `xsem`, an independent
# evaluation over the documents' values written here from the documentation of the comparators.
#
# value tokens: 7 | f2.5 | r2:4 rN:4 r2:N (RangeValue) | t2:4 (2-tuple, the legacy range form D13) |
#               l2.4.6 (list as Eq constant, the legacy any-of form D13) | n3=<token> (Name('x3') bound to <token>)
# container tags: one | many (list) | manyt (tuple) | manyn (Name bound to the whole list)
# ======================================================================================================
XFIELD_CMPS = ["eq", "eq", "noteq", "noteq", "gt", "ge", "lt", "le", "any", "notany", "inrange", "notinrange"]
XKW_CMPS = ["eq", "eq", "noteq", "any", "notany", "all"]


def xnum(s):
    return None if s == "N" else float(s) if "." in s else int(s)


def xparse_val(tok, names, conv, sfx=""):
    """token -> Python constant; `conv` maps a plain token to the index's value space (field: number,
    keyword: 'k<n>'); Names are registered in `names`"""
    from hypatia import RangeValue
    from hypatia.query import Name
    if isinstance(tok, int):
        return conv(tok)
    if tok[0] == "n":
        k, rest = tok[1:].split("=", 1)
        # the name carries its binding (one name = one value within a query; the same name may occur twice)
        # (and one value space: the suffix names the kind of index the constant is for)
        key = "x%s_%s%s" % (k, rest, sfx)
        names[key] = xparse_val(int(rest) if rest.lstrip("-").isdigit() else rest, names, conv)
        return Name(key)
    if tok[0] == "f":
        return float(tok[1:])
    if tok[0] == "r":
        lo, hi = tok[1:].split(":")
        return RangeValue(xnum(lo), xnum(hi))
    if tok[0] == "t":
        lo, hi = tok[1:].split(":")
        return (xnum(lo), xnum(hi))
    if tok[0] == "l":
        return [int(x) for x in tok[1:].split(".")]
    raise ValueError(tok)


def xresolve(tok):
    """the specification-side reading of a value token: ('v', number) | ('r', lo, hi) | ('l', [numbers])"""
    if isinstance(tok, int):
        return ("v", tok)
    if tok[0] == "n":
        rest = tok[1:].split("=", 1)[1]
        return xresolve(int(rest) if rest.lstrip("-").isdigit() else rest)
    if tok[0] == "f":
        return ("v", float(tok[1:]))
    if tok[0] in "rt":
        lo, hi = tok[1:].split(":")
        return ("r", xnum(lo), xnum(hi))
    if tok[0] == "l":
        return ("l", [int(x) for x in tok[1:].split(".")])
    raise ValueError(tok)


def xmatch(kind, docval, tok):
    """does a document value satisfy `== constant` (documented reading: a RangeValue / 2-tuple constant on a
    field index is a closed range with None = open end, a list constant is any-of)"""
    r = xresolve(tok)
    if kind != "field":
        # keyword values are the strings k<n> (Impl.value; K<n> under a case-normalising subclass)
        return r[0] == "v" and "k%d" % r[1] in [w.lower() for w in docval]
    if r[0] == "v":
        return docval == r[1]
    if r[0] == "r":
        return (r[1] is None or r[1] <= docval) and (r[2] is None or docval <= r[2])
    return docval in r[1]


def xbound(tok):
    r = xresolve(tok)
    assert r[0] == "v", tok
    return r[1]


def xsem(t, kinds, table):
    """independent evaluation of an exotic tree over the documents' values.  table[i] = {docid: value | None};
    a complement is taken within the documents known to the leaf's index, Not by De Morgan down to the leaves
    (what hypatia documents for negate())"""
    if t[0] == "not":
        return xsem(neg_tree(t[1]), kinds, table)
    if t[0] in ("and", "or"):
        sets = [xsem(k, kinds, table) for k in t[1]]
        out = set(sets[0])
        for s in sets[1:]:
            out = (out & s) if t[0] == "and" else (out | s)
        return out
    i = t[2]
    T = table.get(i, {})
    known = set(T)
    vals = {d: v for d, v in T.items() if v is not None}
    k = kinds[i]
    if t[0] == "range":
        _, neg, _, lo, hi, el, eh = t
        lo, hi = xbound(lo), xbound(hi)
        pos = {d for d, v in vals.items() if (v > lo if el else v >= lo) and (v < hi if eh else v <= hi)}
        return known - pos if neg else pos
    _, c, _, tag, v = t
    base = NEG_CMP[c] if c in ("noteq", "notany", "notall") else c
    if base == "eq":
        pos = {d for d, x in vals.items() if xmatch(k, x, v)}
    elif base == "any":
        pos = {d for d, x in vals.items() if any(xmatch(k, x, e) for e in v)}
    elif base == "all":
        pos = {d for d, x in vals.items() if all(xmatch(k, x, e) for e in v)}
    else:
        b = xbound(v)
        pos = {d for d, x in vals.items() if {"gt": x > b, "ge": x >= b, "lt": x < b, "le": x <= b}[base]}
    return known - pos if base != c else pos


def xflatten(op, kids):
    out = []
    for k in kids:
        out += k[1] if k[0] == op else [k]
    return out


def xconstruct(t):
    """the tree the And/Or constructors build (same-type operands are promoted)"""
    if t[0] in ("and", "or"):
        return [t[0], xflatten(t[0], [xconstruct(k) for k in t[1]])]
    if t[0] == "not":
        return ["not", xconstruct(t[1])]
    return t


def xnegate(t):
    """negate() of a constructed tree (And.negate builds Or(*negated) - flattening again)"""
    if t[0] in ("and", "or"):
        op = "or" if t[0] == "and" else "and"
        return [op, xflatten(op, [xnegate(k) for k in t[1]])]
    if t[0] == "not":
        return t[1]
    return neg_tree(t)


def xfolds(t, out):
    """the Eq / NotEq folds the optimiser performs on a constructed tree: (node op, comparator, index, leaves)"""
    if t[0] == "not":
        return xfolds(xnegate(t[1]), out)
    if t[0] in ("and", "or"):
        kids = t[1]
        for c in ("eq", "noteq"):
            if all(k[0] == "cmp" and k[1] == c and k[2] == kids[0][2] for k in kids):
                out.append((t[0], c, kids[0][2], kids))
                return out
        for k in kids:
            xfolds(k, out)
    return out


def xeffective(t, neg=False, out=None):
    """(comparator after negation pushing, index) of every leaf"""
    out = [] if out is None else out
    if t[0] == "cmp":
        out.append((NEG_CMP[t[1]] if neg else t[1], t[2]))
    elif t[0] == "range":
        out.append(("notinrange" if bool(t[1]) != neg else "inrange", t[2]))
    elif t[0] == "not":
        xeffective(t[1], not neg, out)
    else:
        for k in t[1]:
            xeffective(k, neg, out)
    return out


def xlegacy(tok):
    return not isinstance(tok, int) and xresolve(tok)[0] in ("l",) or \
        (not isinstance(tok, int) and tok.split("=")[-1][0] == "t")


def xhazards(t, kinds, has_none):
    """recorded findings an exotic tree would run into (the stream stays away from them): D3 All/NotAll folds
    on a field index, D2 effective NotAll, D5 lower+upper bounds on a field index with value-less documents;
    D23: a fold over a legacy tuple/list Eq constant"""
    hz = set()
    for op, c, i, leaves in xfolds(xconstruct(t), []):
        cls = {("or", "eq"): "any", ("and", "eq"): "all", ("and", "noteq"): "notany", ("or", "noteq"): "notall"}[(op, c)]
        if kinds[i] == "field" and cls in ("all", "notall"):
            hz.add("D3")
        if kinds[i] != "field" and cls == "notall":
            hz.add("D2")
        if kinds[i] == "field" and any(xlegacy(k[4]) for k in leaves):
            hz.add("D23")
    eff = xeffective(t)
    if any(c == "notall" for c, _ in eff):
        hz.add("D2")
    for i in set(i for _, i in eff):
        if has_none.get(i) and any(c in ("lt", "le") and j == i for c, j in eff) and \
                any(c in ("gt", "ge") and j == i for c, j in eff):
            hz.add("D5")
    return hz


def gen_xvalue(rng, kind, legacy=False):
    """one value token"""
    if kind != "field":
        x = rng.randrange(6)
        return "n%d=%d" % (rng.randrange(4), x) if rng.random() < 0.3 else x
    r = rng.random()
    if legacy:
        base = rng.choice(["t%d:%d" % (rng.randrange(5), rng.randrange(3, 10)),
                           "l" + ".".join(str(rng.randrange(10)) for _ in range(rng.choice([1, 3])))])
    elif r < 0.3:
        base = rng.randrange(10)
    elif r < 0.75:
        lo, hi = rng.randrange(10), rng.randrange(10)
        if rng.random() < 0.7 and lo > hi:
            lo, hi = hi, lo
        q = rng.random()
        base = "r%s:%s" % ("N" if q < 0.15 else lo, "N" if 0.15 <= q < 0.3 else hi)
    else:
        base = "f%s" % rng.choice(["2.0", "2.5", "0.5", "7.5", "4.0", "-1.5", "9.5"])
    if rng.random() < 0.25:
        return "n%d=%s" % (rng.randrange(4), base)
    return base


def gen_xbound(rng):
    r = rng.random()
    base = rng.randrange(10) if r < 0.4 else "f%s" % rng.choice(["2.0", "2.5", "0.5", "7.5", "4.0", "-1.5", "9.5"])
    return "n%d=%s" % (rng.randrange(4), base) if rng.random() < 0.25 else base


def gen_xleaf(rng, kinds, i=None, c=None, legacy=False):
    i = rng.randrange(len(kinds)) if i is None else i
    k = kinds[i]
    c = c or rng.choice(XFIELD_CMPS if k == "field" else XKW_CMPS)
    if c in ("inrange", "notinrange"):
        return ["range", 1 if c == "notinrange" else 0, i, gen_xbound(rng), gen_xbound(rng), rng.randrange(2),
                rng.randrange(2)]
    if c in ("gt", "ge", "lt", "le"):
        return ["cmp", c, i, "one", gen_xbound(rng)]
    if c in ("any", "notany", "all"):
        tag = rng.choice(["many", "many", "manyt", "manyn"])
        vals = [gen_xvalue(rng, k) for _ in range(rng.choice([1, 2, 2, 3]))]
        if tag == "manyn":
            # the whole container is late-bound: its elements are plain values (a bound value is not searched
            # for further Names)
            vals = [int(r) if isinstance(r, str) and r.lstrip("-").isdigit() else r
                    for r in (v.split("=", 1)[1] if isinstance(v, str) and v[0] == "n" else v for v in vals)]
        return ["cmp", c, i, tag, vals]
    return ["cmp", c, i, "one", gen_xvalue(rng, k, legacy)]


def gen_xtree(rng, kinds, depth=2, legacy=False):
    """biased to what the optimiser rewrites: all-Eq / all-NotEq operand lists on one index (or on two indexes
    of the same kind), Gt/Ge with Lt/Le pairs, Not above them"""
    r = rng.random()
    if depth <= 0 or r < 0.12:
        return gen_xleaf(rng, kinds, legacy=legacy)
    if r < 0.55:
        i = rng.randrange(len(kinds))
        same = [j for j, k in enumerate(kinds) if k == kinds[i]]
        c = rng.choice(["eq", "eq", "noteq"])
        mixed = len(same) > 1 and rng.random() < 0.3
        kids = [gen_xleaf(rng, kinds, rng.choice(same) if mixed else i, c, legacy and n == 0)
                for n in range(rng.choice([1, 2, 2, 3, 4]))]
        t = ["or" if c == "eq" or rng.random() < 0.2 else "and", kids] if kinds[i] == "field" else \
            [rng.choice(["and", "or"]), kids]
        if rng.random() < 0.3:
            t = ["not", neg_tree(t)] if rng.random() < 0.6 else ["not", t]
        if rng.random() < 0.2:
            t = [rng.choice(["and", "or"]), [t, gen_xtree(rng, kinds, depth - 1)]]
        return t
    if r < 0.7 and "field" in kinds:
        i = rng.choice([j for j, k in enumerate(kinds) if k == "field"])
        kids = [gen_xleaf(rng, kinds, i, rng.choice(["gt", "ge", "lt", "le"])) for _ in range(rng.choice([2, 2, 3]))]
        if rng.random() < 0.3:
            kids.insert(rng.randrange(len(kids) + 1), gen_xleaf(rng, kinds))
        return [rng.choice(["and", "and", "or"]), kids]
    if r < 0.8:
        return ["not", gen_xtree(rng, kinds, depth - 1)]
    return [rng.choice(["and", "or"]), [gen_xtree(rng, kinds, depth - 1) for _ in range(rng.choice([2, 2, 3]))]]


def xfeatures(t):
    toks = [str(x) for x in flat_tokens(t)]
    f = set()
    for x in toks:
        if "=" in x and x[0] == "n":
            f.add("name")
            x = x.split("=", 1)[1]
        if x[0] == "r" and ":" in x:
            f.add("rangevalue")
        elif x[0] == "f" and x[1:2].isdigit() or x[:2] == "f-":
            f.add("float")
        elif x[0] in "tl" and x[1:2].isdigit():
            f.add("legacy-tuple/list")
        elif x in ("manyt", "manyn"):
            f.add("container-" + ("tuple" if x == "manyt" else "name"))
    return sorted(f)
