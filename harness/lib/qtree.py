"""Query trees over a real catalog: generator, builder, serialiser (shared by C04, C05, C18)."""
from lib.core import exc_name, idset

FIELD_CMPS = ["eq", "noteq", "gt", "ge", "lt", "le", "any", "notany", "inrange", "notinrange"]
KW_CMPS = ["eq", "noteq", "any", "notany", "all", "notall"]
TEXT_CMPS = ["contains", "notcontains", "eq", "noteq"]
ALL_CMPS = ["eq", "noteq", "gt", "ge", "lt", "le", "any", "notany", "all", "notall", "contains", "notcontains"]
WORDS = ["apple", "berry", "cherry", "date", "elder", "fig", "grape", "hazel"]
CLASSNAME = {"eq": "Eq", "noteq": "NotEq", "gt": "Gt", "ge": "Ge", "lt": "Lt", "le": "Le", "any": "Any",
             "notany": "NotAny", "all": "All", "notall": "NotAll", "contains": "Contains",
             "notcontains": "NotContains"}
NAME_OF_CLASS = {v: k for k, v in CLASSNAME.items()}

# --- model-backed facet and text indexes (`e2e` catalogs: C04's `applye2e` composes the C13 / C03 index models) ---
# configured facets; the dictionary of leaf values (two names are not configured); the dictionary of document
# values (the last two paths match no configured facet: such a document is not known to the index)
FACETS = ["k0", "k0:a", "k0:a:b", "k1", "k1:a", "k2"]
FACET_NAMES = FACETS + ["k3", "k1:b"]
FACET_PATHS = ["k0", "k0:a", "k0:a:b", "k0:c", "k1:a:x", "k1", "k2:z", "k3", "q:k0"]
FACET_MATCHED = 7
SEGMENTS = {"k0": 0, "k1": 1, "k2": 2, "k3": 3, "a": 10, "b": 11, "c": 12, "x": 13, "z": 14, "q": 15}
# the dictionary of text leaf values: query STRINGS of the text query language (the first len(WORDS) are the
# single words); every one is accepted by the parser
QUERIES = WORDS + ['"apple berry"', "cherry AND NOT date", "(fig OR grape) AND elder", "ha*", "berry cherry",
                   "apple -berry", 'Date OR "elder fig"', "gr?pe or hazel", "the apple", "fig AND cherry",
                   '"cherry date elder"', "(apple OR berry) AND NOT (cherry OR date)"]
NVALS = {"field": 10, "keyword": 6, "facet": 6, "text": len(WORDS)}
NVALS_E2E = {"field": 10, "keyword": 6, "facet": len(FACET_NAMES), "text": len(QUERIES)}
NDOCVALS_E2E = {"keyword": 6, "facet": len(FACET_PATHS), "text": len(WORDS)}


def facet_tok(f):
    return ".".join(str(SEGMENTS[s]) for s in f.split(":"))


def enc(s):
    return "u" + ".".join("%x" % ord(c) for c in s)


_TEXT_CFG = None


def text_cfg():
    """lexicon configuration lines of the default TextIndex lexicon (Splitter, CaseNormalizer, StopWordRemover)
    for the alphabet of WORDS/QUERIES, computed from CPython like the `text` session's"""
    global _TEXT_CFG
    if _TEXT_CFG is None:
        import re
        import sys
        from props import c15
        chars = sorted(set("".join(WORDS + QUERIES)) | set("".join(WORDS + QUERIES).upper())
                       | set("".join(WORDS + QUERIES).lower()))
        spaces = [c for c in range(sys.maxunicode + 1) if re.match(r"\s", chr(c))]
        _TEXT_CFG = c15.table_cfg(chars) + [["cfg", "stop"] + [enc(w) for w in c15.stops()],
                                            ["cfg", "pipeline", "splitter", "case", "stop"],
                                            ["cfg", "space"] + ["%x" % c for c in spaces]]
    return [list(c) for c in _TEXT_CFG]


def doc_values(rng, k, total, e2e):
    """the value tokens of one `doc` line for an index of kind k"""
    if k == "field":
        return [rng.randrange(10)]
    if k == "text":
        n = rng.randrange(1, 5) if total else rng.randrange(0, 5)
        return [rng.randrange(len(WORDS)) for _ in range(n)]
    if k == "facet" and e2e:
        hi = FACET_MATCHED if total or rng.random() < 0.8 else len(FACET_PATHS)
        return sorted(set(rng.randrange(hi) for _ in range(rng.randrange(1, 4))))
    return sorted(set(rng.randrange(6) for _ in range(rng.randrange(1, 4))))


class Doc(object):
    pass


def gen_catalog(rng, total, kinds=None, e2e=False):
    """cfg + doc lines.  total=True: every document has a (non-empty) value in every index.
    e2e=True: facet and text indexes are model-backed in the driver (hierarchical facets, query strings)."""
    nidx = rng.randrange(1, 5)
    if kinds is None:
        kinds = [rng.choice(["field", "field", "keyword", "facet", "text"]) for _ in range(nidx)]
    cfg = [["cfg", "family", 64]]
    if e2e:
        cfg.append(["cfg", "e2e", 1])
        if "text" in kinds:
            cfg += text_cfg()
    for k in kinds:
        if e2e and k == "facet":
            cfg += [["cfg", "index", "facet"], ["cfg", "dict", "facets"] + [facet_tok(f) for f in FACETS],
                    ["cfg", "dict", "names"] + [facet_tok(f) for f in FACET_NAMES],
                    ["cfg", "dict", "paths"] + [facet_tok(f) for f in FACET_PATHS]]
        elif e2e and k == "text":
            cfg += [["cfg", "index", "textm"], ["cfg", "dict", "words"] + [enc(w) for w in WORDS],
                    ["cfg", "dict", "queries"] + [enc(q) for q in QUERIES]]
        else:
            cfg.append(["cfg", "index", "keyword" if k == "facet" else k])
    ndocs = rng.choice([0, 1, 2, 3, 5, 8, 12, 25])
    docs = []
    ids = rng.sample(range(40), ndocs)
    for d in ids:
        for i, k in enumerate(kinds):
            if not total and rng.random() < 0.2:
                if rng.random() < 0.5:
                    docs.append(["doc", i, d, "none"])
                continue        # else: not known to this index at all
            docs.append(["doc", i, d] + doc_values(rng, k, total, e2e))
    return kinds, cfg, docs


def gen_leaf(rng, kinds, admissible_p=0.93, e2e=False):
    i = rng.randrange(len(kinds))
    k = kinds[i]
    pool = {"field": FIELD_CMPS, "keyword": KW_CMPS, "facet": KW_CMPS, "text": TEXT_CMPS}[k]
    c = rng.choice(pool) if rng.random() < admissible_p else rng.choice(ALL_CMPS + ["inrange"])
    nvals = (NVALS_E2E if e2e else NVALS)[k]
    if c in ("inrange", "notinrange"):
        return ["range", 1 if c == "notinrange" else 0, i, rng.randrange(nvals), rng.randrange(nvals),
                rng.randrange(2), rng.randrange(2)]
    if c in ("any", "notany", "all", "notall"):
        n = rng.choice([0, 1, 2, 2, 3])
        return ["cmp", c, i, "many", [rng.randrange(nvals) for _ in range(n)]]
    return ["cmp", c, i, "one", rng.randrange(nvals)]


def gen_tree(rng, kinds, depth, range_bias=0.0, allow_not=True, e2e=False):
    r = rng.random()
    if depth <= 0 or r < 0.3:
        if rng.random() < range_bias:
            fi = [i for i, k in enumerate(kinds) if k == "field"]
            if fi:
                return ["cmp", rng.choice(["gt", "ge", "lt", "le"]), rng.choice(fi), "one", rng.randrange(10)]
        return gen_leaf(rng, kinds, e2e=e2e)
    if allow_not and r < 0.42:
        return ["not", gen_tree(rng, kinds, depth - 1, range_bias, allow_not, e2e)]
    op = "and" if r < 0.72 else "or"
    n = rng.choice([1, 2, 2, 2, 3, 3, 4])
    kids = [gen_tree(rng, kinds, depth - 1, range_bias, allow_not, e2e) for _ in range(n)]
    if rng.random() < 0.15 and kids:
        kids.append(kids[0])          # repeated operand
    return [op, kids]


class Impl(object):
    """a real catalog with real indexes, filled from the doc lines"""

    def __init__(self, hyp, cfg, kinds=None):
        import BTrees
        from hypatia.catalog import Catalog
        from hypatia.field import FieldIndex
        from hypatia.keyword import KeywordIndex
        from hypatia.facet import FacetIndex
        from hypatia.text import TextIndex
        fam = BTrees.family64
        for c in cfg:
            if c[1] == "family" and c[2] == 32:
                fam = BTrees.family32
        self.family = fam
        self.e2e = any(c[1] == "e2e" for c in cfg)
        self.kinds = kinds or [c[2] for c in cfg if c[1] == "index"]
        self.cat = Catalog(family=fam)
        self.idx = []
        for i, k in enumerate(self.kinds):
            attr = "a%d" % i
            if k == "field":
                ix = FieldIndex(attr, family=fam)
            elif k == "keyword":
                ix = KeywordIndex(attr, family=fam)
            elif k == "facet":
                ix = FacetIndex(attr, facets=list(FACETS) if self.e2e else ["k%d" % j for j in range(6)],
                                family=fam)
            else:
                ix = TextIndex(attr, family=fam)
            self.cat["i%d" % i] = ix
            self.idx.append(ix)

    def value(self, i, toks):
        k = self.kinds[i]
        if toks == ["none"]:
            return None
        if k == "field":
            return toks[0]
        if k == "text":
            return " ".join(WORDS[t] for t in toks)
        if k == "facet" and self.e2e:
            return [FACET_PATHS[t] for t in toks]
        return ["k%d" % t for t in toks]

    def doc(self, c):
        i, d = c[1], c[2]
        o = Doc()
        v = self.value(i, list(c[3:]))
        if v is not None:
            setattr(o, "a%d" % i, v)
        self.idx[i].index_doc(d, o)

    def const(self, i, x):
        k = self.kinds[i]
        if k == "field":
            return x
        if k == "text":
            return QUERIES[x] if self.e2e else WORDS[x]
        if k == "facet" and self.e2e:
            return FACET_NAMES[x]
        return "k%d" % x

    def build(self, t):
        from hypatia import query as Q
        if t[0] == "cmp":
            _, c, i, tag, v = t
            val = self.const(i, v) if tag == "one" else [self.const(i, x) for x in v]
            return getattr(Q, CLASSNAME[c])(self.idx[i], val)
        if t[0] == "range":
            _, neg, i, lo, hi, el, eh = t
            cls = Q.NotInRange if neg else Q.InRange
            return cls(self.idx[i], self.const(i, lo), self.const(i, hi), bool(el), bool(eh))
        if t[0] == "not":
            return Q.Not(self.build(t[1]))
        cls = Q.And if t[0] == "and" else Q.Or
        return cls(*[self.build(k) for k in t[1]])

    def unconst(self, ix, v):
        i = self.idx.index(ix) if ix in self.idx else [id(x) for x in self.idx].index(id(ix))
        k = self.kinds[i]
        if k == "field":
            return i, v
        if k == "text":
            return i, (QUERIES if self.e2e else WORDS).index(v)
        if k == "facet" and self.e2e:
            return i, FACET_NAMES.index(v)
        return i, int(v[1:])

    def tokens(self, q):
        """serialise a real query object (as constructed / as optimised) to the driver's prefix form"""
        from hypatia import query as Q
        name = type(q).__name__
        if isinstance(q, (Q.InRange, Q.NotInRange)):
            i, lo = self.unconst(q.index, q._start)
            _, hi = self.unconst(q.index, q._end)
            return ["range", 1 if isinstance(q, Q.NotInRange) else 0, i, lo, hi,
                    1 if q.start_exclusive else 0, 1 if q.end_exclusive else 0]
        if isinstance(q, Q.Comparator):
            v = q._value
            if isinstance(v, (list, tuple)):
                xs = [self.unconst(q.index, x) for x in v]
                i = self.unconst(q.index, v[0])[0] if v else \
                    [id(x) for x in self.idx].index(id(q.index))
                return ["cmp", NAME_OF_CLASS[name], i, "many", len(xs)] + [x[1] for x in xs]
            i, x = self.unconst(q.index, v)
            return ["cmp", NAME_OF_CLASS[name], i, "one", x]
        if isinstance(q, Q.Not):
            return ["not"] + self.tokens(q.query)
        if isinstance(q, Q.BoolOp):
            out = ["and" if isinstance(q, Q.And) else "or", len(q.queries)]
            for k in q.queries:
                out += self.tokens(k)
            return out
        raise TypeError("not a query: %r" % (q,))

    def snapshot(self, q):
        """deep structural snapshot including object identities of the nodes"""
        from hypatia import query as Q
        if isinstance(q, Q.BoolOp):
            return (type(q).__name__, id(q), id(q.queries), tuple(self.snapshot(k) for k in q.queries))
        if isinstance(q, Q.Not):
            return ("Not", id(q), self.snapshot(q.query))
        if isinstance(q, Q._Range):
            return (type(q).__name__, id(q), id(q.index), repr(q._start), repr(q._end), q.start_exclusive,
                    q.end_exclusive)
        return (type(q).__name__, id(q), id(q.index), repr(q._value), id(q._value))


def flat_tokens(t):
    """tokens of a generated (pre-construction) tree – only used for display"""
    if t[0] == "cmp":
        _, c, i, tag, v = t
        return ["cmp", c, i, tag] + ([len(v)] + list(v) if tag == "many" else [v])
    if t[0] == "range":
        return list(t)
    if t[0] == "not":
        return ["not"] + flat_tokens(t[1])
    out = [t[0], len(t[1])]
    for k in t[1]:
        out += flat_tokens(k)
    return out


def parse_tokens(toks):
    """inverse of Impl.tokens: prefix tokens -> generated-tree form"""
    def go(i):
        h = toks[i]
        if h == "cmp":
            c, ix, tag = toks[i + 1], toks[i + 2], toks[i + 3]
            if tag == "one":
                return ["cmp", c, ix, "one", toks[i + 4]], i + 5
            n = toks[i + 4]
            return ["cmp", c, ix, "many", list(toks[i + 5:i + 5 + n])], i + 5 + n
        if h == "range":
            return ["range"] + list(toks[i + 1:i + 7]), i + 7
        if h == "not":
            k, j = go(i + 1)
            return ["not", k], j
        n = toks[i + 1]
        j = i + 2
        kids = []
        for _ in range(n):
            k, j = go(j)
            kids.append(k)
        return [h, kids], j
    t, j = go(0)
    assert j == len(toks), (j, toks)
    return t


def run_ids(fn):
    try:
        rs = fn()
        ids = list(rs.ids) if hasattr(rs, "ids") else list(rs)
        return idset(ids)
    except Exception as e:
        return exc_name(e)
