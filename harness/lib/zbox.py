"""ZODB-backed streams for the in-memory index checks.

A share of the generated cases of C01/C02/C03/C06/C08/C13 keep the real index inside a ZODB connection
(DemoStorage, own transaction manager) and sprinkle `txn commit`, `txn commit evict` and `txn abort` commands
over the history.  For the model these are handled by the driver's main loop: a commit (and a cache
eviction) is invisible, an abort continues from the state saved at the last commit - every session state is
a pure value.  Purpose: slips that exist only at transaction boundaries (a volatile `_v_` cache that
survives an abort, an in-place change of a plain container that is never re-assigned, a counter
invalidated instead of deactivated) are invisible to purely in-memory histories; C09 is the property about
persistence, but such a slip also breaks the in-memory property's statement "after any history".
"""
import copy


def disc_x(obj, default):
    """callable discriminator `x` - a module-level function, so that an index using it can be pickled"""
    return getattr(obj, "x", default)


class ZBox(object):
    def __init__(self, objects):
        """objects: dict name -> persistent object to store under the connection's root"""
        import transaction
        from ZODB import DB
        from ZODB.DemoStorage import DemoStorage
        self.tm = transaction.TransactionManager()
        self.db = DB(DemoStorage())
        self.conn = self.db.open(self.tm)
        root = self.conn.root()
        for k, v in objects.items():
            root[k] = v
        self.tm.commit()
        self.saved = None

    def txn(self, c, holder=None, attrs=()):
        """c = ['txn', 'commit'] | ['txn', 'commit', 'evict'] | ['txn', 'abort'];
        holder/attrs: harness-side bookkeeping (plain Python values) that must follow the transaction"""
        if c[1] == "commit":
            self.tm.commit()
            if c[2:] == ["evict"]:
                self.conn.cacheMinimize()
            if holder is not None:
                self.saved = {a: copy.deepcopy(getattr(holder, a)) for a in attrs if hasattr(holder, a)}
        elif c[1] == "abort":
            self.tm.abort()
            if holder is not None and self.saved is not None:
                for a, v in self.saved.items():
                    setattr(holder, a, copy.deepcopy(v))
        else:
            raise ValueError(c)
        return "ok"

    def close(self):
        try:
            self.tm.abort()
            self.conn.close()
            self.db.close()
        except Exception:
            pass


def is_zodb(case):
    return any(c[1] == "zodb" for c in case.get("cfg", []))


def sprinkle(rng, case, share=0.15, barrier=None, aborts=True):
    """with probability `share` turn `case` into a ZODB-backed one: cfg zodb, a first `txn commit`, then
    commits / evictions / aborts between the commands.  barrier(cmd) -> True for commands after which no
    transaction command may be inserted (rarely needed)."""
    if rng.random() >= share:
        return case
    out = [["txn", "commit"]]
    for c in case["cmds"]:
        out.append(c)
        if barrier is not None and barrier(c):
            continue
        r = rng.random()
        if r < 0.10:
            out.append(["txn", "commit"])
        elif r < 0.15:
            out.append(["txn", "commit", "evict"])
        elif r < 0.23 and aborts:
            out.append(["txn", "abort"])
    case = dict(case, cmds=out, cfg=list(case.get("cfg", [])) + [["cfg", "zodb", 1]])
    return case
