#!/venv/bin/python
"""Record the structural fingerprints of the anchored source of every property for the tree the
checks are registered on (see lib/fingerprint.py).  Run after every commit to /repo."""
import json
import os
import sys

HERE = os.path.dirname(os.path.abspath(__file__))
sys.path.insert(0, HERE)
from lib import fingerprint as fp  # noqa: E402

REPO = os.environ.get("VERIF_REPO", "/repo")
out = {}
for line in open(os.path.join(os.path.dirname(HERE), "properties.jsonl")):
    if line.strip():
        pid = json.loads(line)["id"]
        out[pid] = fp.snapshot(REPO, fp.anchored_files(pid))
out["ALL"] = fp.snapshot(REPO, fp.all_sources(REPO))
with open(fp.FILE, "w") as f:
    json.dump(out, f, indent=0, sort_keys=True)
    f.write("\n")
print("fingerprints.json: %d properties, %d files" % (len(out), sum(len(v) for v in out.values())))
