#!/venv/bin/python
"""Regenerate /verif/MANIFEST.json from the property modules under harness/props."""
import importlib
import json
import os
import sys

HERE = os.path.dirname(os.path.abspath(__file__))
sys.path.insert(0, HERE)
VERIF = os.path.dirname(HERE)
ALL = ["C%02d" % i for i in range(1, 21)]
PENDING_REASON = ("not claimed yet: model, theorems and correspondence check for this property are still being "
                  "built (see DESIGN.md section 7); proof in Lean 4 applies to it")


def main():
    checks, na = [], []
    for pid in ALL:
        path = os.path.join(HERE, "props", pid.lower() + ".py")
        if not os.path.exists(path):
            na.append({"property_id": pid, "reason": PENDING_REASON})
            continue
        m = importlib.import_module("props." + pid.lower())
        if getattr(m, "NOT_APPLICABLE", None):
            na.append({"property_id": pid, "reason": m.NOT_APPLICABLE})
            continue
        checks.append({
            "property_id": pid,
            "quick_cmd": "/venv/bin/python harness/check.py %s --tier quick" % pid,
            "thorough_cmd": "/venv/bin/python harness/check.py %s --tier thorough" % pid,
            "evidence_file": "/verif/evidence/%s.json" % pid,
            "replay_cmd_template": "/venv/bin/python harness/check.py %s --replay {path}" % pid,
            "engine": "lean4-model+correspondence",
            "level_claimed": {
                "category": "proof",
                "text": m.LEVEL_TEXT,
                "design_ref": "DESIGN.md section 7, " + pid,
            },
            "level_note": m.LEVEL_NOTE,
            "technique": m.TECHNIQUE,
        })
    man = {
        "version": 1,
        "setup_cmd": "cd lean && lake build",
        "hooks": {
            "guard": "HYPATIA_VERIF",
            "enable": "no hooks: every check observes the public API of a scratch copy of /repo/hypatia's "
                      "working tree; HYPATIA_VERIF is reserved and currently read nowhere",
            "baseline_off_cmd": "cd /repo && /venv/bin/python -m pytest -ra -q -p no:cacheprovider --timeout=900 "
                                "--continue-on-collection-errors",
            "source_commits": [],
            "add_only": True,
        },
        "engines": [{
            "name": "lean4-model+correspondence",
            "path": "lean/ (HypatiaModel, HypatiaProofs, Driver -> hmodel) and harness/",
            "serves_properties": [c["property_id"] for c in checks],
            "kind_free_text": "hand-written Lean 4 model with machine-checked property theorems (no sorry, no "
                              "added axioms, no native_decide); tied to /repo on every run by a differential "
                              "correspondence check of the compiled model against the real classes",
        }],
        "checks": checks,
        "not_applicable": na,
        "notes": "exit 2 = infrastructure error (no verdict). Known findings: known_findings.json. "
                 "VERIF_SEED seeds every generator; VERIF_JOBS limits worker processes (default 16).",
    }
    with open(os.path.join(VERIF, "MANIFEST.json"), "w") as f:
        json.dump(man, f, indent=1)
        f.write("\n")
    try:
        import jsonschema
        schema = json.load(open("/root/.vp/MANIFEST.schema.json"))
        jsonschema.validate(man, schema)
        print("MANIFEST.json valid: %d checks, %d not claimed" % (len(checks), len(na)))
    except ImportError:
        print("MANIFEST.json written (jsonschema not available here): %d checks" % len(checks))


if __name__ == "__main__":
    main()
