"""C01  Field index answers every comparison query exactly, after any history.

Generator modes (measured, quick tier, seed 0, 4000 cases): small 78%, bulk-hot 17%, bulk-wide 4%; the largest
posting reached 65-120 docids in 11%, 121-300 in 6%, > 300 in 0.2% of the cases; > 30 distinct values in 4%;
> 120 documents without a value in 2%; value kinds int 24%, num (int/float/bool mixed) 20%, str 20%, tuple 10%,
bytes 10%, wide 10%, widestr 6%.

Size- / value- / entry-point-dependent mutations tried on scratch copies (VERIF_REPO=/var/tmp/mut_strong1_<N>,
deleted afterwards), all VIOLATION with a shrunk replay, quick tier, seed 0:
  M1  applyInRange ignores excludemin/excludemax when the forward BTree has more than 32 keys (needs bulk-wide)
  M2  index_doc takes a falsy value ('' / () / b'') as "no value"
  M6  BaseIndexMixin.docids drops not_indexed once more than 150 documents are indexed (needs bulk)
  M8  search() turns a float constant q into the range (int(q), q)
  M9  reindex_doc returns early for an id that is not indexed yet
  M11 apply({'query': [..]}) defaults to operator 'and'
  M12 docids() cached on (indexed_count, not_indexed_count)
and the seeded changes C01_C (range fast path ignoring exclusive bounds) and C01_F (postings start as Set, promoted to
TreeSet at 64 docids, the 65th docid is lost).
"""
from lib import zbox
from lib.core import exc_name, idset

ID = "C01"
AUDIT_IMPORTS = ["HypatiaProofs.Properties.C01"]
THEOREMS = ["Hyp.Field." + t for t in (
    "c01_refinement", "c01_inrange", "c01_eq", "c01_any", "c01_gt", "c01_ge", "c01_lt", "c01_le",
    "c01_docids", "c01_noteq", "c01_notany", "c01_notinrange", "c01_inverted_range_empty", "c01_any_nil",
    "c01_no_stale", "c01_eq_tuple_is_range")]
CASES = {"quick": 4000, "thorough": 40000}
BUDGET_S = {"quick": 34, "thorough": 660}
RULE = ("small mode (78%): histories of 5-60 (thorough: up to 400) index_doc/reindex_doc/unindex_doc/reset calls "
        "over docids 0..15 plus extreme ids, 3-8 values, 17% no-value, 8% identical content again, 10% unindex "
        "(half unknown ids, sometimes twice), 3% reset; bulk-hot mode (17%): 70-400 documents (dense or strided "
        "docid runs anywhere in the family's range, ascending/descending/shuffled) share 1-4 values so that one "
        "posting holds 65-400 docids, in 12% of them also 121-199 documents without a value, in 45% a drain that "
        "takes the big posting back to 58-66 docids (or to nothing) by unindex / withdrawal / re-valuing, then a "
        "small history on first/last/random bulk ids and fresh ids; bulk-wide mode (4%): 70-400 documents over "
        "35-110 distinct values (forward BTree beyond one bucket). Value pools, ranked order-preservingly to Int "
        "for the model: int, str (incl. ''), num (ints, floats and bools mixed: 0 == 0.0 == -0.0 == False, 1 == 1.0 "
        "== True, 2**53 == float(2**53) are ONE value whose spellings take turns; -2**70 .. 2**70, +-inf), tuples "
        "of numbers (Eq with a tuple constant = finding D13), bytes (incl. b''), 120 ints / 120 strings. After "
        "each op with prob. 1/4 and at the end all ten comparisons via index.applyX and via "
        "index.X(..).execute() with constants present/absent/neighbouring/below/above, inverted ranges, empty and "
        "duplicate any-lists; FieldIndex.apply() itself with {'query': v}, {'query': [..], 'operator': "
        "'or'/'and'/absent}, bare value, list, RangeValue (bare and in a dict); the enumeration tuple (indexed, "
        "not_indexed, docids, counts, unique_values; sometimes twice in a row) and document_repr; both BTrees "
        "families; attribute and callable discriminators. non-trivial = the answers contain at least one "
        "non-empty and three different id sets")
LEVEL_TEXT = ("Lean 4 refinement proof: for every history the model of FieldIndex represents the history's "
              "document table (invariant by induction over operations), and every comparison / negation "
              "returns exactly the ids whose current value satisfies it, for all constants and any linearly "
              "ordered value type; the model is tied to hypatia/field by a differential run of the real "
              "FieldIndex against the compiled model and against the specification's answer")
LEVEL_NOTE = ("trusted: Lean kernel (propext, Quot.sound, Classical.choice), BTrees semantics as modelled "
              "(values(min,max,excl) = filter by key, multiunion/union/difference = set algebra), sampled "
              "correspondence, the harness; values are ranked to Int for the driver (order-preserving)")
TECHNIQUE = "Lean 4 refinement invariant by induction over operation histories + differential correspondence"

INT_POOL = [-100, -1, 0, 1, 2, 3, 5, 8, 13, 21, 100, 2 ** 40]
STR_POOL = ["", "A", "Z", "a", "ab", "abc", "b", "ba", "c", "z", "é", "中"]


class Alt(tuple):
    """several Python objects that are one value (equal under ==, same hash): one rank for the model"""


# value pools: ascending, mutually orderable; the rank (position) is what the model sees.
#   num    ints and floats mixed: equal numbers of different types (0 == 0.0 == -0.0 == False, 1 == 1.0 == True,
#          2**53 == float(2**53)), negative, huge (beyond 64 bit), non-integral neighbours, +-inf
#   tuple  tuples of numbers (prefix order, equal tuples of different element types, 2-tuples = the legacy
#          range form D13 when used as an Eq constant)
#   bytes  byte strings incl. the empty one and NUL
#   wide / widestr   120 values: the forward BTree gets more keys than one bucket holds (30)
NUM_POOL = [float("-inf"), -2 ** 70, -1e10, -100, -1.5, -1, -0.5, Alt((0, 0.0, -0.0, False)), 0.5,
            Alt((1, 1.0, True)), 1.5, Alt((2, 2.0)), 3, 2 ** 40, 2 ** 40 + 0.5, Alt((2 ** 53, float(2 ** 53))),
            2 ** 53 + 1, 2 ** 70, 1e30, float("inf")]
TUPLE_POOL = [(), (-1,), (0,), (0, 0), (0, 0, 0), (0, 1), (0, 1.5), Alt(((1,), (1.0,), (True,))),
              Alt(((1, 0), (1.0, 0), (1, 0.0))), (1, 0, "a"), (1, 0, "b"), (1, 1), (1, 2, 3), (2 ** 40,)]
BYTES_POOL = [b"", b"\x00", b"A", b"a", b"a\x00", b"ab", b"b", b"\xff"]
WIDE_POOL = [7 * i - 400 for i in range(120)]
WIDESTR_POOL = ["k%03d" % i for i in range(120)]
POOLS = {k: [e if isinstance(e, Alt) else Alt((e,)) for e in v] for k, v in (
    ("int", INT_POOL), ("str", STR_POOL), ("num", NUM_POOL), ("tuple", TUPLE_POOL), ("bytes", BYTES_POOL),
    ("wide", WIDE_POOL), ("widestr", WIDESTR_POOL))}
VTYPES = ["int"] * 5 + ["str"] * 4 + ["num"] * 4 + ["tuple"] * 2 + ["bytes"] * 2 + ["wide"] * 2 + ["widestr"]
IDS64 = list(range(16)) + [2 ** 31 - 1, -2 ** 31, 2 ** 62, -2 ** 62]
IDS32 = list(range(16)) + [2 ** 31 - 1, -2 ** 31]
OPS = ["eq", "noteq", "gt", "ge", "lt", "le", "any", "notany", "inrange", "notinrange"]


def pool_of(vtype):
    return POOLS[vtype or "int"]


def rank_table(vtype):
    """repr of every pool object -> rank"""
    return {repr(a): r for r, alts in enumerate(pool_of(vtype)) for a in alts}


class Doc(object):
    pass


def gen_query(rng, used, npool=len(INT_POOL)):
    op = rng.choice(OPS)
    n = npool

    def const():
        if used and rng.random() < 0.6:
            return rng.choice(used)
        if used and rng.random() < 0.5:            # a neighbour of a used value (absent / between, on wide pools too)
            return min(n - 1, max(0, rng.choice(used) + rng.choice([-1, 1])))
        return rng.randrange(n)
    if op in ("any", "notany"):
        k = rng.choice([0, 1, 1, 2, 3, 4])
        cs = [const() for _ in range(k)]
        if cs and rng.random() < 0.2:
            cs.append(cs[0])
        return [op] + cs
    if op in ("inrange", "notinrange"):
        lo = "none" if rng.random() < 0.15 else const()
        hi = "none" if rng.random() < 0.15 else const()
        # an exclusive flag on an open (None) bound is outside the property ("open or exclusive"):
        # BTrees then drops the extreme key; the model's values(min,max,excl) = filter assumes a bound
        return [op, lo, hi, 0 if lo == "none" else rng.randrange(2), 0 if hi == "none" else rng.randrange(2)]
    return [op, const()]


def gen_apply(rng, used, npool):
    """FieldIndex.apply() called directly: dict forms, bare values, lists, RangeValue"""
    def const():
        return rng.choice(used) if used and rng.random() < 0.7 else rng.randrange(npool)
    r = rng.random()
    if r < 0.3:
        return ["qa", rng.choice(["d", "b"]), "eq", const()]
    if r < 0.6:
        return ["qa", rng.choice(["d", "dd", "b"]), "any"] + [const() for _ in range(rng.choice([0, 1, 2, 3]))]
    if r < 0.75:
        cs = [const() for _ in range(rng.choice([0, 1, 2, 2, 3]))]
        if cs and rng.random() < 0.5:
            cs = [cs[0]] * len(cs)
        return ["qa", "d", "and"] + cs
    return ["qa", rng.choice(["d", "b"]), "range", "none" if rng.random() < 0.2 else const(),
            "none" if rng.random() < 0.2 else const()]


def gen_queries(rng, used, npool, cmds, k):
    for _ in range(k):
        if rng.random() < 0.12:
            cmds.append(gen_apply(rng, used, npool))
        else:
            cmds.append([rng.choice(["q", "qx"])] + gen_query(rng, used, npool))


def battery(rng, used, npool, cmds):
    for op in OPS:
        q = gen_query(rng, used, npool)
        while q[0] != op:
            q = gen_query(rng, used, npool)
        cmds.append(["q"] + q)
        cmds.append(["qx"] + q)
    cmds.append(gen_apply(rng, used, npool))
    cmds.append(["obs"])


def small_ops(rng, ids, used, npool, cmds, cur, nops, pq=0.25):
    """ordinary history: index / reindex / same content again / no value / unindex (known, unknown) / reset, with
    queries, the enumeration tuple (sometimes twice in a row: results must not be cached) and document_repr"""
    for _ in range(nops):
        r = rng.random()
        d = rng.choice(ids)
        if cur and rng.random() < 0.3:
            d = rng.choice(sorted(cur))
        verb = "reindex" if rng.random() < 0.25 else "index"
        if r < 0.03:
            cmds.append(["reset"])
            cur.clear()
        elif r < 0.13:
            d = d if rng.random() < 0.5 else rng.choice(ids)
            cmds.append(["unindex", d])
            cur.pop(d, None)
            if rng.random() < 0.15:
                cmds.append(["unindex", d])                       # a second time: now unknown
        elif r < 0.30:
            cmds.append([verb, d, "none"])
            cur[d] = "none"
        elif r < 0.38 and cur.get(d, "none") != "none":
            cmds.append([verb, d, cur[d]])                        # identical content again
        else:
            v = rng.choice(used)
            cmds.append([verb, d, v])
            cur[d] = v
        if rng.random() < pq:
            gen_queries(rng, used, npool, cmds, rng.randrange(1, 4))
        if rng.random() < 0.06:
            cmds.append(["obs"])
            if rng.random() < 0.3:
                cmds.append(["obs"])
        if rng.random() < 0.05:
            cmds.append(["repr", d])


def bulk_ids(rng, fam, n):
    """n distinct docids: a dense or strided run somewhere in the family's range"""
    stride = rng.choice([1, 1, 1, 3])
    span = n * stride
    bases = [0, 0, -(span // 2), 2 ** 31 - 1 - span, -2 ** 31]
    if fam == 64:
        bases += [2 ** 62 - span, -2 ** 62, 2 ** 31 - span // 2]
    base = rng.choice(bases)
    return [base + i * stride for i in range(n)]


def bulk_sizes(rng, tier):
    r = rng.random()
    if r < 0.45:
        return rng.randrange(70, 131)
    if r < 0.85 or tier == "quick" and r < 0.95:
        return rng.randrange(131, 261)
    return rng.randrange(261, 401)


def gen_bulk(rng, tier, fam, vtype, kind):
    """size-dependent behaviour.  `hot`: 70-400 documents share 1-4 values, the largest posting holds at least 65
    docids (a Set -> TreeSet style switch at 64, > 120 ints per set bucket); `wide`: 35-110 distinct values (more
    keys than an OO bucket of 30 / an IO bucket of 60 holds); optionally > 120 documents without a value; then a
    `drain` that brings the largest posting back to 58..66 docids, an ordinary small history and the battery"""
    pool = pool_of(vtype)
    npool = len(pool)
    n = bulk_sizes(rng, tier)
    ids = bulk_ids(rng, fam, n)
    if kind == "wide":
        used = sorted(rng.sample(range(npool), rng.randrange(35, min(npool, 110) + 1)))
        vals = [rng.choice(used) for _ in range(n)]
        hot = used[:1]
    else:
        nhot = rng.choice([1, 2, 2, 3, 4])
        used = sorted(rng.sample(range(npool), min(npool, nhot + rng.randrange(0, 4))))
        hot = rng.sample(used, min(nhot, len(used)))
        s0 = rng.randrange(65, n + 1) if rng.random() < 0.7 else rng.randrange(65, min(n, 75) + 1)
        vals = [hot[0]] * s0 + [rng.choice(hot[1:] or hot) for _ in range(n - s0)]
    nnone = rng.randrange(121, 200) if rng.random() < 0.12 and kind != "wide" else rng.choice([0, 0, 1, 5])
    extra = [ids[-1] + 1 + i for i in range(nnone)] if ids[-1] + nnone < (2 ** 31 if fam == 32 else 2 ** 63) \
        else [ids[0] - 1 - i for i in range(nnone)]
    pairs = list(zip(ids, vals)) + [(d, "none") for d in extra]
    order = rng.random()
    if order < 0.5:
        rng.shuffle(pairs)
    elif order < 0.65:
        pairs.reverse()
    cmds = []
    cur = {}
    for d, v in pairs:
        cmds.append(["index", d, v])
        cur[d] = v
    if rng.random() < 0.5:
        gen_queries(rng, used, npool, cmds, 3)
    if kind == "hot" and rng.random() < 0.45:
        # drain: the largest posting shrinks to the neighbourhood of 64 (demotion-style changes need that)
        members = [d for d, v in pairs if v == hot[0]]
        rng.shuffle(members)
        target = 0 if rng.random() < 0.2 else rng.randrange(58, 67)     # 0: the big posting goes away entirely
        for d in members[target:]:
            r = rng.random()
            if r < 0.6:
                cmds.append(["unindex", d])
                cur.pop(d, None)
            elif r < 0.8:
                cmds.append(["index", d, "none"])
                cur[d] = "none"
            else:
                v = rng.choice(used)
                cmds.append(["index", d, v])
                cur[d] = v
        gen_queries(rng, used, npool, cmds, 2)
    # the small history works on a few of the bulk ids (first, last, members of the big posting) and fresh ones
    top = 2 ** 31 if fam == 32 else 2 ** 63
    fresh = [ids[-1] + 1000 + i for i in range(3)] if ids[-1] + 1003 < top else [ids[0] - 1000 - i for i in range(3)]
    some = sorted(set([ids[0], ids[-1]] + rng.sample(ids, 8) + fresh))
    small_ops(rng, some, used, npool, cmds, cur, rng.randrange(5, 30), pq=0.2)
    battery(rng, used, npool, cmds)
    return cmds


def gen_history(rng, tier, ids, nvals, maxlen, npool=len(INT_POOL)):
    used = sorted(rng.sample(range(npool), min(nvals, npool)))
    cmds = []
    small_ops(rng, ids, used, npool, cmds, {}, rng.randrange(5, maxlen))
    battery(rng, used, npool, cmds)
    return cmds


def gen(rng, tier, idx):
    # 15% of the cases keep the index in a ZODB connection with commits / evictions / aborts in between
    return zbox.sprinkle(rng, gen_mem(rng, tier, idx), 0.15)


def gen_mem(rng, tier, idx):
    fam = rng.choice([32, 64])
    vtype = rng.choice(VTYPES)
    cfg = [["cfg", "family", fam], ["cfg", "vtype", vtype],
           ["cfg", "disc", rng.choice(["attr", "callable"])], ["cfg", "opt", rng.randrange(2)]]
    r = rng.random()
    if r < (0.4 if vtype in ("wide", "widestr") else BULK_SHARE):
        kind = "wide" if vtype in ("wide", "widestr") and rng.random() < 0.7 else "hot"
        return {"session": "field", "cfg": cfg + [["cfg", "mode", "bulk-" + kind]],
                "cmds": gen_bulk(rng, tier, fam, vtype, kind)}
    ids = IDS32 if fam == 32 else IDS64
    if rng.random() < 0.5:
        ids = ids[:rng.randrange(3, 10)]
    maxlen = 60 if tier == "quick" or rng.random() < 0.9 else 400
    return {"session": "field", "cfg": cfg,
            "cmds": gen_history(rng, tier, ids, rng.randrange(3, 9), maxlen, len(pool_of(vtype)))}


BULK_SHARE = 0.18


def cfgdict(case):
    return {c[1]: c[2] for c in case.get("cfg", [])}


def model_cmd(c):
    """the model has one index step (reindex_doc is index_doc) and the comparison entry points; FieldIndex.apply()
    forms are named by what they mean: eq, any-of, RangeValue = inclusive range, operator 'and' = the
    intersection of equalities (one value per document: equal constants -> eq, different ones -> nothing)"""
    if c[0] == "reindex":
        return ["index"] + list(c[1:])
    if c[0] == "qa":
        kind, args = c[2], list(c[3:])
        if kind == "eq":
            return ["q", "eq"] + args
        if kind == "any":
            return ["q", "any"] + args
        if kind == "and":
            return ["q", "eq", args[0]] if args and len(set(args)) == 1 else ["q", "any"]
        if kind == "range":
            return ["q", "inrange", args[0], args[1], 0, 0]
    return c


class FieldImpl(object):
    def __init__(self, hyp, cfg):
        import BTrees
        from hypatia.field import FieldIndex
        self.vtype = cfg.get("vtype", "int")
        self.pool = pool_of(self.vtype)
        self.rank = rank_table(self.vtype)
        fam = BTrees.family32 if cfg.get("family") == 32 else BTrees.family64
        if cfg.get("disc") == "callable":
            disc = zbox.disc_x
        else:
            disc = "x"
        self.opt = bool(cfg.get("opt", 1))
        self.mk = lambda: FieldIndex(disc, family=fam)
        self.idx = self.mk()
        self.current = {}
        self.n = 0

    def val(self, r):
        if r == "none":
            return None
        self.n += 1
        alts = self.pool[r]
        return alts[self.n % len(alts)]      # equal objects of different types take turns

    def doc(self, r):
        o = Doc()
        if r != "none":
            o.x = self.val(r)
        return o

    def query(self, via_object, q):
        idx = self.idx
        op = q[0]
        if op in ("any", "notany"):
            args = ([self.val(c) for c in q[1:]],)
        elif op in ("inrange", "notinrange"):
            args = (self.val(q[1]), self.val(q[2]), bool(q[3]), bool(q[4]))
        elif op == "eqtuple":
            return idset(idx.applyEq((self.val(q[1]), self.val(q[2]))))
        else:
            args = (self.val(q[1]),)
        if via_object:
            rs = getattr(idx, op)(*args).execute(optimize=self.opt)
            ids = list(rs.ids)
            if len(rs) != len(ids):
                return "len-mismatch %d %d" % (len(rs), len(ids))
            return idset(ids)
        name = {"eq": "applyEq", "noteq": "applyNotEq", "gt": "applyGt", "ge": "applyGe", "lt": "applyLt",
                "le": "applyLe", "any": "applyAny", "notany": "applyNotAny", "inrange": "applyInRange",
                "notinrange": "applyNotInRange"}[op]
        return idset(getattr(idx, name)(*args))

    def apply_form(self, form, kind, args):
        """FieldIndex.apply() itself: {'query': v}, {'query': [..], 'operator': ..}, bare value, list, RangeValue"""
        from hypatia import RangeValue
        if kind == "eq":
            v = self.val(args[0])
            return self.idx.apply({"query": v} if form == "d" else v)
        if kind == "range":
            rv = RangeValue(self.val(args[0]), self.val(args[1]))
            return self.idx.apply({"query": rv} if form == "d" else rv)
        vs = [self.val(a) for a in args]
        if kind == "and":
            return self.idx.apply({"query": vs, "operator": "and"})
        if form == "d":
            return self.idx.apply({"query": vs, "operator": "or"})
        if form == "dd":
            return self.idx.apply({"query": vs})
        return self.idx.apply(vs)

    def obs(self, idx=None):
        idx = idx or self.idx
        uv = [self.rank[repr(v)] for v in idx.unique_values()]
        return "indexed=%s ni=%s docids=%s ic=%d nic=%d dc=%d wc=%d uv=[%s]" % (
            idset(idx.indexed()), idset(idx.not_indexed()), idset(idx.docids()), idx.indexed_count(),
            idx.not_indexed_count(), idx.docids_count(), idx.word_count(), " ".join(map(str, sorted(uv))))

    def execute(self, c):
        try:
            op = c[0]
            if op == "index":
                self.current[c[1]] = c[2]
                self.idx.index_doc(c[1], self.doc(c[2]))
                return "ok"
            if op == "reindex":
                self.current[c[1]] = c[2]
                self.idx.reindex_doc(c[1], self.doc(c[2]))
                return "ok"
            if op == "unindex":
                self.current.pop(c[1], None)
                self.idx.unindex_doc(c[1])
                return "ok"
            if op == "reset":
                self.current = {}
                self.idx.reset()
                return "ok"
            if op == "obsfresh":
                fresh = self.mk()
                for d, r in self.current.items():
                    fresh.index_doc(d, self.doc(r))
                return self.obs(fresh)
            if op == "q":
                return self.query(False, c[1:])
            if op == "qx":
                return self.query(True, c[1:])
            if op == "qa":
                return idset(self.apply_form(c[1], c[2], c[3:]))
            if op == "obs":
                return self.obs()
            if op == "repr":
                marker = object()
                r = self.idx.document_repr(c[1], marker)
                return "none" if r is marker else str(self.rank.get(r, "?" + r))
        except Exception as e:
            return exc_name(e)
        raise ValueError(c)


def impl_run(hyp, case):
    im = FieldImpl(hyp, cfgdict(case))
    if not zbox.is_zodb(case):
        return [im.execute(c) for c in case["cmds"]]
    box = zbox.ZBox({"idx": im.idx})
    try:
        return [box.txn(c, im, ("current",)) if c[0] == "txn" else im.execute(c) for c in case["cmds"]]
    finally:
        box.close()


def nontrivial(case, outs):
    answers = {o for c, o in zip(case["cmds"], outs) if c[0] in ("q", "qx", "qa")}
    return len(answers) >= 3 and any(o not in ("{}",) for o in answers)


def size_features(case, value_of):
    """how large the structures got: largest posting, number of distinct values, documents without a value.
    `value_of(cmd)` -> (docid, value ranks or 'none' or None=forget) for index-like commands"""
    cur = {}
    post = {}
    mp = mv = mn = 0
    for c in case["cmds"]:
        if c[0] in ("index", "reindex", "unreindex", "unindex"):
            d = c[1]
            old = cur.pop(d, ())
            for v in (() if old == "none" else old):
                post[v] -= 1
                if not post[v]:
                    del post[v]
            new = value_of(c) if c[0] != "unindex" else None
            if new is not None:
                cur[d] = new
                for v in (new if new != "none" else ()):
                    post[v] = post.get(v, 0) + 1
            mp = max(mp, max(post.values(), default=0))
            mv = max(mv, len(post))
            mn = max(mn, sum(1 for x in cur.values() if x == "none")) if new == "none" else mn
        elif c[0] == "reset":
            cur, post = {}, {}

    def bucket(n, edges):
        lo = 0
        for e in edges:
            if n <= e:
                return "%d-%d" % (lo, e)
            lo = e + 1
        return ">%d" % edges[-1]
    return ["max-posting:" + bucket(mp, [16, 63, 64, 120, 300]), "max-values:" + bucket(mv, [8, 30, 60]),
            "max-novalue:" + bucket(mn, [16, 120])], mp


def features(case, outs):
    cfg = cfgdict(case)
    f = ["family:%s" % cfg.get("family"), "vtype:%s" % cfg.get("vtype"), "mode:%s" % cfg.get("mode", "small")]
    if zbox.is_zodb(case):
        f.append("zodb-backed")
        f += ["txn:" + " ".join(map(str, c[1:])) for c in case["cmds"] if c[0] == "txn"]
    sf, _ = size_features(case, lambda c: "none" if c[2] == "none" else (c[2],))
    f += sf
    last = {}
    prev_cmd = None
    for c, o in zip(case["cmds"], outs):
        if c[0] in ("q", "qx"):
            f.append("%s:%s:%s" % (c[0], c[1], "empty" if o == "{}" else "nonempty" if o.startswith("{") else o))
            if c[1] in ("inrange", "notinrange") and c[2] != "none" and c[3] != "none" and c[2] > c[3]:
                f.append("inverted-range")
        elif c[0] == "qa":
            f.append("apply:%s:%s:%s" % (c[1], c[2], "empty" if o == "{}" else "nonempty" if o.startswith("{") else o))
        elif c[0] in ("index", "reindex"):
            prev = last.get(c[1], "unknown")
            now = "none" if c[2] == "none" else "val"
            f.append("index:%s->%s%s" % ("none" if prev == "none" else "unknown" if prev == "unknown" else "val", now,
                                         "(same)" if prev == c[2] and now == "val" else ""))
            if c[0] == "reindex":
                f.append("via-reindex_doc")
            last[c[1]] = c[2]
        elif c[0] == "unindex":
            f.append("unindex:%s" % ("known" if c[1] in last else "unknown"))
            last.pop(c[1], None)
        elif c[0] == "reset":
            last = {}
            f.append("reset")
        elif c[0] == "obs":
            f.append("obs-twice" if prev_cmd == ["obs"] else "obs")
        elif c[0] == "repr":
            f.append("repr:%s" % ("default" if o == "none" else "value"))
        if isinstance(o, str) and o.startswith("err"):
            f.append(o)
        prev_cmd = c
    return f


def classify(case, i, impl, model, spec):
    c = case["cmds"][i]
    if c[0] in ("q", "qx") and c[1] == "eqtuple":
        return "D13"
    # a tuple constant handed to Eq / apply() is the legacy range (2-tuple) or any-of (other lengths) form
    if cfgdict(case).get("vtype") == "tuple" and (
            (c[0] in ("q", "qx") and c[1] in ("eq", "noteq")) or (c[0] == "qa" and c[2] == "eq")):
        return "D13"
    return None


def witnesses():
    return [("D13", {"session": "field", "cfg": [["cfg", "family", 64], ["cfg", "vtype", "int"]],
                     "cmds": [["index", 1, 3], ["index", 2, 5], ["index", 3, 8], ["q", "eqtuple", 3, 5]]})]
