"""C01  Field index answers every comparison query exactly, after any history.

Generator modes (measured, quick tier, seed 0, 4000 cases): small 78%, bulk-hot 17%, bulk-wide 4%; the largest
posting reached 65-120 docids in 11%, 121-300 in 6%, > 300 in 0.2% of the cases; > 30 distinct values in 4%;
> 120 documents without a value in 2%; value kinds int 24%, num (int/float/bool mixed) 20%, str 20%, tuple 10%,
bytes 10%, wide 10%, widestr 6%.

Size- / value- / entry-point-dependent mutations tried on scratch copies (VERIF_REPO=/var/tmp/mut_strong1_<N>,
deleted afterwards), all VIOLATION with a shrunk replay, quick tier, seed 0:
  M1  applyInRange ignores excludemin/excludemax when the forward BTree has more than 32 keys (needs bulk-wide)
  M2  index_doc takes a falsy value ('' / () / b'') as "no value"
  M6  BaseIndexMixin.docids drops not_indexed once more than 150 documents are indexed (needs bulk)
  M8  search() turns a float constant q into the range (int(q), q)
  M9  reindex_doc returns early for an id that is not indexed yet
  M11 apply({'query': [..]}) defaults to operator 'and'
  M12 docids() cached on (indexed_count, not_indexed_count)
and the seeded changes C01_C (range fast path ignoring exclusive bounds) and C01_F (postings start as Set, promoted to
TreeSet at 64 docids, the 65th docid is lost).

Round 4 (measured, quick tier, seed 0, 4001 cases; shares of the older modes shift accordingly: small 79%, bulk-hot 16%,
bulk-wide 4%):
  huge modes      4 cases per quick run (case 2 of shards 0, 4, 8, 12: 3 `huge-distinct` = 4110-6000 documents with
                  pairwise distinct int values, 1 `huge-posting` = one value shared by more than 4096 documents),
                  thorough: case 2, 402, .. of every shard (112 cases, 15% of the distinct ones with 8200-9000 documents).
                  Loaded by `bindex` (kept by the shrinker), a document without a value, a short ordinary history, then the
                  range battery with bounds EQUAL to stored values: all four flag combinations of inrange, three of
                  notinrange, lt/le/gt/ge, absent-neighbour bounds, ranges of exactly 4096 and 4097 stored values, a narrow
                  range, any/notany/eq.  Per quick run 36 range queries cover more than 4097 distinct stored values, 12
                  exactly 4096/4097.  The model needs 0.3-0.6 s per query there (quadratic association lists): a huge
                  case costs 6-10 s, the quick tier 16-24 s wall.
  value None      23% of the cases use a pool `X+none` (int, str, num, bytes, wide) whose lowest value is None (attribute
                  present and None / callable discriminator returning None: a VALUE for FieldIndex, ordered before
                  everything by OO BTrees; in 85% of these cases None is among the values used).  None is never a query
                  constant: as a bound it means "open", and FieldIndex.apply(None) = values(None, None) = every indexed
                  document (so `index.eq(None)` does not select the documents whose value is None - outside the generators).
  any-of argument applyAny / applyNotAny / any() / notany() get a list (18%), tuple, set, frozenset, dict keys view,
                  generator, iterator or map object (8-15% each), chosen by a hash of the command.
Seeded C01_G (range over more than 4096 distinct values tests the upper bound with excludemin) and C06_G (unindex_doc takes
a None value for "not indexed") were missed before and are caught now.  Further mutations of these classes
(VERIF_REPO=/var/tmp/mut_s6/<X>, deleted afterwards), VIOLATION on quick seed 0:
  A  BaseIndexMixin._negate subtracts an answer of more than 4096 ids from indexed() instead of docids() (needs a huge
     positive answer and a document without a value)                     caught by 3 of the 4 huge cases
  C  FieldIndex.index_doc tests `rev_index.get(docid) is not None` instead of `docid in rev_index` (needs a document
     whose value None is re-indexed)                                     caught (C01 and C06)
"""
import zlib

from lib import zbox
from lib.core import exc_name, idset

ID = "C01"
AUDIT_IMPORTS = ["HypatiaProofs.Properties.C01"]
THEOREMS = ["Hyp.Field." + t for t in (
    "c01_refinement", "c01_inrange", "c01_eq", "c01_any", "c01_gt", "c01_ge", "c01_lt", "c01_le",
    "c01_docids", "c01_noteq", "c01_notany", "c01_notinrange", "c01_inverted_range_empty", "c01_any_nil",
    "c01_no_stale", "c01_eq_tuple_is_range")]
CASES = {"quick": 4000, "thorough": 40000}
BUDGET_S = {"quick": 34, "thorough": 660}
RULE = ("small mode (78%): histories of 5-60 (thorough: up to 400) index_doc/reindex_doc/unindex_doc/reset calls "
        "over docids 0..15 plus extreme ids, 3-8 values, 17% no-value, 8% identical content again, 10% unindex "
        "(half unknown ids, sometimes twice), 3% reset; bulk-hot mode (17%): 70-400 documents (dense or strided "
        "docid runs anywhere in the family's range, ascending/descending/shuffled) share 1-4 values so that one "
        "posting holds 65-400 docids, in 12% of them also 121-199 documents without a value, in 45% a drain that "
        "takes the big posting back to 58-66 docids (or to nothing) by unindex / withdrawal / re-valuing, then a "
        "small history on first/last/random bulk ids and fresh ids; bulk-wide mode (4%): 70-400 documents over "
        "35-110 distinct values (forward BTree beyond one bucket). Value pools, ranked order-preservingly to Int "
        "for the model: int, str (incl. ''), num (ints, floats and bools mixed: 0 == 0.0 == -0.0 == False, 1 == 1.0 "
        "== True, 2**53 == float(2**53) are ONE value whose spellings take turns; -2**70 .. 2**70, +-inf), tuples "
        "of numbers (Eq with a tuple constant = finding D13), bytes (incl. b''), 120 ints / 120 strings. After "
        "each op with prob. 1/4 and at the end all ten comparisons via index.applyX and via "
        "index.X(..).execute() with constants present/absent/neighbouring/below/above, inverted ranges, empty and "
        "duplicate any-lists (handed over as list, tuple, set, frozenset, dict keys view, generator, iterator, map); "
        "23% of the cases draw from a pool whose lowest VALUE is None (never a query constant); 4 huge cases per quick "
        "run (thorough 112): 4110-6000 (thorough also 8200-9000) documents with pairwise distinct values, or one value "
        "shared by more than 4096 documents, a document without a value, a short history, then ranges with bounds equal "
        "to stored values under all four exclusive-flag combinations covering more than 4096 / exactly 4096 / 4097 "
        "distinct stored values; FieldIndex.apply() itself with {'query': v}, {'query': [..], 'operator': "
        "'or'/'and'/absent}, bare value, list, RangeValue (bare and in a dict); the enumeration tuple (indexed, "
        "not_indexed, docids, counts, unique_values; sometimes twice in a row) and document_repr; both BTrees "
        "families; attribute and callable discriminators. non-trivial = the answers contain at least one "
        "non-empty and three different id sets")
LEVEL_TEXT = ("Lean 4 refinement proof: for every history the model of FieldIndex represents the history's "
              "document table (invariant by induction over operations), and every comparison / negation "
              "returns exactly the ids whose current value satisfies it, for all constants and any linearly "
              "ordered value type; the model is tied to hypatia/field by a differential run of the real "
              "FieldIndex against the compiled model and against the specification's answer")
LEVEL_NOTE = ("trusted: Lean kernel (propext, Quot.sound, Classical.choice), BTrees semantics as modelled "
              "(values(min,max,excl) = filter by key, multiunion/union/difference = set algebra), sampled "
              "correspondence, the harness; values are ranked to Int for the driver (order-preserving)")
TECHNIQUE = "Lean 4 refinement invariant by induction over operation histories + differential correspondence"

INT_POOL = [-100, -1, 0, 1, 2, 3, 5, 8, 13, 21, 100, 2 ** 40]
STR_POOL = ["", "A", "Z", "a", "ab", "abc", "b", "ba", "c", "z", "é", "中"]


class Alt(tuple):
    """several Python objects that are one value (equal under ==, same hash): one rank for the model"""


# value pools: ascending, mutually orderable; the rank (position) is what the model sees.
#   num    ints and floats mixed: equal numbers of different types (0 == 0.0 == -0.0 == False, 1 == 1.0 == True,
#          2**53 == float(2**53)), negative, huge (beyond 64 bit), non-integral neighbours, +-inf
#   tuple  tuples of numbers (prefix order, equal tuples of different element types, 2-tuples = the legacy
#          range form D13 when used as an Eq constant)
#   bytes  byte strings incl. the empty one and NUL
#   wide / widestr   120 values: the forward BTree gets more keys than one bucket holds (30)
NUM_POOL = [float("-inf"), -2 ** 70, -1e10, -100, -1.5, -1, -0.5, Alt((0, 0.0, -0.0, False)), 0.5,
            Alt((1, 1.0, True)), 1.5, Alt((2, 2.0)), 3, 2 ** 40, 2 ** 40 + 0.5, Alt((2 ** 53, float(2 ** 53))),
            2 ** 53 + 1, 2 ** 70, 1e30, float("inf")]
TUPLE_POOL = [(), (-1,), (0,), (0, 0), (0, 0, 0), (0, 1), (0, 1.5), Alt(((1,), (1.0,), (True,))),
              Alt(((1, 0), (1.0, 0), (1, 0.0))), (1, 0, "a"), (1, 0, "b"), (1, 1), (1, 2, 3), (2 ** 40,)]
BYTES_POOL = [b"", b"\x00", b"A", b"a", b"a\x00", b"ab", b"b", b"\xff"]
WIDE_POOL = [7 * i - 400 for i in range(120)]
WIDESTR_POOL = ["k%03d" % i for i in range(120)]
#   huge   9200 ints: only the huge modes use it (more than 4096 / 8192 distinct values or docids of one value)
#   X+none the pool X with the VALUE None below everything (an attribute that is present and None, a callable
#          discriminator returning None: a value like any other for FieldIndex; OO BTrees order None before every
#          other key).  None is only ever a stored value: as a query constant / bound the API gives it the meaning
#          "open" (applyInRange(None, x)), and FieldIndex.apply(None) = search([None]) = values(None, None) is every
#          indexed document - so constants start at rank 1 (`qlo`) for these pools.
HUGE_POOL = [3 * i - 9000 for i in range(9200)]
POOLS = {k: [e if isinstance(e, Alt) else Alt((e,)) for e in v] for k, v in (
    ("int", INT_POOL), ("str", STR_POOL), ("num", NUM_POOL), ("tuple", TUPLE_POOL), ("bytes", BYTES_POOL),
    ("wide", WIDE_POOL), ("widestr", WIDESTR_POOL), ("huge", HUGE_POOL))}
NONE_KINDS = ["int", "int", "str", "num", "bytes", "wide"]
for _k in set(NONE_KINDS):
    POOLS[_k + "+none"] = [Alt((None,))] + POOLS[_k]
VTYPES = ["int"] * 5 + ["str"] * 4 + ["num"] * 4 + ["tuple"] * 2 + ["bytes"] * 2 + ["wide"] * 2 + ["widestr"] + \
    [k + "+none" for k in NONE_KINDS]
WIDE_KINDS = ("wide", "widestr", "wide+none")
IDS64 = list(range(16)) + [2 ** 31 - 1, -2 ** 31, 2 ** 62, -2 ** 62]
IDS32 = list(range(16)) + [2 ** 31 - 1, -2 ** 31]
OPS = ["eq", "noteq", "gt", "ge", "lt", "le", "any", "notany", "inrange", "notinrange"]


def pool_of(vtype):
    return POOLS[vtype or "int"]


def qlo_of(vtype):
    """lowest rank usable as a query constant (None is a stored value only)"""
    return 1 if (vtype or "").endswith("+none") else 0


def rank_table(vtype):
    """repr of every pool object -> rank"""
    return {repr(a): r for r, alts in enumerate(pool_of(vtype)) for a in alts}


class Doc(object):
    pass


# "an iterable of values": the any-of entry points are handed lists, tuples, sets, frozensets, dict key views and the
# one-shot kinds (generator, iterator, map) - which one is decided by a hash of the command, so the model (which
# sees the members) needs no change.  An implementation that walks the argument twice sees nothing the second time.
SHAPES = ("list", "list", "tuple", "set", "frozenset", "generator", "iterator", "dictkeys", "map")


def shape_of(cmd):
    return SHAPES[zlib.crc32(repr([str(t) for t in cmd]).encode()) % len(SHAPES)]


def as_iterable(shape, items):
    items = list(items)
    if shape == "tuple":
        return tuple(items)
    if shape == "set":
        return set(items)
    if shape == "frozenset":
        return frozenset(items)
    if shape == "generator":
        return (x for x in items)
    if shape == "iterator":
        return iter(items)
    if shape == "dictkeys":
        return dict.fromkeys(items).keys()
    if shape == "map":
        return map(lambda x: x, items)
    return items


def gen_query(rng, used, npool=len(INT_POOL), qlo=0):
    op = rng.choice(OPS)
    n = npool
    used = [u for u in used if u >= qlo] if qlo else used

    def const():
        if used and rng.random() < 0.6:
            return rng.choice(used)
        if used and rng.random() < 0.5:            # a neighbour of a used value (absent / between, on wide pools too)
            return min(n - 1, max(qlo, rng.choice(used) + rng.choice([-1, 1])))
        return rng.randrange(qlo, n)
    if op in ("any", "notany"):
        k = rng.choice([0, 1, 1, 2, 3, 4])
        cs = [const() for _ in range(k)]
        if cs and rng.random() < 0.2:
            cs.append(cs[0])
        return [op] + cs
    if op in ("inrange", "notinrange"):
        lo = "none" if rng.random() < 0.15 else const()
        hi = "none" if rng.random() < 0.15 else const()
        # an exclusive flag on an open (None) bound is outside the property ("open or exclusive"):
        # BTrees then drops the extreme key; the model's values(min,max,excl) = filter assumes a bound
        return [op, lo, hi, 0 if lo == "none" else rng.randrange(2), 0 if hi == "none" else rng.randrange(2)]
    return [op, const()]


def gen_apply(rng, used, npool, qlo=0):
    """FieldIndex.apply() called directly: dict forms, bare values, lists, RangeValue"""
    used = [u for u in used if u >= qlo] if qlo else used

    def const():
        return rng.choice(used) if used and rng.random() < 0.7 else rng.randrange(qlo, npool)
    r = rng.random()
    if r < 0.3:
        return ["qa", rng.choice(["d", "b"]), "eq", const()]
    if r < 0.6:
        return ["qa", rng.choice(["d", "dd", "b"]), "any"] + [const() for _ in range(rng.choice([0, 1, 2, 3]))]
    if r < 0.75:
        cs = [const() for _ in range(rng.choice([0, 1, 2, 2, 3]))]
        if cs and rng.random() < 0.5:
            cs = [cs[0]] * len(cs)
        return ["qa", "d", "and"] + cs
    return ["qa", rng.choice(["d", "b"]), "range", "none" if rng.random() < 0.2 else const(),
            "none" if rng.random() < 0.2 else const()]


def gen_queries(rng, used, npool, cmds, k, qlo=0):
    for _ in range(k):
        if rng.random() < 0.12:
            cmds.append(gen_apply(rng, used, npool, qlo))
        else:
            cmds.append([rng.choice(["q", "qx"])] + gen_query(rng, used, npool, qlo))


def battery(rng, used, npool, cmds, qlo=0):
    for op in OPS:
        q = gen_query(rng, used, npool, qlo)
        while q[0] != op:
            q = gen_query(rng, used, npool, qlo)
        cmds.append(["q"] + q)
        cmds.append(["qx"] + q)
    cmds.append(gen_apply(rng, used, npool, qlo))
    cmds.append(["obs"])


def small_ops(rng, ids, used, npool, cmds, cur, nops, pq=0.25, qlo=0, reset=True):
    """ordinary history: index / reindex / same content again / no value / unindex (known, unknown) / reset, with
    queries, the enumeration tuple (sometimes twice in a row: results must not be cached) and document_repr"""
    for _ in range(nops):
        r = rng.random()
        d = rng.choice(ids)
        if cur and rng.random() < 0.3:
            d = rng.choice(sorted(cur))
        verb = "reindex" if rng.random() < 0.25 else "index"
        if r < 0.03 and reset:
            cmds.append(["reset"])
            cur.clear()
        elif r < 0.13:
            d = d if rng.random() < 0.5 else rng.choice(ids)
            cmds.append(["unindex", d])
            cur.pop(d, None)
            if rng.random() < 0.15:
                cmds.append(["unindex", d])                       # a second time: now unknown
        elif r < 0.30:
            cmds.append([verb, d, "none"])
            cur[d] = "none"
        elif r < 0.38 and cur.get(d, "none") != "none":
            cmds.append([verb, d, cur[d]])                        # identical content again
        else:
            v = rng.choice(used)
            cmds.append([verb, d, v])
            cur[d] = v
        if rng.random() < pq:
            gen_queries(rng, used, npool, cmds, rng.randrange(1, 4), qlo)
        if rng.random() < 0.06:
            cmds.append(["obs"])
            if rng.random() < 0.3:
                cmds.append(["obs"])
        if rng.random() < 0.05:
            cmds.append(["repr", d])


def bulk_ids(rng, fam, n):
    """n distinct docids: a dense or strided run somewhere in the family's range"""
    stride = rng.choice([1, 1, 1, 3])
    span = n * stride
    bases = [0, 0, -(span // 2), 2 ** 31 - 1 - span, -2 ** 31]
    if fam == 64:
        bases += [2 ** 62 - span, -2 ** 62, 2 ** 31 - span // 2]
    base = rng.choice(bases)
    return [base + i * stride for i in range(n)]


def bulk_sizes(rng, tier):
    r = rng.random()
    if r < 0.45:
        return rng.randrange(70, 131)
    if r < 0.85 or tier == "quick" and r < 0.95:
        return rng.randrange(131, 261)
    return rng.randrange(261, 401)


def gen_bulk(rng, tier, fam, vtype, kind):
    """size-dependent behaviour.  `hot`: 70-400 documents share 1-4 values, the largest posting holds at least 65
    docids (a Set -> TreeSet style switch at 64, > 120 ints per set bucket); `wide`: 35-110 distinct values (more
    keys than an OO bucket of 30 / an IO bucket of 60 holds); optionally > 120 documents without a value; then a
    `drain` that brings the largest posting back to 58..66 docids, an ordinary small history and the battery"""
    pool = pool_of(vtype)
    npool = len(pool)
    qlo = qlo_of(vtype)
    n = bulk_sizes(rng, tier)
    ids = bulk_ids(rng, fam, n)
    if kind == "wide":
        used = sorted(rng.sample(range(npool), rng.randrange(35, min(npool, 110) + 1)))
        if qlo and rng.random() < 0.7:
            used = sorted(set(used) | {0})
        vals = [rng.choice(used) for _ in range(n)]
        hot = used[:1]
    else:
        nhot = rng.choice([1, 2, 2, 3, 4])
        used = sorted(rng.sample(range(npool), min(npool, nhot + rng.randrange(0, 4))))
        if qlo and rng.random() < 0.7:                  # the value None among the values (possibly the hot one)
            used = sorted(set(used) | {0})
        hot = rng.sample(used, min(nhot, len(used)))
        s0 = rng.randrange(65, n + 1) if rng.random() < 0.7 else rng.randrange(65, min(n, 75) + 1)
        vals = [hot[0]] * s0 + [rng.choice(hot[1:] or hot) for _ in range(n - s0)]
    nnone = rng.randrange(121, 200) if rng.random() < 0.12 and kind != "wide" else rng.choice([0, 0, 1, 5])
    extra = [ids[-1] + 1 + i for i in range(nnone)] if ids[-1] + nnone < (2 ** 31 if fam == 32 else 2 ** 63) \
        else [ids[0] - 1 - i for i in range(nnone)]
    pairs = list(zip(ids, vals)) + [(d, "none") for d in extra]
    order = rng.random()
    if order < 0.5:
        rng.shuffle(pairs)
    elif order < 0.65:
        pairs.reverse()
    cmds = []
    cur = {}
    for d, v in pairs:
        cmds.append(["index", d, v])
        cur[d] = v
    if rng.random() < 0.5:
        gen_queries(rng, used, npool, cmds, 3, qlo)
    if kind == "hot" and rng.random() < 0.45:
        # drain: the largest posting shrinks to the neighbourhood of 64 (demotion-style changes need that)
        members = [d for d, v in pairs if v == hot[0]]
        rng.shuffle(members)
        target = 0 if rng.random() < 0.2 else rng.randrange(58, 67)     # 0: the big posting goes away entirely
        for d in members[target:]:
            r = rng.random()
            if r < 0.6:
                cmds.append(["unindex", d])
                cur.pop(d, None)
            elif r < 0.8:
                cmds.append(["index", d, "none"])
                cur[d] = "none"
            else:
                v = rng.choice(used)
                cmds.append(["index", d, v])
                cur[d] = v
        gen_queries(rng, used, npool, cmds, 2, qlo)
    # the small history works on a few of the bulk ids (first, last, members of the big posting) and fresh ones
    top = 2 ** 31 if fam == 32 else 2 ** 63
    fresh = [ids[-1] + 1000 + i for i in range(3)] if ids[-1] + 1003 < top else [ids[0] - 1000 - i for i in range(3)]
    some = sorted(set([ids[0], ids[-1]] + rng.sample(ids, 8) + fresh))
    small_ops(rng, some, used, npool, cmds, cur, rng.randrange(5, 30), pq=0.2, qlo=qlo)
    battery(rng, used, npool, cmds, qlo)
    return cmds


HUGE_T = 4096


def range_battery(rng, vs, npool, cmds, hot=None):
    """the range comparisons with bounds EQUAL to stored values and all four exclusive-flag combinations.  `vs`: the
    ranks currently stored, ascending.  With more than HUGE_T + 4 of them the main range covers more than HUGE_T
    distinct stored values whatever the flags (a 'large range' path must answer like the ordinary one), two more
    ranges cover exactly HUGE_T and HUGE_T + 1 values (the two sides of such a threshold); otherwise the bounds are
    two stored values (one of them `hot`, the value of the huge posting, if given)."""
    via = lambda: rng.choice(["q", "qx"])
    m = len(vs)
    if m > HUGE_T + 4:
        i = rng.randrange(0, m - HUGE_T - 3)
        j = rng.randrange(i + HUGE_T + 3, m)
    else:
        i, j = sorted(rng.sample(range(m), 2)) if m > 1 else (0, 0)
        if hot is not None and hot in vs:
            k = vs.index(hot)
            i, j = (k, max(j, k)) if rng.random() < 0.5 else (min(i, k), k)
    lo, hi = vs[i], vs[j]
    flags = [(0, 0), (0, 1), (1, 0), (1, 1)]
    rng.shuffle(flags)
    for el, eh in flags:
        cmds.append([via(), "inrange", lo, hi, el, eh])
    for el, eh in [(0, 1), (1, 0), rng.choice([(0, 0), (1, 1)])]:
        cmds.append([via(), "notinrange", lo, hi, el, eh])
    for op, c in (("lt", hi), ("le", hi), ("gt", lo), ("ge", lo)):
        cmds.append([via(), op, c])
    # bounds that are NOT stored (neighbouring ranks, if free), asymmetric flags
    free = lambda r: 0 <= r < npool and r not in set(vs[max(0, i - 2):i + 3] + vs[max(0, j - 2):j + 3])
    lo2 = lo - 1 if free(lo - 1) else lo
    hi2 = hi + 1 if free(hi + 1) else hi
    cmds.append([via(), "inrange", lo2, hi2] + list(rng.choice([(0, 1), (1, 0)])))
    if m > HUGE_T + 4:
        # the two sides of a threshold at HUGE_T distinct values: inclusive ranges of exactly HUGE_T and HUGE_T + 1
        # stored values, then exclusive flags on them
        a = rng.randrange(0, m - HUGE_T - 3)
        for width in (HUGE_T, HUGE_T + 1):
            el, eh = rng.choice(flags)
            cmds.append([via(), rng.choice(["inrange", "inrange", "notinrange"]), vs[a], vs[a + width - 1], 0, 0])
            cmds.append([via(), "inrange", vs[a], vs[a + width - 1 + el + eh], el, eh])
    # a narrow range, equalities
    a = rng.randrange(0, m)
    b = min(m - 1, a + rng.randrange(0, 40))
    cmds.append([via(), "inrange", vs[a], vs[b], rng.randrange(2), rng.randrange(2)])
    some = [vs[a], vs[b], hi, lo][:rng.randrange(1, 5)]
    cmds.append([via(), "any"] + some)
    cmds.append([via(), "notany"] + some)
    cmds.append([via(), rng.choice(["eq", "noteq"]), hot if hot is not None else lo])


def gen_huge(rng, tier, fam, variant):
    """thresholds far beyond a bucket: `distinct` = 4110-6000 documents (thorough: sometimes 8200-9000) with pairwise
    distinct int values (a range then covers more than 4096 / 8192 distinct stored values), `posting` = one value
    shared by more than 4096 documents plus 50-150 other values; loaded by `bindex` (= index_doc; the shrinker keeps
    these commands), then a short ordinary history on first / last / random / fresh ids, then the range battery"""
    npool = len(HUGE_POOL)
    n = rng.randrange(8200, 9001) if tier == "thorough" and rng.random() < 0.15 else rng.randrange(4110, 6001)
    ids = bulk_ids(rng, fam, n)
    hot = None
    if variant == "distinct":
        vals = sorted(rng.sample(range(npool), n))
    else:
        hot = rng.randrange(npool)
        nother = rng.randrange(50, 151)
        vals = [hot] * (n - nother) + rng.sample(range(npool), nother)
    order = rng.random()
    if order < 0.45:
        rng.shuffle(vals)
    elif order < 0.6:
        vals.reverse()
    cmds = []
    cur = {}
    for d, v in zip(ids, vals):
        cmds.append(["bindex", d, v])
        cur[d] = v
    top = 2 ** 31 if fam == 32 else 2 ** 63
    fresh = [ids[-1] + 1000 + i for i in range(3)] if ids[-1] + 1003 < top else [ids[0] - 1000 - i for i in range(3)]
    some = sorted(set([ids[0], ids[-1]] + rng.sample(ids, 6) + fresh))
    used = sorted(set(rng.sample(vals, 6) + [rng.randrange(npool) for _ in range(2)]))
    if rng.random() < 0.75:
        # a document without a value next to the huge index (negations must still list it)
        cmds.append(["index", fresh[0], "none"])
        cur[fresh[0]] = "none"
    small_ops(rng, some, used, npool, cmds, cur, rng.randrange(3, 12), pq=0.1, reset=False)
    vs = sorted({v for v in cur.values() if v != "none"})
    range_battery(rng, vs, npool, cmds, hot)
    cmds.append(["obs"])
    return cmds


def gen_history(rng, tier, ids, nvals, maxlen, npool=len(INT_POOL), qlo=0):
    used = sorted(rng.sample(range(npool), min(nvals, npool)))
    if qlo and rng.random() < 0.85:
        used = sorted(set(used) | {0})                  # the value None
    cmds = []
    small_ops(rng, ids, used, npool, cmds, {}, rng.randrange(5, maxlen), qlo=qlo)
    battery(rng, used, npool, cmds, qlo)
    return cmds


HUGE_EVERY = 400


def huge_slot(tier, idx):
    """which generated cases are huge ones: decided by the case number, not by chance, so that every run has them
    and has them early in the shard: quick = 4 (case 2 of every fourth shard: 3 distinct + 1 posting), thorough =
    case 2, 402, 802, .. of every shard"""
    shard, i = divmod(idx, 1000003)
    if i % HUGE_EVERY != 2 or (tier == "quick" and shard % 4):
        return None
    return "posting" if (i // HUGE_EVERY + shard // 4) % 4 == 3 else "distinct"


def gen(rng, tier, idx):
    # 15% of the cases keep the index in a ZODB connection with commits / evictions / aborts in between (never
    # between the bulk-loading commands of a huge case: an abort there would take the documents away again)
    return zbox.sprinkle(rng, gen_mem(rng, tier, idx), 0.15, barrier=lambda c: c[0] == "bindex")


def gen_mem(rng, tier, idx):
    fam = rng.choice([32, 64])
    variant = huge_slot(tier, idx)
    if variant:
        cfg = [["cfg", "family", fam], ["cfg", "vtype", "huge"], ["cfg", "disc", rng.choice(["attr", "callable"])],
               ["cfg", "opt", rng.randrange(2)], ["cfg", "mode", "huge-" + variant]]
        return {"session": "field", "cfg": cfg, "cmds": gen_huge(rng, tier, fam, variant)}
    vtype = rng.choice(VTYPES)
    cfg = [["cfg", "family", fam], ["cfg", "vtype", vtype],
           ["cfg", "disc", rng.choice(["attr", "callable"])], ["cfg", "opt", rng.randrange(2)]]
    r = rng.random()
    if r < (0.4 if vtype in WIDE_KINDS else BULK_SHARE):
        kind = "wide" if vtype in WIDE_KINDS and rng.random() < 0.7 else "hot"
        return {"session": "field", "cfg": cfg + [["cfg", "mode", "bulk-" + kind]],
                "cmds": gen_bulk(rng, tier, fam, vtype, kind)}
    ids = IDS32 if fam == 32 else IDS64
    if rng.random() < 0.5:
        ids = ids[:rng.randrange(3, 10)]
    maxlen = 60 if tier == "quick" or rng.random() < 0.9 else 400
    return {"session": "field", "cfg": cfg,
            "cmds": gen_history(rng, tier, ids, rng.randrange(3, 9), maxlen, len(pool_of(vtype)), qlo_of(vtype))}


BULK_SHARE = 0.18


def cfgdict(case):
    return {c[1]: c[2] for c in case.get("cfg", [])}


def model_cmd(c):
    """the model has one index step (reindex_doc is index_doc) and the comparison entry points; FieldIndex.apply()
    forms are named by what they mean: eq, any-of, RangeValue = inclusive range, operator 'and' = the
    intersection of equalities (one value per document: equal constants -> eq, different ones -> nothing)"""
    if c[0] in ("reindex", "bindex"):
        return ["index"] + list(c[1:])
    if c[0] == "qa":
        kind, args = c[2], list(c[3:])
        if kind == "eq":
            return ["q", "eq"] + args
        if kind == "any":
            return ["q", "any"] + args
        if kind == "and":
            return ["q", "eq", args[0]] if args and len(set(args)) == 1 else ["q", "any"]
        if kind == "range":
            return ["q", "inrange", args[0], args[1], 0, 0]
    return c


class FieldImpl(object):
    def __init__(self, hyp, cfg):
        import BTrees
        from hypatia.field import FieldIndex
        self.vtype = cfg.get("vtype", "int")
        self.pool = pool_of(self.vtype)
        self.rank = rank_table(self.vtype)
        fam = BTrees.family32 if cfg.get("family") == 32 else BTrees.family64
        if cfg.get("disc") == "callable":
            disc = zbox.disc_x
        else:
            disc = "x"
        self.opt = bool(cfg.get("opt", 1))
        self.mk = lambda: FieldIndex(disc, family=fam)
        self.idx = self.mk()
        self.current = {}
        self.n = 0

    def val(self, r):
        if r == "none":
            return None
        self.n += 1
        alts = self.pool[r]
        return alts[self.n % len(alts)]      # equal objects of different types take turns

    def doc(self, r):
        o = Doc()
        if r != "none":
            o.x = self.val(r)
        return o

    def query(self, via_object, q):
        idx = self.idx
        op = q[0]
        if op in ("any", "notany"):
            args = (as_iterable(shape_of([via_object] + list(q)), [self.val(c) for c in q[1:]]),)
        elif op in ("inrange", "notinrange"):
            args = (self.val(q[1]), self.val(q[2]), bool(q[3]), bool(q[4]))
        elif op == "eqtuple":
            return idset(idx.applyEq((self.val(q[1]), self.val(q[2]))))
        else:
            args = (self.val(q[1]),)
        if via_object:
            rs = getattr(idx, op)(*args).execute(optimize=self.opt)
            ids = list(rs.ids)
            if len(rs) != len(ids):
                return "len-mismatch %d %d" % (len(rs), len(ids))
            return idset(ids)
        name = {"eq": "applyEq", "noteq": "applyNotEq", "gt": "applyGt", "ge": "applyGe", "lt": "applyLt",
                "le": "applyLe", "any": "applyAny", "notany": "applyNotAny", "inrange": "applyInRange",
                "notinrange": "applyNotInRange"}[op]
        return idset(getattr(idx, name)(*args))

    def apply_form(self, form, kind, args):
        """FieldIndex.apply() itself: {'query': v}, {'query': [..], 'operator': ..}, bare value, list, RangeValue"""
        from hypatia import RangeValue
        if kind == "eq":
            v = self.val(args[0])
            return self.idx.apply({"query": v} if form == "d" else v)
        if kind == "range":
            rv = RangeValue(self.val(args[0]), self.val(args[1]))
            return self.idx.apply({"query": rv} if form == "d" else rv)
        vs = [self.val(a) for a in args]
        if kind == "and":
            return self.idx.apply({"query": vs, "operator": "and"})
        if form == "d":
            return self.idx.apply({"query": vs, "operator": "or"})
        if form == "dd":
            return self.idx.apply({"query": vs})
        return self.idx.apply(vs)

    def obs(self, idx=None):
        idx = idx or self.idx
        uv = [self.rank[repr(v)] for v in idx.unique_values()]
        return "indexed=%s ni=%s docids=%s ic=%d nic=%d dc=%d wc=%d uv=[%s]" % (
            idset(idx.indexed()), idset(idx.not_indexed()), idset(idx.docids()), idx.indexed_count(),
            idx.not_indexed_count(), idx.docids_count(), idx.word_count(), " ".join(map(str, sorted(uv))))

    def execute(self, c):
        try:
            op = c[0]
            if op in ("index", "bindex"):
                self.current[c[1]] = c[2]
                self.idx.index_doc(c[1], self.doc(c[2]))
                return "ok"
            if op == "reindex":
                self.current[c[1]] = c[2]
                self.idx.reindex_doc(c[1], self.doc(c[2]))
                return "ok"
            if op == "unindex":
                self.current.pop(c[1], None)
                self.idx.unindex_doc(c[1])
                return "ok"
            if op == "reset":
                self.current = {}
                self.idx.reset()
                return "ok"
            if op == "obsfresh":
                fresh = self.mk()
                for d, r in self.current.items():
                    fresh.index_doc(d, self.doc(r))
                return self.obs(fresh)
            if op == "q":
                return self.query(False, c[1:])
            if op == "qx":
                return self.query(True, c[1:])
            if op == "qa":
                return idset(self.apply_form(c[1], c[2], c[3:]))
            if op == "obs":
                return self.obs()
            if op == "repr":
                marker = object()
                r = self.idx.document_repr(c[1], marker)
                return "none" if r is marker else str(self.rank.get(r, "?" + r))
        except Exception as e:
            return exc_name(e)
        raise ValueError(c)


def impl_run(hyp, case):
    im = FieldImpl(hyp, cfgdict(case))
    if not zbox.is_zodb(case):
        return [im.execute(c) for c in case["cmds"]]
    box = zbox.ZBox({"idx": im.idx})
    try:
        return [box.txn(c, im, ("current",)) if c[0] == "txn" else im.execute(c) for c in case["cmds"]]
    finally:
        box.close()


def keep_cmd(c):
    """the shrinker never drops the bulk load of a huge case (a size threshold needs it, and every attempt costs
    seconds there)"""
    return c[0] == "bindex"


def nontrivial(case, outs):
    answers = {o for c, o in zip(case["cmds"], outs) if c[0] in ("q", "qx", "qa")}
    return len(answers) >= 3 and any(o not in ("{}",) for o in answers)


def size_features(case, value_of):
    """how large the structures got: largest posting, number of distinct values, documents without a value.
    `value_of(cmd)` -> (docid, value ranks or 'none' or None=forget) for index-like commands"""
    cur = {}
    post = {}
    mp = mv = mn = 0
    for c in case["cmds"]:
        if c[0] in ("index", "reindex", "unreindex", "unindex", "bindex"):
            d = c[1]
            old = cur.pop(d, ())
            for v in (() if old == "none" else old):
                post[v] -= 1
                if not post[v]:
                    del post[v]
            new = value_of(c) if c[0] != "unindex" else None
            if new is not None:
                cur[d] = new
                for v in (new if new != "none" else ()):
                    post[v] = post.get(v, 0) + 1
            mp = max(mp, max(post.values(), default=0))
            mv = max(mv, len(post))
            mn = max(mn, sum(1 for x in cur.values() if x == "none")) if new == "none" else mn
        elif c[0] == "reset":
            cur, post = {}, {}

    def bucket(n, edges):
        lo = 0
        for e in edges:
            if n <= e:
                return "%d-%d" % (lo, e)
            lo = e + 1
        return ">%d" % edges[-1]
    return ["max-posting:" + bucket(mp, [16, 63, 64, 120, 300, 4096]), "max-values:" + bucket(mv, [8, 30, 60, 4096]),
            "max-novalue:" + bucket(mn, [16, 120])], mp


RANGE_OPS = {"inrange": None, "notinrange": None, "lt": ("none", 1, 0, 1), "le": ("none", 1, 0, 0),
             "gt": (1, "none", 1, 0), "ge": (1, "none", 0, 0)}


def huge_range_feature(c, last):
    """huge cases: how many distinct stored values the range covers, the flags, whether a bound is a stored value"""
    if c[1] in ("inrange", "notinrange"):
        lo, hi, el, eh = c[2:6]
    else:
        lo, hi, el, eh = [c[2] if x == 1 and i < 2 else x for i, x in enumerate(RANGE_OPS[c[1]])]
    stored = {v for v in last.values() if v != "none"}
    k = sum(1 for v in stored if (lo == "none" or (v > lo if el else v >= lo)) and
            (hi == "none" or (v < hi if eh else v <= hi)))
    width = "<%d" % HUGE_T if k < HUGE_T else "=%d" % k if k <= HUGE_T + 1 else ">%d" % (HUGE_T + 1)
    tie = "+".join(n for n, b in (("lo", lo), ("hi", hi)) if b in stored) or "none"
    return "huge:%s:covers%s:excl=%d%d:stored-bound=%s" % (c[1], width, el, eh, tie)


def features(case, outs):
    cfg = cfgdict(case)
    f = ["family:%s" % cfg.get("family"), "vtype:%s" % cfg.get("vtype"), "mode:%s" % cfg.get("mode", "small")]
    if zbox.is_zodb(case):
        f.append("zodb-backed")
        f += ["txn:" + " ".join(map(str, c[1:])) for c in case["cmds"] if c[0] == "txn"]
    sf, _ = size_features(case, lambda c: "none" if c[2] == "none" else (c[2],))
    f += sf
    last = {}
    prev_cmd = None
    huge = str(cfg.get("mode", "")).startswith("huge")
    for c, o in zip(case["cmds"], outs):
        if c[0] in ("q", "qx"):
            f.append("%s:%s:%s" % (c[0], c[1], "empty" if o == "{}" else "nonempty" if o.startswith("{") else o))
            if c[1] in ("any", "notany"):
                f.append("any-arg:" + shape_of([c[0] == "qx"] + list(c[1:])))
            if c[1] in ("inrange", "notinrange") and c[2] != "none" and c[3] != "none" and c[2] > c[3]:
                f.append("inverted-range")
            if huge and c[1] in RANGE_OPS:
                f.append(huge_range_feature(c, last))
        elif c[0] == "qa":
            f.append("apply:%s:%s:%s" % (c[1], c[2], "empty" if o == "{}" else "nonempty" if o.startswith("{") else o))
        elif c[0] in ("index", "reindex", "bindex"):
            prev = last.get(c[1], "unknown")
            now = "none" if c[2] == "none" else "val"
            f.append("index:%s->%s%s" % ("none" if prev == "none" else "unknown" if prev == "unknown" else "val", now,
                                         "(same)" if prev == c[2] and now == "val" else ""))
            if c[0] == "reindex":
                f.append("via-reindex_doc")
            last[c[1]] = c[2]
        elif c[0] == "unindex":
            f.append("unindex:%s" % ("known" if c[1] in last else "unknown"))
            last.pop(c[1], None)
        elif c[0] == "reset":
            last = {}
            f.append("reset")
        elif c[0] == "obs":
            f.append("obs-twice" if prev_cmd == ["obs"] else "obs")
        elif c[0] == "repr":
            f.append("repr:%s" % ("default" if o == "none" else "value"))
        if isinstance(o, str) and o.startswith("err"):
            f.append(o)
        prev_cmd = c
    return f


def classify(case, i, impl, model, spec):
    c = case["cmds"][i]
    if c[0] in ("q", "qx") and c[1] == "eqtuple":
        return "D13"
    # a tuple constant handed to Eq / apply() is the legacy range (2-tuple) or any-of (other lengths) form
    if cfgdict(case).get("vtype") == "tuple" and (
            (c[0] in ("q", "qx") and c[1] in ("eq", "noteq")) or (c[0] == "qa" and c[2] == "eq")):
        return "D13"
    return None


def witnesses():
    return [("D13", {"session": "field", "cfg": [["cfg", "family", 64], ["cfg", "vtype", "int"]],
                     "cmds": [["index", 1, 3], ["index", 2, 5], ["index", 3, 8], ["q", "eqtuple", 3, 5]]})]
