"""C01  Field index answers every comparison query exactly, after any history."""
from lib.core import exc_name, idset

ID = "C01"
AUDIT_IMPORTS = ["HypatiaProofs.Properties.C01"]
THEOREMS = ["Hyp.Field." + t for t in (
    "c01_refinement", "c01_inrange", "c01_eq", "c01_any", "c01_gt", "c01_ge", "c01_lt", "c01_le",
    "c01_docids", "c01_noteq", "c01_notany", "c01_notinrange", "c01_inverted_range_empty", "c01_any_nil",
    "c01_no_stale", "c01_eq_tuple_is_range")]
CASES = {"quick": 2000, "thorough": 40000}
BUDGET_S = {"quick": 40, "thorough": 700}
RULE = ("histories of 5-60 (thorough: up to 400) index/reindex/unindex/reset calls over docids 0..15 plus "
        "extreme ids, 3-8 values (int or str, order-preservingly ranked for the model), 20% no-value, "
        "10% unindex (half unknown ids), 3% reset; after each op with prob. 1/4 and at the end all ten "
        "comparisons via index.applyX and via index.X(..).execute() with constants present/absent/below/"
        "above/between, inverted ranges, empty and duplicate any-lists; both BTrees families; attribute and "
        "callable discriminators. non-trivial = state becomes non-empty and the answers contain at least "
        "one non-empty and two different id sets")
LEVEL_TEXT = ("Lean 4 refinement proof: for every history the model of FieldIndex represents the history's "
              "document table (invariant by induction over operations), and every comparison / negation "
              "returns exactly the ids whose current value satisfies it, for all constants and any linearly "
              "ordered value type; the model is tied to hypatia/field by a differential run of the real "
              "FieldIndex against the compiled model and against the specification's answer")
LEVEL_NOTE = ("trusted: Lean kernel (propext, Quot.sound, Classical.choice), BTrees semantics as modelled "
              "(values(min,max,excl) = filter by key, multiunion/union/difference = set algebra), sampled "
              "correspondence, the harness; values are ranked to Int for the driver (order-preserving)")
TECHNIQUE = "Lean 4 refinement invariant by induction over operation histories + differential correspondence"

INT_POOL = [-100, -1, 0, 1, 2, 3, 5, 8, 13, 21, 100, 2 ** 40]
STR_POOL = ["", "A", "Z", "a", "ab", "abc", "b", "ba", "c", "z", "é", "中"]
IDS64 = list(range(16)) + [2 ** 31 - 1, -2 ** 31, 2 ** 62, -2 ** 62]
IDS32 = list(range(16)) + [2 ** 31 - 1, -2 ** 31]
OPS = ["eq", "noteq", "gt", "ge", "lt", "le", "any", "notany", "inrange", "notinrange"]


class Doc(object):
    pass


def gen_query(rng, used):
    op = rng.choice(OPS)
    n = len(INT_POOL)

    def const():
        return rng.choice(used) if used and rng.random() < 0.6 else rng.randrange(n)
    if op in ("any", "notany"):
        k = rng.choice([0, 1, 1, 2, 3, 4])
        cs = [const() for _ in range(k)]
        if cs and rng.random() < 0.2:
            cs.append(cs[0])
        return [op] + cs
    if op in ("inrange", "notinrange"):
        lo = "none" if rng.random() < 0.15 else const()
        hi = "none" if rng.random() < 0.15 else const()
        # an exclusive flag on an open (None) bound is outside the property ("open or exclusive"):
        # BTrees then drops the extreme key; the model's values(min,max,excl) = filter assumes a bound
        return [op, lo, hi, 0 if lo == "none" else rng.randrange(2), 0 if hi == "none" else rng.randrange(2)]
    return [op, const()]


def gen_history(rng, tier, ids, nvals, maxlen):
    used = sorted(rng.sample(range(len(INT_POOL)), nvals))
    cmds = []
    for _ in range(rng.randrange(5, maxlen)):
        r = rng.random()
        d = rng.choice(ids)
        if r < 0.03:
            cmds.append(["reset"])
        elif r < 0.13:
            cmds.append(["unindex", d if rng.random() < 0.5 else rng.choice(ids)])
        elif r < 0.33:
            cmds.append(["index", d, "none"])
        else:
            cmds.append(["index", d, rng.choice(used)])
        if rng.random() < 0.25:
            for _ in range(rng.randrange(1, 4)):
                cmds.append([rng.choice(["q", "qx"])] + gen_query(rng, used))
    for op in OPS:
        q = gen_query(rng, used)
        while q[0] != op:
            q = gen_query(rng, used)
        cmds.append(["q"] + q)
        cmds.append(["qx"] + q)
    return cmds


def gen(rng, tier, idx):
    fam = rng.choice([32, 64])
    ids = IDS32 if fam == 32 else IDS64
    if rng.random() < 0.5:
        ids = ids[:rng.randrange(3, 10)]
    maxlen = 60 if tier == "quick" or rng.random() < 0.9 else 400
    cfg = [["cfg", "family", fam], ["cfg", "vtype", rng.choice(["int", "str"])],
           ["cfg", "disc", rng.choice(["attr", "callable"])], ["cfg", "opt", rng.randrange(2)]]
    return {"session": "field", "cfg": cfg, "cmds": gen_history(rng, tier, ids, rng.randrange(3, 9), maxlen)}


def cfgdict(case):
    return {c[1]: c[2] for c in case.get("cfg", [])}


class FieldImpl(object):
    def __init__(self, hyp, cfg):
        import BTrees
        from hypatia.field import FieldIndex
        self.pool = STR_POOL if cfg.get("vtype") == "str" else INT_POOL
        self.rank = {repr(v): i for i, v in enumerate(self.pool)}
        fam = BTrees.family32 if cfg.get("family") == 32 else BTrees.family64
        if cfg.get("disc") == "callable":
            disc = lambda obj, default: getattr(obj, "x", default)  # noqa: E731
        else:
            disc = "x"
        self.opt = bool(cfg.get("opt", 1))
        self.mk = lambda: FieldIndex(disc, family=fam)
        self.idx = self.mk()
        self.current = {}

    def val(self, r):
        return None if r == "none" else self.pool[r]

    def doc(self, r):
        o = Doc()
        if r != "none":
            o.x = self.pool[r]
        return o

    def query(self, via_object, q):
        idx = self.idx
        op = q[0]
        if op in ("any", "notany"):
            args = ([self.pool[c] for c in q[1:]],)
        elif op in ("inrange", "notinrange"):
            args = (self.val(q[1]), self.val(q[2]), bool(q[3]), bool(q[4]))
        elif op == "eqtuple":
            return idset(idx.applyEq((self.pool[q[1]], self.pool[q[2]])))
        else:
            args = (self.pool[q[1]],)
        if via_object:
            rs = getattr(idx, op)(*args).execute(optimize=self.opt)
            ids = list(rs.ids)
            if len(rs) != len(ids):
                return "len-mismatch %d %d" % (len(rs), len(ids))
            return idset(ids)
        name = {"eq": "applyEq", "noteq": "applyNotEq", "gt": "applyGt", "ge": "applyGe", "lt": "applyLt",
                "le": "applyLe", "any": "applyAny", "notany": "applyNotAny", "inrange": "applyInRange",
                "notinrange": "applyNotInRange"}[op]
        return idset(getattr(idx, name)(*args))

    def obs(self, idx=None):
        idx = idx or self.idx
        uv = [self.rank[repr(v)] for v in idx.unique_values()]
        return "indexed=%s ni=%s docids=%s ic=%d nic=%d dc=%d wc=%d uv=[%s]" % (
            idset(idx.indexed()), idset(idx.not_indexed()), idset(idx.docids()), idx.indexed_count(),
            idx.not_indexed_count(), idx.docids_count(), idx.word_count(), " ".join(map(str, sorted(uv))))

    def execute(self, c):
        try:
            op = c[0]
            if op == "index":
                self.current[c[1]] = c[2]
                self.idx.index_doc(c[1], self.doc(c[2]))
                return "ok"
            if op == "reindex":
                self.current[c[1]] = c[2]
                self.idx.reindex_doc(c[1], self.doc(c[2]))
                return "ok"
            if op == "unindex":
                self.current.pop(c[1], None)
                self.idx.unindex_doc(c[1])
                return "ok"
            if op == "reset":
                self.current = {}
                self.idx.reset()
                return "ok"
            if op == "obsfresh":
                fresh = self.mk()
                for d, r in self.current.items():
                    fresh.index_doc(d, self.doc(r))
                return self.obs(fresh)
            if op == "q":
                return self.query(False, c[1:])
            if op == "qx":
                return self.query(True, c[1:])
            if op == "obs":
                return self.obs()
            if op == "repr":
                marker = object()
                r = self.idx.document_repr(c[1], marker)
                return "none" if r is marker else str(self.rank.get(r, "?" + r))
        except Exception as e:
            return exc_name(e)
        raise ValueError(c)


def impl_run(hyp, case):
    im = FieldImpl(hyp, cfgdict(case))
    return [im.execute(c) for c in case["cmds"]]


def nontrivial(case, outs):
    answers = {o for c, o in zip(case["cmds"], outs) if c[0] in ("q", "qx")}
    return len(answers) >= 3 and any(o not in ("{}",) for o in answers)


def features(case, outs):
    f = ["family:%s" % cfgdict(case).get("family"), "vtype:%s" % cfgdict(case).get("vtype")]
    last = {}
    for c, o in zip(case["cmds"], outs):
        if c[0] in ("q", "qx"):
            f.append("%s:%s:%s" % (c[0], c[1], "empty" if o == "{}" else "nonempty" if o.startswith("{") else o))
            if c[1] in ("inrange", "notinrange") and c[2] != "none" and c[3] != "none" and c[2] > c[3]:
                f.append("inverted-range")
        elif c[0] == "index":
            prev = last.get(c[1], "unknown")
            now = "none" if c[2] == "none" else "val"
            f.append("index:%s->%s%s" % ("none" if prev == "none" else "unknown" if prev == "unknown" else "val", now,
                                         "(same)" if prev == c[2] and now == "val" else ""))
            last[c[1]] = c[2]
        elif c[0] == "unindex":
            f.append("unindex:%s" % ("known" if c[1] in last else "unknown"))
            last.pop(c[1], None)
        elif c[0] == "reset":
            last = {}
            f.append("reset")
        if isinstance(o, str) and o.startswith("err"):
            f.append(o)
    return f


def classify(case, i, impl, model, spec):
    c = case["cmds"][i]
    if c[0] in ("q", "qx") and c[1] == "eqtuple":
        return "D13"
    return None


def witnesses():
    return [("D13", {"session": "field", "cfg": [["cfg", "family", 64], ["cfg", "vtype", "int"]],
                     "cmds": [["index", 1, 3], ["index", 2, 5], ["index", 3, 8], ["q", "eqtuple", 3, 5]]})]
