"""C02  Keyword index answers Eq/Any/All and negations exactly, after any history."""
from lib.core import exc_name, idset

ID = "C02"
AUDIT_IMPORTS = ["HypatiaProofs.Properties.C02"]
THEOREMS = ["Hyp.Keyword." + t for t in (
    "c02_refinement", "c02_eq", "c02_any", "c02_all", "c02_all_nil", "c02_any_nil", "c02_docids",
    "c02_noteq", "c02_notany", "c02_notall", "c02_notall_nil", "c02_no_stale", "c02_no_keyerror",
    "c02_erase_step", "c02_erase_run", "c02_erase_view", "c02_representation_independent",
    "c02_index_entry", "c02_query_entry_partial", "c02_notall_object_is_all", "c02_notall_object_differs")]
CASES = {"quick": 8000, "thorough": 150000}
BUDGET_S = {"quick": 40, "thorough": 700}
RULE = ("histories of 5-60 (thorough: up to 400) index/reindex/unindex/reset/optimize/set-threshold calls over "
        "docids 0..15 plus extreme ids and 3-7 keywords (str or int, ranked for the model); a document's next "
        "keyword list is derived from its current one (grow, shrink, replace, same, reordered, with duplicates, "
        "empty), 12% withdrawn (discriminator default), 10% unindex (half unknown ids), 3% reset, 2% str value "
        "(TypeError); tree_threshold from {1,2,3,5,64} set on the instance at the start and changed at random "
        "points, optimize() at random points; after each op with prob. 1/4 and at the end Eq/NotEq/Any/NotAny/"
        "All/NotAll via index.applyX and via index.X(..).execute() with present/absent/repeated keywords and "
        "the empty list; both BTrees families; list and tuple values; attribute and callable discriminators; "
        "occasionally the posting representations are compared too. non-trivial = the answers contain at "
        "least one non-empty and three different id sets")
LEVEL_TEXT = ("Lean 4 refinement proof: for every history (any tree_threshold, optimize() anywhere) the model of "
              "KeywordIndex, with its posting representation erased, represents the history's document table "
              "(invariant by induction over operations); Eq/Any/All and the negations return exactly the "
              "specified ids; erasing representation tags commutes with every operation and no query reads a "
              "tag. The model is tied to hypatia/keyword by a differential run of the real KeywordIndex against "
              "the compiled model and against the specification's answer")
LEVEL_NOTE = ("trusted: Lean kernel (propext, Quot.sound, Classical.choice), BTrees semantics as modelled "
              "(OO.Set dedup, difference/intersection/multiunion/union = set algebra, len), sampled "
              "correspondence, the harness; keywords are ranked to Int for the driver. NotAll through the query "
              "object is the listed finding D2 (the index entry point applyNotAll is proved at full strength)")
TECHNIQUE = "Lean 4 refinement invariant by induction over operation histories + differential correspondence"

STR_POOL = ["", "a", "ab", "abc", "b", "é", "中", "A", "z", "a:b"]
INT_POOL = [-7, 0, 1, 2, 3, 5, 8, 100, 2 ** 40, -2 ** 33]
IDS64 = list(range(16)) + [2 ** 31 - 1, -2 ** 31, 2 ** 62, -2 ** 62]
IDS32 = list(range(16)) + [2 ** 31 - 1, -2 ** 31]
QOPS = ["eq", "noteq", "any", "notany", "all", "notall"]
THRS = [1, 2, 3, 5, 64]


class Doc(object):
    pass


def gen_query(rng, used, op=None, cur=None):
    op = op or rng.choice(QOPS)
    n = len(STR_POOL)
    sets = [sorted(v) for v in (cur or {}).values() if v]
    if sets and op not in ("eq", "noteq") and rng.random() < 0.35:
        # keywords of one document: 'all' answers are non-empty, 'any' hits several postings
        ks = rng.choice(sets)
        ks = rng.sample(ks, rng.randrange(1, len(ks) + 1))
        if rng.random() < 0.3:
            ks.append(rng.choice(ks))
        if rng.random() < 0.2:
            ks.append(rng.randrange(n))
        return [op] + ks

    def const():
        return rng.choice(used) if used and rng.random() < 0.7 else rng.randrange(n)
    if op in ("eq", "noteq"):
        return [op, const()]
    k = rng.choice([0, 1, 1, 2, 2, 3, 4])
    ks = [const() for _ in range(k)]
    if ks and rng.random() < 0.25:
        ks.insert(rng.randrange(len(ks) + 1), rng.choice(ks))
    return [op] + ks


def next_keywords(rng, used, cur):
    """the next keyword list of a document whose current keyword set is `cur`"""
    cur = list(cur)
    r = rng.random()
    if not cur or r < 0.15:
        new = rng.sample(used, rng.randrange(1, min(len(used), 4) + 1))          # fresh / replaced
    elif r < 0.35:
        new = cur + rng.sample(used, rng.randrange(1, 3))                           # grow
    elif r < 0.55:
        new = rng.sample(cur, rng.randrange(1, len(cur) + 1))                       # shrink (or same set)
    elif r < 0.65:
        new = cur[:]                                                                # same
        rng.shuffle(new)
    elif r < 0.8:
        keep = rng.sample(cur, rng.randrange(0, len(cur)))                          # partly replaced
        new = keep + rng.sample(used, rng.randrange(1, 3))
    else:
        new = [k for k in used if k not in cur] or cur[:]                           # disjoint
    if rng.random() < 0.3:
        new = new + [rng.choice(new) for _ in range(rng.randrange(1, 3))]           # duplicates
        rng.shuffle(new)
    return new


def gen_history(rng, tier, ids, nkw, maxlen):
    used = sorted(rng.sample(range(len(STR_POOL)), nkw))
    cmds = []
    cur = {}
    for _ in range(rng.randrange(5, maxlen)):
        r = rng.random()
        d = rng.choice(ids)
        if cur and rng.random() < 0.5:
            d = rng.choice(sorted(cur))
        if r < 0.03:
            cmds.append(["reset"])
            cur = {}
        elif r < 0.13:
            d2 = d if rng.random() < 0.5 else rng.choice(ids)
            cmds.append(["unindex", d2])
            cur.pop(d2, None)
        elif r < 0.25:
            cmds.append([rng.choice(["index", "reindex"]), d, "none"])
            cur.pop(d, None)
        elif r < 0.32:
            cmds.append([rng.choice(["index", "reindex"]), d])                      # empty keyword list
            cur.pop(d, None)
        elif r < 0.34:
            cmds.append(["indexstr", d])
        elif r < 0.40:
            cmds.append(["optimize"])
        elif r < 0.46:
            cmds.append(["setthr", rng.choice(THRS)])
            if rng.random() < 0.5:
                cmds.append(["optimize"])
        else:
            new = next_keywords(rng, used, sorted(cur.get(d, ())))
            cmds.append([rng.choice(["index", "index", "reindex"]), d] + new)
            cur[d] = set(new)
        if rng.random() < 0.25:
            for _ in range(rng.randrange(1, 4)):
                cmds.append([rng.choice(["q", "qx"])] + gen_query(rng, used, cur=cur))
        if rng.random() < 0.04:
            cmds.append(["tags"])
    for op in QOPS:
        q = gen_query(rng, used, op, cur=cur)
        cmds.append(["q"] + q)
        cmds.append(["qx"] + q)
    cmds.append(["q", "all"])
    cmds.append(["q", "notall"])
    cmds.append(["tags"])
    return cmds


def gen(rng, tier, idx):
    fam = rng.choice([32, 64])
    ids = IDS32 if fam == 32 else IDS64
    if rng.random() < 0.6:
        ids = ids[:rng.randrange(3, 10)]
    maxlen = 60 if tier == "quick" or rng.random() < 0.9 else 400
    cfg = [["cfg", "family", fam], ["cfg", "vtype", rng.choice(["int", "str"])],
           ["cfg", "disc", rng.choice(["attr", "callable"])], ["cfg", "opt", rng.randrange(2)],
           ["cfg", "thr", rng.choice(THRS)]]
    return {"session": "keyword", "cfg": cfg, "cmds": gen_history(rng, tier, ids, rng.randrange(3, 8), maxlen)}


def cfgdict(case):
    return {c[1]: c[2] for c in case.get("cfg", [])}


class KeywordImpl(object):
    def __init__(self, hyp, cfg):
        import BTrees
        from hypatia.keyword import KeywordIndex
        self.pool = STR_POOL if cfg.get("vtype", "str") == "str" else INT_POOL
        self.rank = {repr(v): i for i, v in enumerate(self.pool)}
        self.fam = BTrees.family32 if cfg.get("family") == 32 else BTrees.family64
        if cfg.get("disc") == "callable":
            disc = lambda obj, default: getattr(obj, "x", default)  # noqa: E731
        else:
            disc = "x"
        self.opt = bool(cfg.get("opt", 1))
        self.idx = KeywordIndex(disc, family=self.fam)
        if "thr" in cfg:
            self.idx.tree_threshold = int(cfg["thr"])
        self.n = 0

    def doc(self, toks):
        o = Doc()
        self.n += 1
        if toks == ["none"]:
            return o
        kws = [self.pool[r] for r in toks]
        o.x = kws if self.n % 2 else tuple(kws)
        return o

    def query(self, via_object, q):
        idx = self.idx
        op = q[0]
        arg = self.pool[q[1]] if op in ("eq", "noteq") else [self.pool[c] for c in q[1:]]
        if via_object:
            rs = getattr(idx, op)(arg).execute(optimize=self.opt)
            ids = list(rs.ids)
            if len(rs) != len(ids):
                return "len-mismatch %d %d" % (len(rs), len(ids))
            return idset(ids)
        name = {"eq": "applyEq", "noteq": "applyNotEq", "any": "applyAny", "notany": "applyNotAny",
                "all": "applyAll", "notall": "applyNotAll"}[op]
        return idset(getattr(idx, name)(arg))

    def obs(self):
        idx = self.idx
        uv = [self.rank[repr(v)] for v in idx.unique_values()]
        return "indexed=%s ni=%s docids=%s ic=%d nic=%d dc=%d wc=%d uv=[%s]" % (
            idset(idx.indexed()), idset(idx.not_indexed()), idset(idx.docids()), idx.indexed_count(),
            idx.not_indexed_count(), idx.docids_count(), idx.word_count(), " ".join(map(str, sorted(uv))))

    def tags(self):
        """posting representations; not part of the public API: skipped (None) when not available"""
        if getattr(self, "stale", False):
            return None
        try:
            items = list(self.idx._fwd_index.items())
            Set, TreeSet = self.fam.IF.Set, self.fam.IF.TreeSet
            out = []
            for k, p in items:
                if len(p) == 0:
                    continue        # a stale empty posting is a bookkeeping (C06) matter
                t = "T" if isinstance(p, TreeSet) else "S" if isinstance(p, Set) else None
                if t is None:
                    return None
                out.append((self.rank[repr(k)], "%d:%s%d" % (self.rank[repr(k)], t, len(p))))
            return ("tags " + " ".join(s for _, s in sorted(out))).rstrip() if out else "tags "
        except (AttributeError, KeyError):
            return None

    def latch(self):
        """an empty posting left in the forward map is a bookkeeping (C06) matter; it can also change which
        container a later insertion re-uses, so from then on the representation probe is not compared"""
        try:
            if any(len(p) == 0 for p in self.idx._fwd_index.values()):
                self.stale = True
        except AttributeError:
            self.stale = True

    def execute(self, c):
        r = self.execute1(c)
        if c[0] in ("index", "reindex", "unindex", "indexstr"):
            self.latch()
        return r

    def execute1(self, c):
        try:
            op = c[0]
            if op == "index":
                self.idx.index_doc(c[1], self.doc(c[2:]))
                return "ok"
            if op == "reindex":
                self.idx.reindex_doc(c[1], self.doc(c[2:]))
                return "ok"
            if op == "indexstr":
                o = Doc()
                o.x = "ab"
                self.idx.index_doc(c[1], o)
                return "ok"
            if op == "unindex":
                self.idx.unindex_doc(c[1])
                return "ok"
            if op == "reset":
                self.idx.reset()
                return "ok"
            if op == "optimize":
                self.idx.optimize()
                return "ok"
            if op == "setthr":
                self.idx.tree_threshold = c[1]
                return "ok"
            if op == "q":
                return self.query(False, c[1:])
            if op == "qx":
                return self.query(True, c[1:])
            if op == "obs":
                return self.obs()
            if op == "tags":
                return self.tags()
        except Exception as e:
            return exc_name(e)
        raise ValueError(c)


def impl_run(hyp, case):
    im = KeywordImpl(hyp, cfgdict(case))
    return [im.execute(c) for c in case["cmds"]]


def same(a, b):
    # posting representations: the specification leaves them free ("tags-any"); the model's choice must
    # still be the implementation's (a mismatch is correspondence drift, not a failing input)
    if isinstance(a, str) and a.startswith("tags"):
        return b == "tags-any" or a.strip() == b.strip()
    return a == b


def neighbourhood(rng, case):
    """a representation-only divergence was found: look nearby for an input on which an answer differs
    (drop the representation probes, query every keyword and the known ids after every operation)"""
    cmds = []
    for c in case["cmds"]:
        if c[0] == "tags":
            continue
        cmds.append(c)
        if c[0] not in ("q", "qx"):
            for k in range(len(STR_POOL)):
                if rng.random() < 0.8:
                    cmds.append(["q", "eq", k])
            cmds.append(["q", "notall"])
            cmds.append(["q", "noteq", rng.randrange(len(STR_POOL))])
    return dict(case, cmds=cmds)


def nontrivial(case, outs):
    answers = {o for c, o in zip(case["cmds"], outs) if c[0] in ("q", "qx")}
    return len(answers) >= 4 and any(o not in ("{}",) for o in answers)


def features(case, outs):
    cfg = cfgdict(case)
    f = ["family:%s" % cfg.get("family"), "vtype:%s" % cfg.get("vtype"), "thr0:%s" % cfg.get("thr")]
    cur = {}
    for c, o in zip(case["cmds"], outs):
        if c[0] in ("q", "qx"):
            shape = "" if c[1] in ("eq", "noteq") else ":n=%d%s" % (min(len(c) - 2, 3),
                                                                   "dup" if len(set(c[2:])) < len(c) - 2 else "")
            f.append("%s:%s%s:%s" % (c[0], c[1], shape,
                                     "empty" if o == "{}" else "nonempty" if o.startswith("{") else o))
        elif c[0] in ("index", "reindex"):
            prev = cur.get(c[1], "unknown")
            if c[2:] == ["none"]:
                now = "none"
                cur[c[1]] = "none"
            elif not c[2:]:
                now = "[]"
                cur.pop(c[1], None)
            else:
                new = set(c[2:])
                if isinstance(prev, set):
                    now = ("same" if new == prev else "grow" if new > prev else "shrink" if new < prev
                           else "disjoint" if not (new & prev) else "mixed")
                else:
                    now = "kw"
                if len(new) < len(c[2:]):
                    now += "+dup"
                cur[c[1]] = new
            f.append("index:%s->%s" % ("kw" if isinstance(prev, set) else prev, now))
        elif c[0] == "unindex":
            f.append("unindex:%s" % ("known" if c[1] in cur else "unknown"))
            cur.pop(c[1], None)
        elif c[0] == "reset":
            cur = {}
            f.append("reset")
        elif c[0] == "indexstr":
            f.append("indexstr:%s" % ("withdrawn" if cur.get(c[1]) == "none" else "other"))
            if cur.get(c[1]) == "none":
                cur.pop(c[1])
        elif c[0] in ("optimize", "setthr"):
            f.append(c[0])
        elif c[0] == "tags" and isinstance(o, str):
            toks = o.split()[1:]
            f.append("tags:%s" % ("mixed" if any(":T" in t for t in toks) and any(":S" in t for t in toks)
                                  else "tree" if any(":T" in t for t in toks) else "set" if toks else "none"))
        if isinstance(o, str) and o.startswith("err"):
            f.append(o)
    return f


def classify(case, i, impl, model, spec):
    c = case["cmds"][i]
    if c[0] == "qx" and c[1] == "notall":
        return "D2"
    return None


def witnesses():
    return [("D2", {"session": "keyword", "cfg": [["cfg", "family", 64], ["cfg", "vtype", "str"]],
                    "cmds": [["index", 1, 1, 2], ["index", 2, 1], ["index", 3, 4], ["qx", "notall", 1, 2],
                             ["q", "notall", 1, 2]]})]
