"""C02  Keyword index answers Eq/Any/All and negations exactly, after any history.

Generator modes (measured, quick tier, seed 0, 8000 cases): small 84%, bulk-hot 12%, bulk-wide 4%; the largest
posting reached 65-120 docids in 7%, 121-300 in 5%, > 300 in 0.1% of the cases (7.5% of all cases reach >= 65
docids under the class default tree_threshold, i.e. without an instance attribute); > 30 distinct keywords in 4%;
> 120 withdrawn documents in 1.3%; keyword kinds str 25%, int 15%, num 15%, tuple 15%, bytes 10%, wide 10%,
widestr 10%.

Size- / value- / entry-point-dependent mutations tried on scratch copies (VERIF_REPO=/var/tmp/mut_strong1_<N>,
deleted afterwards), all VIOLATION with a shrunk replay, quick tier, seed 0:
  M3  unindex_doc skips postings with more than 100 docids ("cleaned up lazily")
  M4  normalize() truncates float keywords to int (1.5 and 1 become one keyword; needs the num pool)
  M6  BaseIndexMixin.docids drops not_indexed once more than 150 documents are indexed
  M7  search(.., 'and') returns the smallest set without intersecting when it has more than 80 docids
  M10 apply({'query': [..]}) defaults to operator 'or'
  M12 docids() cached on (indexed_count, not_indexed_count)
and the seeded changes C02_B (demotion to Set on unindex keeps working on the detached TreeSet; needs a posting
that was promoted) and C02_F (applyEq hands the bare keyword to apply(): a tuple / bytes keyword is taken as a list).

Round 4: "an iterable of keywords" - applyAny/applyAll/applyNotAny/applyNotAll, any()/all()/notany()/notall() and
apply() (bare and {'query': ..}) get the keywords as list, tuple, set, frozenset, dict keys view, generator, iterator
or map object, chosen by a hash of the command (props/c01.as_iterable); measured quick seed 0: of 163,000 such
arguments list 18%, set 21% (the empty argument always hashes to set), generator 11%, iterator 10%, map 9%, tuple 10%,
frozenset 10%, dict keys 10%.  Seeded C02_G (search(.., 'and') walks the query twice: a one-shot iterable is
exhausted by the pre-check) was missed before and is caught now; one more of the class, VIOLATION on quick seed 0 in
C02 and C13:  B  search() validates the keywords in a first pass over the query (both operators).
"""
import importlib

from lib import zbox
from lib.core import exc_name, idset

ID = "C02"
AUDIT_IMPORTS = ["HypatiaProofs.Properties.C02"]
THEOREMS = ["Hyp.Keyword." + t for t in (
    "c02_refinement", "c02_eq", "c02_any", "c02_all", "c02_all_nil", "c02_any_nil", "c02_docids",
    "c02_noteq", "c02_notany", "c02_notall", "c02_notall_nil", "c02_no_stale", "c02_no_keyerror",
    "c02_erase_step", "c02_erase_run", "c02_erase_view", "c02_representation_independent",
    "c02_index_entry", "c02_query_entry_partial", "c02_notall_object_is_all", "c02_notall_object_differs")]
CASES = {"quick": 8000, "thorough": 150000}
BUDGET_S = {"quick": 34, "thorough": 660}
RULE = ("small mode (84%): histories of 5-60 (thorough: up to 400) index_doc/reindex_doc/unindex_doc/reset/optimize/"
        "set-threshold calls over docids 0..15 plus extreme ids and 3-7 keywords; a document's next keyword list "
        "is derived from its current one (grow, shrink, replace, same, reordered, with duplicates, empty), 12% "
        "withdrawn (discriminator default), 10% unindex (half unknown ids, sometimes twice), 3% reset, 2% str "
        "value (TypeError); tree_threshold from {1,2,3,5,64} set on the instance (15%: class default) and changed "
        "at random points, optimize() at random points. bulk-hot mode (12%): 70-400 documents (dense or strided "
        "docid runs anywhere in the family's range, any order) carry 1-4 shared keywords so that one posting "
        "holds 65-400 docids, 60% of them under the class default tree_threshold (others 64/100/32/200/5 on the "
        "instance), 12% with 121-199 withdrawn documents, 45% with a drain that takes the big posting back to "
        "58-66 docids (or to nothing) by unindex / withdrawal / empty list / re-index without the keyword, then a "
        "small history on first/last/random bulk ids and fresh ids; bulk-wide mode (4%): 35-110 distinct keywords. "
        "Keyword pools (ranked to Int for the model; each pool mutually orderable): str (incl. ''), int, tuples of "
        "strings incl. () (iterable keywords), bytes incl. b'', num (1 == 1.0 == True etc. are ONE keyword whose "
        "spellings take turns; huge, negative, +-inf), 120 ints / 120 strings. After each op with prob. 1/4 and at "
        "the end Eq/NotEq/Any/NotAny/All/NotAll via index.applyX and via index.X(..).execute() with present/"
        "absent/repeated keywords and the empty list, the argument handed over as list / tuple / set / frozenset / dict "
        "keys view / generator / iterator / map (hash of the command); KeywordIndex.apply() itself with a list, a tuple, {'query': "
        "..} with operator and/or/absent, a bare string; the enumeration tuple (sometimes twice in a row); both "
        "BTrees families; list, tuple and set values; attribute and callable discriminators; occasionally the "
        "posting representations are compared too. non-trivial = the answers contain at least one non-empty and "
        "four different id sets")
LEVEL_TEXT = ("Lean 4 refinement proof: for every history (any tree_threshold, optimize() anywhere) the model of "
              "KeywordIndex, with its posting representation erased, represents the history's document table "
              "(invariant by induction over operations); Eq/Any/All and the negations return exactly the "
              "specified ids; erasing representation tags commutes with every operation and no query reads a "
              "tag. The model is tied to hypatia/keyword by a differential run of the real KeywordIndex against "
              "the compiled model and against the specification's answer")
LEVEL_NOTE = ("trusted: Lean kernel (propext, Quot.sound, Classical.choice), BTrees semantics as modelled "
              "(OO.Set dedup, difference/intersection/multiunion/union = set algebra, len), sampled "
              "correspondence, the harness; keywords are ranked to Int for the driver. NotAll through the query "
              "object is the listed finding D2 (the index entry point applyNotAll is proved at full strength)")
TECHNIQUE = "Lean 4 refinement invariant by induction over operation histories + differential correspondence"

c01 = importlib.import_module("props.c01")
Alt = c01.Alt

STR_POOL = ["", "a", "ab", "abc", "b", "é", "中", "A", "z", "a:b"]
INT_POOL = [-7, 0, 1, 2, 3, 5, 8, 100, 2 ** 40, -2 ** 33]
# keyword pools (the rank = position is what the model sees; within a pool everything is mutually orderable,
# which is all the OOBTree / OOSet need).  Beyond str and int:
#   tuple  keywords that are themselves iterable: tuples of strings (tag paths), the empty tuple
#   bytes  byte strings (iterable, not str), incl. b''
#   num    ints / floats / bools mixed: 1, 1.0 and True are ONE keyword, huge and negative numbers, +-inf
#   wide / widestr   120 keywords: more keys than an OO bucket (30) holds
TUPLE_POOL = [(), ("",), ("a",), ("a", ""), ("a", "b"), ("a", "b", "c"), ("b",), ("lang", "en"), ("lang", "fr"),
              ("z",)]
POOLS = {k: [e if isinstance(e, Alt) else Alt((e,)) for e in v] for k, v in (
    ("str", STR_POOL), ("int", INT_POOL), ("tuple", TUPLE_POOL), ("bytes", c01.BYTES_POOL), ("num", c01.NUM_POOL),
    ("wide", c01.WIDE_POOL), ("widestr", c01.WIDESTR_POOL))}
VTYPES = ["str"] * 5 + ["int"] * 3 + ["tuple"] * 3 + ["bytes"] * 2 + ["num"] * 3 + ["wide"] * 2 + ["widestr"] * 2
IDS64 = list(range(16)) + [2 ** 31 - 1, -2 ** 31, 2 ** 62, -2 ** 62]
IDS32 = list(range(16)) + [2 ** 31 - 1, -2 ** 31]
QOPS = ["eq", "noteq", "any", "notany", "all", "notall"]
THRS = [1, 2, 3, 5, 64]
BULK_THRS = [64, 64, 64, 100, 32, 200, 5]
BULK_SHARE = 0.12


def pool_of(vtype):
    return POOLS[vtype or "str"]


def rank_table(vtype):
    return {repr(a): r for r, alts in enumerate(pool_of(vtype)) for a in alts}


class Doc(object):
    pass


def gen_query(rng, used, op=None, cur=None, npool=len(STR_POOL)):
    op = op or rng.choice(QOPS)
    n = npool
    sets = None
    if cur and op not in ("eq", "noteq") and rng.random() < 0.35:
        ds = sorted(cur)
        sets = [sorted(cur[d]) for d in (ds if len(ds) < 40 else rng.sample(ds, 8)) if cur[d]]
    if sets:
        # keywords of one document: 'all' answers are non-empty, 'any' hits several postings
        ks = rng.choice(sets)
        ks = rng.sample(ks, rng.randrange(1, len(ks) + 1))
        if rng.random() < 0.3:
            ks.append(rng.choice(ks))
        if rng.random() < 0.2:
            ks.append(rng.randrange(n))
        return [op] + ks

    def const():
        return rng.choice(used) if used and rng.random() < 0.7 else rng.randrange(n)
    if op in ("eq", "noteq"):
        return [op, const()]
    k = rng.choice([0, 1, 1, 2, 2, 3, 4])
    ks = [const() for _ in range(k)]
    if ks and rng.random() < 0.25:
        ks.insert(rng.randrange(len(ks) + 1), rng.choice(ks))
    return [op] + ks


def gen_apply(rng, used, cur, npool, vtype):
    """KeywordIndex.apply() called directly: list / tuple (= and), {'query': ..} with and without 'operator',
    a bare string (= one keyword)"""
    q = gen_query(rng, used, rng.choice(["eq", "any", "all", "all"]), cur, npool)
    if q[0] == "eq":
        return ["qa", "s" if vtype in ("str", "widestr") and rng.random() < 0.6 else "l", "eq", q[1]]
    if q[0] == "any":
        return ["qa", "do", "any"] + q[1:]
    return ["qa", rng.choice(["l", "t", "i", "d", "da"]), "all"] + q[1:]


def gen_queries(rng, used, cur, npool, vtype, cmds, k):
    for _ in range(k):
        if rng.random() < 0.12:
            cmds.append(gen_apply(rng, used, cur, npool, vtype))
        else:
            cmds.append([rng.choice(["q", "qx"])] + gen_query(rng, used, cur=cur, npool=npool))


def battery(rng, used, cur, npool, vtype, cmds):
    for op in QOPS:
        q = gen_query(rng, used, op, cur=cur, npool=npool)
        cmds.append(["q"] + q)
        cmds.append(["qx"] + q)
    cmds.append(["q", "all"])
    cmds.append(["q", "notall"])
    cmds.append(gen_apply(rng, used, cur, npool, vtype))
    cmds.append(["obs"])
    cmds.append(["tags"])


def next_keywords(rng, used, cur):
    """the next keyword list of a document whose current keyword set is `cur`"""
    cur = list(cur)
    r = rng.random()
    if not cur or r < 0.15:
        new = rng.sample(used, rng.randrange(1, min(len(used), 4) + 1))          # fresh / replaced
    elif r < 0.35:
        new = cur + rng.sample(used, rng.randrange(1, min(len(used), 2) + 1))       # grow
    elif r < 0.55:
        new = rng.sample(cur, rng.randrange(1, len(cur) + 1))                       # shrink (or same set)
    elif r < 0.65:
        new = cur[:]                                                                # same
        rng.shuffle(new)
    elif r < 0.8:
        keep = rng.sample(cur, rng.randrange(0, len(cur)))                          # partly replaced
        new = keep + rng.sample(used, rng.randrange(1, min(len(used), 2) + 1))
    else:
        new = [k for k in used if k not in cur][:6] or cur[:]                       # disjoint
    if rng.random() < 0.3:
        new = new + [rng.choice(new) for _ in range(rng.randrange(1, 3))]           # duplicates
        rng.shuffle(new)
    return new


def small_ops(rng, ids, used, npool, vtype, cmds, cur, nops, thrs=THRS, pq=0.25):
    for _ in range(nops):
        r = rng.random()
        d = rng.choice(ids)
        if cur and rng.random() < 0.5:
            d = rng.choice(sorted(cur)) if len(cur) < 40 else rng.choice(ids)
        if r < 0.03:
            cmds.append(["reset"])
            cur.clear()
        elif r < 0.13:
            d2 = d if rng.random() < 0.5 else rng.choice(ids)
            cmds.append(["unindex", d2])
            cur.pop(d2, None)
            if rng.random() < 0.15:
                cmds.append(["unindex", d2])                                        # once more: now unknown
        elif r < 0.25:
            cmds.append([rng.choice(["index", "reindex"]), d, "none"])
            cur.pop(d, None)
        elif r < 0.32:
            cmds.append([rng.choice(["index", "reindex"]), d])                      # empty keyword list
            cur.pop(d, None)
        elif r < 0.34:
            cmds.append(["indexstr", d])
        elif r < 0.40:
            cmds.append(["optimize"])
        elif r < 0.46:
            cmds.append(["setthr", rng.choice(thrs)])
            if rng.random() < 0.5:
                cmds.append(["optimize"])
        else:
            new = next_keywords(rng, used, sorted(cur.get(d, ())))
            cmds.append([rng.choice(["index", "index", "reindex"]), d] + new)
            cur[d] = set(new)
        if rng.random() < pq:
            gen_queries(rng, used, cur, npool, vtype, cmds, rng.randrange(1, 4))
        if rng.random() < 0.04:
            cmds.append(["tags"])
        if rng.random() < 0.05:
            cmds.append(["obs"])
            if rng.random() < 0.3:
                cmds.append(["obs"])


def gen_history(rng, tier, ids, nkw, maxlen, npool=len(STR_POOL), vtype="str"):
    used = sorted(rng.sample(range(npool), min(nkw, npool)))
    cmds = []
    cur = {}
    small_ops(rng, ids, used, npool, vtype, cmds, cur, rng.randrange(5, maxlen))
    battery(rng, used, cur, npool, vtype, cmds)
    return cmds


def gen_bulk(rng, tier, fam, vtype, kind):
    """size-dependent behaviour.  `hot`: 70-400 documents carry 1-4 shared keywords, the largest posting holds at
    least 65 docids (Set -> TreeSet at tree_threshold = 64 by default, > 120 ints per set bucket); `wide`: 35-110
    distinct keywords (forward BTree beyond one bucket); optionally > 120 withdrawn documents; then a `drain` that
    brings the largest posting back to 58..66 docids by unindex / withdrawal / empty list / re-index without the
    keyword, an ordinary small history (with optimize and threshold changes) and the battery"""
    npool = len(pool_of(vtype))
    n = c01.bulk_sizes(rng, tier)
    ids = c01.bulk_ids(rng, fam, n)
    if kind == "wide":
        used = sorted(rng.sample(range(npool), rng.randrange(35, min(npool, 110) + 1)))
        hot = used[:1]
        kws = [rng.sample(used, rng.choice([1, 1, 2, 3])) for _ in range(n)]
    else:
        nhot = rng.choice([1, 2, 2, 3, 4])
        used = sorted(rng.sample(range(npool), min(npool, nhot + rng.randrange(0, 4))))
        hot = rng.sample(used, min(nhot, len(used)))
        s0 = rng.randrange(65, n + 1) if rng.random() < 0.7 else rng.randrange(65, min(n, 75) + 1)
        kws = []
        for i in range(n):
            ks = [hot[0]] if i < s0 else []
            ks += [h for h in hot[1:] if rng.random() < 0.5]
            if rng.random() < 0.1:
                ks.append(rng.choice(used))
            if not ks:
                ks = [rng.choice(hot[1:] or used)]
            if rng.random() < 0.1:
                ks.append(ks[0])
            rng.shuffle(ks)
            kws.append(ks)
    nnone = rng.randrange(121, 200) if rng.random() < 0.12 and kind != "wide" else rng.choice([0, 0, 1, 5])
    top = 2 ** 31 if fam == 32 else 2 ** 63
    extra = [ids[-1] + 1 + i for i in range(nnone)] if ids[-1] + nnone < top else [ids[0] - 1 - i for i in range(nnone)]
    pairs = list(zip(ids, kws)) + [(d, ["none"]) for d in extra]
    order = rng.random()
    if order < 0.5:
        rng.shuffle(pairs)
    elif order < 0.65:
        pairs.reverse()
    cmds = []
    cur = {}
    for d, ks in pairs:
        cmds.append(["index", d] + ks)
        if ks != ["none"]:
            cur[d] = set(ks)
    if rng.random() < 0.5:
        gen_queries(rng, used, cur, npool, vtype, cmds, 3)
    if rng.random() < 0.3:
        cmds.append(["tags"])
    if kind == "hot" and rng.random() < 0.45:
        members = [d for d in cur if hot[0] in cur[d]]
        rng.shuffle(members)
        target = 0 if rng.random() < 0.2 else rng.randrange(58, 67)     # 0: the big posting goes away entirely
        for d in members[target:]:
            r = rng.random()
            if r < 0.4:
                cmds.append(["unindex", d])
                cur.pop(d, None)
            elif r < 0.55:
                cmds.append(["index", d, "none"])
                cur.pop(d, None)
            elif r < 0.65:
                cmds.append(["index", d])
                cur.pop(d, None)
            else:
                ks = sorted(cur[d] - {hot[0]}) or [rng.choice([u for u in used if u != hot[0]] or [hot[0]])]
                if ks == [hot[0]]:
                    cmds.append(["unindex", d])
                    cur.pop(d, None)
                else:
                    cmds.append([rng.choice(["index", "reindex"]), d] + ks)
                    cur[d] = set(ks)
        if rng.random() < 0.3:
            cmds.append(["optimize"])
        gen_queries(rng, used, cur, npool, vtype, cmds, 2)
    fresh = [ids[-1] + 1000 + i for i in range(3)] if ids[-1] + 1003 < top else [ids[0] - 1000 - i for i in range(3)]
    some = sorted(set([ids[0], ids[-1]] + rng.sample(ids, 8) + fresh))
    small_ops(rng, some, used, npool, vtype, cmds, cur, rng.randrange(5, 30), thrs=BULK_THRS, pq=0.2)
    battery(rng, used, cur, npool, vtype, cmds)
    return cmds


def gen(rng, tier, idx):
    # 15% of the cases keep the index in a ZODB connection with commits / evictions / aborts in between
    return zbox.sprinkle(rng, gen_mem(rng, tier, idx), 0.15)


def gen_huge(rng, tier, fam):
    """a posting more than 1000 times larger than another one (2100-2600 documents carry the keyword H, one to
    three carry R, at least one of them without H): size-ratio-gated paths in the 'and' search, and read-only
    queries that must leave the small posting as it was (seeded C02_I filtered the live small posting in place)"""
    H, R, X = 0, 1, 2
    n = rng.randrange(2100, 2600)
    ids = list(range(10, 10 + n))
    cmds = [["index", d, H] + ([X] if rng.random() < 0.02 else []) for d in ids]
    rare = [5000 + i for i in range(rng.choice([1, 2, 3]))]
    for j, d in enumerate(rare):
        cmds.append(["index", d, R] + ([H] if j > 0 and rng.random() < 0.6 else []))
    if rng.random() < 0.5:
        cmds.append(["index", ids[0], H, R])
    for _ in range(2):
        for q in (["all", R, H], ["all", H, R], ["notall", R, H], ["eq", R], ["any", R, X], ["all", R, X, H],
                  ["eq", H], ["noteq", R], ["all", R]):
            cmds.append([rng.choice(["q", "qx"])] + q)
        cmds.append(["unindex", rng.choice(ids)])
    return cmds


def gen_mem(rng, tier, idx):
    fam = rng.choice([32, 64])
    if idx % 1000003 == 3 or (tier == "thorough" and idx % 1000003 % 97 == 3):
        return {"session": "keyword", "cfg": [["cfg", "family", fam], ["cfg", "vtype", "str"], ["cfg", "disc", "attr"],
                                              ["cfg", "opt", rng.randrange(2)], ["cfg", "mode", "huge-ratio"]],
                "cmds": gen_huge(rng, tier, fam)}
    vtype = rng.choice(VTYPES)
    cfg = [["cfg", "family", fam], ["cfg", "vtype", vtype],
           ["cfg", "disc", rng.choice(["attr", "callable"])], ["cfg", "opt", rng.randrange(2)]]
    if rng.random() < (0.35 if vtype in ("wide", "widestr") else BULK_SHARE):
        kind = "wide" if vtype in ("wide", "widestr") and rng.random() < 0.6 else "hot"
        # the class default tree_threshold (no instance attribute) in 60% of the bulk cases
        if rng.random() >= 0.6:
            cfg.append(["cfg", "thr", rng.choice(BULK_THRS)])
        return {"session": "keyword", "cfg": cfg + [["cfg", "mode", "bulk-" + kind]],
                "cmds": gen_bulk(rng, tier, fam, vtype, kind)}
    ids = IDS32 if fam == 32 else IDS64
    if rng.random() < 0.6:
        ids = ids[:rng.randrange(3, 10)]
    maxlen = 60 if tier == "quick" or rng.random() < 0.9 else 400
    if rng.random() < 0.85:
        cfg.append(["cfg", "thr", rng.choice(THRS)])
    return {"session": "keyword", "cfg": cfg,
            "cmds": gen_history(rng, tier, ids, rng.randrange(3, 8), maxlen, len(pool_of(vtype)), vtype)}


def model_cmd(c):
    """KeywordIndex.apply() forms named by what they mean: a list / tuple / {'query': ..} is All, operator 'or' is
    Any, a bare string or a one-element list is Eq"""
    if c[0] == "qa":
        return ["q", c[2]] + list(c[3:])
    return c


def cfgdict(case):
    return {c[1]: c[2] for c in case.get("cfg", [])}


class KeywordImpl(object):
    def __init__(self, hyp, cfg):
        import BTrees
        from hypatia.keyword import KeywordIndex
        self.vtype = cfg.get("vtype", "str")
        self.pool = pool_of(self.vtype)
        self.rank = rank_table(self.vtype)
        self.cfg = cfg
        self.fam = BTrees.family32 if cfg.get("family") == 32 else BTrees.family64
        if cfg.get("disc") == "callable":
            disc = zbox.disc_x
        else:
            disc = "x"
        self.opt = bool(cfg.get("opt", 1))
        self.idx = KeywordIndex(disc, family=self.fam)
        if "thr" in cfg:
            self.idx.tree_threshold = int(cfg["thr"])
        self.n = 0
        self.m = 0

    def kw(self, r):
        self.m += 1
        alts = self.pool[r]
        return alts[self.m % len(alts)]      # equal objects of different types (1, 1.0, True) take turns

    def doc(self, toks):
        o = Doc()
        self.n += 1
        if toks == ["none"]:
            return o
        kws = [self.kw(r) for r in toks]
        # the value is a list, a tuple or (non-empty) a set of keywords
        o.x = kws if self.n % 2 else set(kws) if kws and self.n % 6 == 0 else tuple(kws)
        return o

    def query(self, via_object, q):
        idx = self.idx
        op = q[0]
        # "an iterable of keywords": list, tuple, set, frozenset, dict keys view and the one-shot kinds (generator,
        # iterator, map), decided by a hash of the command (props/c01.py): the model sees the members
        arg = self.kw(q[1]) if op in ("eq", "noteq") else \
            c01.as_iterable(c01.shape_of([via_object] + list(q)), [self.kw(c) for c in q[1:]])
        if via_object:
            rs = getattr(idx, op)(arg).execute(optimize=self.opt)
            ids = list(rs.ids)
            if len(rs) != len(ids):
                return "len-mismatch %d %d" % (len(rs), len(ids))
            return idset(ids)
        name = {"eq": "applyEq", "noteq": "applyNotEq", "any": "applyAny", "notany": "applyNotAny",
                "all": "applyAll", "notall": "applyNotAll"}[op]
        return idset(getattr(idx, name)(arg))

    def apply_form(self, form, kind, args):
        ks = [self.kw(a) for a in args]
        if form == "s":
            return self.idx.apply(ks[0])
        if form == "l":
            return self.idx.apply(ks)
        if form == "t":
            return self.idx.apply(tuple(ks))
        it = c01.as_iterable(c01.shape_of([form, kind] + list(args)), ks)
        if form == "i":
            return self.idx.apply(it)
        if form == "d":
            return self.idx.apply({"query": it})
        if form == "da":
            return self.idx.apply({"query": it, "operator": "and"})
        if form == "do":
            return self.idx.apply({"query": it, "operator": "or"})
        raise ValueError(form)

    def obs(self):
        idx = self.idx
        uv = [self.rank[repr(v)] for v in idx.unique_values()]
        return "indexed=%s ni=%s docids=%s ic=%d nic=%d dc=%d wc=%d uv=[%s]" % (
            idset(idx.indexed()), idset(idx.not_indexed()), idset(idx.docids()), idx.indexed_count(),
            idx.not_indexed_count(), idx.docids_count(), idx.word_count(), " ".join(map(str, sorted(uv))))

    def tags(self):
        """posting representations; not part of the public API: skipped (None) when not available"""
        if getattr(self, "stale", False):
            return None
        if "thr" not in self.cfg and not getattr(self, "thr_set", False) and self.idx.tree_threshold != 64:
            return None         # class default in force and it is not the modelled 64: representation not compared
        try:
            items = list(self.idx._fwd_index.items())
            Set, TreeSet = self.fam.IF.Set, self.fam.IF.TreeSet
            out = []
            for k, p in items:
                if len(p) == 0:
                    continue        # a stale empty posting is a bookkeeping (C06) matter
                t = "T" if isinstance(p, TreeSet) else "S" if isinstance(p, Set) else None
                if t is None:
                    return None
                out.append((self.rank[repr(k)], "%d:%s%d" % (self.rank[repr(k)], t, len(p))))
            return ("tags " + " ".join(s for _, s in sorted(out))).rstrip() if out else "tags "
        except (AttributeError, KeyError):
            return None

    def latch(self):
        """an empty posting left in the forward map is a bookkeeping (C06) matter; it can also change which
        container a later insertion re-uses, so from then on the representation probe is not compared"""
        try:
            if any(len(p) == 0 for p in self.idx._fwd_index.values()):
                self.stale = True
        except AttributeError:
            self.stale = True

    def execute(self, c):
        r = self.execute1(c)
        if c[0] in ("index", "reindex", "unindex", "indexstr"):
            self.latch()
        return r

    def execute1(self, c):
        try:
            op = c[0]
            if op == "index":
                self.idx.index_doc(c[1], self.doc(c[2:]))
                return "ok"
            if op == "reindex":
                self.idx.reindex_doc(c[1], self.doc(c[2:]))
                return "ok"
            if op == "indexstr":
                o = Doc()
                o.x = "ab"
                self.idx.index_doc(c[1], o)
                return "ok"
            if op == "unindex":
                self.idx.unindex_doc(c[1])
                return "ok"
            if op == "reset":
                self.idx.reset()
                return "ok"
            if op == "optimize":
                self.idx.optimize()
                return "ok"
            if op == "setthr":
                self.idx.tree_threshold = c[1]
                self.thr_set = True
                return "ok"
            if op == "q":
                return self.query(False, c[1:])
            if op == "qx":
                return self.query(True, c[1:])
            if op == "qa":
                return idset(self.apply_form(c[1], c[2], c[3:]))
            if op == "obs":
                return self.obs()
            if op == "tags":
                return self.tags()
        except Exception as e:
            return exc_name(e)
        raise ValueError(c)


def impl_run(hyp, case):
    im = KeywordImpl(hyp, cfgdict(case))
    if not zbox.is_zodb(case):
        return [im.execute(c) for c in case["cmds"]]
    box = zbox.ZBox({"idx": im.idx})
    try:
        return [box.txn(c, im, ("current",)) if c[0] == "txn" else im.execute(c) for c in case["cmds"]]
    finally:
        box.close()


def same(a, b):
    # posting representations: the specification leaves them free ("tags-any"); the model's choice must
    # still be the implementation's (a mismatch is correspondence drift, not a failing input)
    if isinstance(a, str) and a.startswith("tags"):
        return b == "tags-any" or a.strip() == b.strip()
    return a == b


def neighbourhood(rng, case):
    """a representation-only divergence was found: look nearby for an input on which an answer differs
    (drop the representation probes, query every keyword and the known ids after every operation)"""
    cmds = []
    ks = sorted({k for c in case["cmds"] if c[0] in ("index", "reindex") for k in c[2:] if k != "none"} | {0})[:12]
    for c in case["cmds"]:
        if c[0] == "tags":
            continue
        cmds.append(c)
        if c[0] not in ("q", "qx", "qa", "obs"):
            for k in ks:
                if rng.random() < 0.8:
                    cmds.append(["q", "eq", k])
            cmds.append(["q", "notall"])
            cmds.append(["q", "noteq", rng.choice(ks)])
    return dict(case, cmds=cmds)


def nontrivial(case, outs):
    answers = {o for c, o in zip(case["cmds"], outs) if c[0] in ("q", "qx", "qa")}
    return len(answers) >= 4 and any(o not in ("{}",) for o in answers)


def features(case, outs):
    cfg = cfgdict(case)
    f = ["family:%s" % cfg.get("family"), "vtype:%s" % cfg.get("vtype"), "thr0:%s" % cfg.get("thr", "class-default"),
         "mode:%s" % cfg.get("mode", "small")]
    sf, mp = c01.size_features(case, lambda c: "none" if c[2:] == ["none"] else tuple(set(c[2:])) or None)
    f += sf
    if mp >= 65 and "thr" not in cfg:
        f.append("posting>=65-under-default-threshold")
    cur = {}
    prev_cmd = None
    for c, o in zip(case["cmds"], outs):
        if c[0] == "qa":
            f.append("apply:%s:%s:%s" % (c[1], c[2], "empty" if o == "{}" else "nonempty" if o.startswith("{") else o))
            if c[1] in ("i", "d", "da", "do"):
                f.append("apply-arg:" + c01.shape_of(list(c[1:])))
        elif c[0] == "obs":
            f.append("obs-twice" if prev_cmd == ["obs"] else "obs")
        prev_cmd = c
        if c[0] in ("q", "qx"):
            shape = "" if c[1] in ("eq", "noteq") else ":n=%d%s" % (min(len(c) - 2, 3),
                                                                   "dup" if len(set(c[2:])) < len(c) - 2 else "")
            f.append("%s:%s%s:%s" % (c[0], c[1], shape,
                                     "empty" if o == "{}" else "nonempty" if o.startswith("{") else o))
            if c[1] not in ("eq", "noteq"):
                f.append("query-arg:%s:%s" % (c[1], c01.shape_of([c[0] == "qx"] + list(c[1:]))))
        elif c[0] in ("index", "reindex"):
            prev = cur.get(c[1], "unknown")
            if c[2:] == ["none"]:
                now = "none"
                cur[c[1]] = "none"
            elif not c[2:]:
                now = "[]"
                cur.pop(c[1], None)
            else:
                new = set(c[2:])
                if isinstance(prev, set):
                    now = ("same" if new == prev else "grow" if new > prev else "shrink" if new < prev
                           else "disjoint" if not (new & prev) else "mixed")
                else:
                    now = "kw"
                if len(new) < len(c[2:]):
                    now += "+dup"
                cur[c[1]] = new
            f.append("index:%s->%s" % ("kw" if isinstance(prev, set) else prev, now))
            if c[0] == "reindex":
                f.append("via-reindex_doc")
        elif c[0] == "unindex":
            f.append("unindex:%s" % ("known" if c[1] in cur else "unknown"))
            cur.pop(c[1], None)
        elif c[0] == "reset":
            cur = {}
            f.append("reset")
        elif c[0] == "indexstr":
            f.append("indexstr:%s" % ("withdrawn" if cur.get(c[1]) == "none" else "other"))
            if cur.get(c[1]) == "none":
                cur.pop(c[1])
        elif c[0] in ("optimize", "setthr"):
            f.append(c[0])
        elif c[0] == "tags" and isinstance(o, str):
            toks = o.split()[1:]
            f.append("tags:%s" % ("mixed" if any(":T" in t for t in toks) and any(":S" in t for t in toks)
                                  else "tree" if any(":T" in t for t in toks) else "set" if toks else "none"))
        if isinstance(o, str) and o.startswith("err"):
            f.append(o)
    return f


def classify(case, i, impl, model, spec):
    c = case["cmds"][i]
    if c[0] == "qx" and c[1] == "notall":
        return "D2"
    return None


def witnesses():
    return [("D2", {"session": "keyword", "cfg": [["cfg", "family", 64], ["cfg", "vtype", "str"]],
                    "cmds": [["index", 1, 1, 2], ["index", 2, 1], ["index", 3, 4], ["qx", "notall", 1, 2],
                             ["q", "notall", 1, 2]]})]
