"""C03  Text search returns exactly the documents that satisfy the query.

Mutation sanity check (scratch copies /var/tmp/mut_text_N, VERIF_REPO=..., deleted afterwards); each gave
VIOLATION with a replay on seed 0, quick tier:
  M1 baseindex.search_phrase: boundary test dropped (`if True:` instead of `end == len(docwords) or
     docwords[end] >= '\\x80'`, i.e. D8 re-introduced): needs > 128 words and a phrase ending in a word whose id
     code is a prefix of the next document word's                                         caught (phrase, 2-byte ids)
  M2 search_phrase: `pos = docwords.find(code, pos + 1)` -> `break` (gives up after the first raw hit that ends
     inside a longer id although a genuine hit follows)                                   caught (phrase, near-miss doc)
  M3 reindex_doc: the `for wid in only_old_widset` loop dropped (stale postings)          caught (atom after re-index)
  M4 BaseIndex.index_doc: `if docid in self._docwords: return self.reindex_doc(...)` dropped (re-index = add) caught
  M5 search_glob: `wids = self._remove_oov_wids(wids)` dropped (KeyError after the last document with a matching
     word is unindexed; the lexicon keeps the word)                                       caught (glob after unindex)
  M6 parsetree.AndNode: `set = difference(set, notset)` dropped                            caught (AND NOT / hyphen)
  M7 parsetree.OrNode: mass_weightedUnion -> mass_weightedIntersection                     caught (OR)
  M8 util._negate: `return difference(all, positive)` -> `return all`                      caught (nq)
  M9 TextIndex: `applyNotEq = applyNotContains` -> `applyNotEq = applyContains`            caught (nq via applyNotEq)
  M10 unindex_doc: `for wid in TreeSet(get_words(docid))` -> over `get_words(docid)[:-1]` (the last word's posting
     keeps the document)                                                                  caught (atom after unindex)
Seeded changes missed before the vocabulary had words with a repeated prefix / characters beyond the BMP, now caught
(C03_E: prog.search instead of prog.match, `co?` matches `cocoa` through its tail; C03_D: range scan bounded by
prefix + U+FFFF skips words continuing with an astral character); further mutations of these classes and of the
zero-token class (C03_C), each VIOLATION on quick seed 0:
  M11 globToWordIds: pattern for the part after the prefix, matched against key.lstrip(prefix)   caught (glob)
  M12 range scan bounded by prefix + U+1FFFF (only plane-2/3 continuations are skipped)     caught (glob; missed before)
  M13 reindex_doc with a text without tokens unindexes the document                         caught (nq / obs)
"""
import re
import sys

from lib import zbox
from lib.core import exc_name, idset
from props import c15
from props.c15 import enc, dec, twice_globs, glob_classes, TWICE_WORDS, HIGH_WORDS, HIGH_CHARS

ID = "C03"
AUDIT_IMPORTS = ["HypatiaProofs.Properties.C03"]
THEOREMS = ["Hyp.Text." + t for t in (
    "c03_refinement", "c03_apply", "c03_apply_eq_contains", "c03_apply_not", "c03_eq_is_contains",
    "c03_depends_only_on_table", "c03_search_word", "c03_search_phrase", "c03_search_glob",
    "c03_updates_defined", "c03_rejected", "c03_admissible_default", "c03_stable_tables_decidable",
    "c03_unstable_query_misses")]
CASES = {"quick": 1600, "thorough": 12000}
BUDGET_S = {"quick": 42, "thorough": 760}
BATCH = 8
RULE = ("each case = one real TextIndex (Okapi or cosine back end, family32/64, lexicon pipeline default / "
        "Splitter+CaseNormalizer / +StopWordAndSingleCharRemover / HTMLWordSplitter+StopWordRemover) with a history "
        "of 4-40 index / re-index / no-value index / unindex (known, unknown) / reset calls over docids 0..11 and "
        "documents of 0-30 tokens (str or list of str, mixed case, punctuation, stop words); vocabulary classes: "
        "small (6-12 words, 1-byte ids), medium (a bulk document of 130-520 filler words indexed after the first "
        "few words so that later words get 2-byte ids whose code starts with the code of an early word), large "
        "(thorough only: 17 000 fillers, 3-byte ids); after operations and at the end 6-30 queries from the "
        "grammar (atoms known/unknown/stop/mixed case, phrases cut from documents incl. repeated words, "
        "near-miss phrases ending in a word whose id code is a prefix of the following document word's, "
        "punctuation-joined phrases, globs prefix*/infix?/several/?-only, hyphen-NOT, AND/OR/AND NOT/NOT, "
        "parentheses); 40% of the vocabularies get 1-3 words in which a prefix occurs twice (cocoa, murmur, or derived "
        "from the case's words) and 40% get 1-3 words with a character beyond U+00FF or beyond the BMP after a prefix "
        "(U+0100, U+03A9, CJK, U+FFDC, U+10000, cased U+10400, U+1D400, U+1D7D9, U+20BB7, U+323AF), with globs cut at "
        "exactly those places (?-only patterns fitting only the word's tail; prefix ending before the high "
        "character); 5% of the operations start a zero-token episode (empty / white space / punctuation / stop-word "
        "text, then unindex / re-index with text, without tokens or without value, then mostly NOT queries and "
        "obs/obsfresh); measured quick seed 0, of 1600 cases: a glob for which only a tail of a vocabulary word fits "
        "588, a glob match continuing beyond the BMP 470, beyond U+00FF 839, NOT query after a zero-token document "
        "was removed 1096, with one present 1081, zero-token document unindexed 635 / re-indexed with text 819 / "
        "without tokens again 355, "
        "each through one of apply/applyContains/applyEq/contains().execute()/eq().execute() resp. "
        "applyNotContains/applyNotEq/notcontains().execute()/noteq().execute(); answers compared as sorted id "
        "sets with the model's and the specification's (filter of the document table by sat). non-trivial = at "
        "least two documents with text, a non-empty and two different answers")
TRUSTED = c15.TRUSTED + [
    "\\s code points (29) recomputed from CPython each run; key sets of weightedUnion/weightedIntersection/"
    "difference are union/intersection/difference (weights: C08/C17/C20)"]
ASSUMPTIONS = ["vocabulary below 2^28 words (widcode's documented limit)",
               "words with '*'/'?' inside a quoted phrase: the property does not say what they mean (the code "
               "re-tokenises the phrase and drops them); compared with the model only"]

SPACES = [c for c in range(sys.maxunicode + 1) if re.match(r"\s", chr(c))]
BASE_WORDS = ["apple", "app", "apply", "ape", "bat", "bath", "cat", "cot", "cut", "dog", "x1", "a_b", "café", "straße",
              "中文", "zed", "w1", "w130", "ab", "abc", "b"]
SEPS = [" ", " ", " ", "  ", ", ", ". ", "-", "\n", "\t", " ", "/", "'"]
ZERO_TEXTS = ["", "", " ", "\n\t", "the", "The AND of", "and the", "... - !", ", ", "-", "'", "a", "of\nthe"]


PIPELINES = {"default": ["splitter", "case", "stop"], "nostop": ["splitter", "case"],
             "single": ["splitter", "case", "single"], "html": ["html", "stop"]}
QENTRY = ["apply", "applyContains", "applyEq", "contains", "eq"]
NQENTRY = ["applyNotContains", "applyNotEq", "notcontains", "noteq"]


# ---------------------------------------------------------------------------- implementation side
class Doc(object):
    pass


class Impl(object):
    def __init__(self, cfg):
        import BTrees
        from hypatia.text import TextIndex
        from hypatia.text.lexicon import Lexicon
        from hypatia.text.okapiindex import OkapiIndex
        from hypatia.text.cosineindex import CosineIndex
        fam = BTrees.family32 if cfg.get("family") == "32" else BTrees.family64
        self.lex = Lexicon(*[c15.make_elem(n) for n in cfg["pipeline"]])
        cls = CosineIndex if cfg.get("backend") == "cosine" else OkapiIndex
        self.base = cls(self.lex, family=fam)
        self.idx = TextIndex("text", lexicon=self.lex, index=self.base, family=fam)
        self.mk = lambda: TextIndex("text", lexicon=Lexicon(*[c15.make_elem(n) for n in cfg["pipeline"]]),
                                    index=None if cls is OkapiIndex else
                                    CosineIndex(Lexicon(*[c15.make_elem(n) for n in cfg["pipeline"]]), family=fam),
                                    family=fam)
        # DICT_CUTOFF (posting map: dict below, IFBTree from that many documents on) is instance-settable;
        # small values make the representation switch reachable with a dozen documents
        self.cutoff = int(cfg["cutoff"]) if cfg.get("cutoff") else None
        if self.cutoff:
            self.base.DICT_CUTOFF = self.cutoff
            mk0 = self.mk

            def mk():
                t = mk0()
                t.index.DICT_CUTOFF = self.cutoff
                return t
            self.mk = mk
        self.current = {}

    def obj(self, c):
        o = Doc()
        if c[0] == "s":
            o.text = dec(c[1])
        elif c[0] == "l":
            o.text = [dec(x) for x in c[1:]]
        return o

    def keys(self, r):
        if r is None:
            return "None"
        if hasattr(r, "ids"):                       # ResultSet
            ids = list(r.ids)
            if len(r) != len(ids):
                return "len-mismatch %d %d" % (len(r), len(ids))
            return idset(ids)
        return idset(r.keys() if hasattr(r, "keys") else r)

    def run(self, c):
        idx = self.idx
        op = c[0]
        try:
            if op == "index":
                self.current[c[1]] = c[2:]
                idx.index_doc(c[1], self.obj(c[2:]))
                return "ok"
            if op == "unindex":
                self.current.pop(c[1], None)
                idx.unindex_doc(c[1])
                return "ok"
            if op == "reset":
                self.current = {}
                idx.reset()
                return "ok"
            if op == "qk":
                # keys of the scored result: the model side answers with the C08/C20 scoring model read off
                # the key-set model's state (theorem c20_scored_keys_are_c03_result)
                return self.keys(idx.apply(dec(c[2])))
            if op in ("q", "nq"):
                entry, q = c[1], dec(c[2])
                if entry in ("contains", "eq", "notcontains", "noteq"):
                    return self.keys(getattr(idx, entry)(q).execute())
                return self.keys(getattr(idx, entry)(q))
            if op == "obs":
                return obs(idx)
            if op == "obsfresh":
                fresh = self.mk()
                for d, t in sorted(self.current.items()):
                    fresh.index_doc(d, self.obj(t))
                return obs(fresh)
            if op == "repr":
                marker = object()
                r = idx.document_repr(c[1], marker)
                return "none" if r is marker else enc(r)
        except Exception as e:
            return exc_name(e)
        raise ValueError(c)


def obs(idx):
    return "indexed=%s ni=%s docids=%s ic=%d nic=%d dc=%d wc=%d" % (
        idset(idx.indexed()), idset(idx.not_indexed()), idset(idx.docids()), idx.indexed_count(),
        idx.not_indexed_count(), idx.docids_count(), idx.word_count())


def cfgdict(case):
    d = {"pipeline": []}
    for c in case.get("cfg", []):
        if c[1] == "pipeline":
            d["pipeline"] = c[2:]
        elif c[1] in ("backend", "family", "vocab", "cutoff"):
            d[c[1]] = str(c[2])
    return d


def impl_run(hyp, case):
    im = Impl(cfgdict(case))
    if not zbox.is_zodb(case):
        return [im.run(c) for c in case["cmds"]]
    box = zbox.ZBox({"idx": im.idx})
    try:
        return [box.txn(c, im, ("current",)) if c[0] == "txn" else im.run(c) for c in case["cmds"]]
    finally:
        box.close()


def model_cmd(c):
    if c[0] == "index":
        if c[2] == "n":
            return ["index", c[1], "none"]
        return ["index", c[1]] + list(c[3:])
    if c[0] in ("q", "nq", "qk"):
        return [c[0], c[2]]
    if c[0] == "obsfresh":
        return ["obs"]
    return c


# ---------------------------------------------------------------------------- generator
def filler(n):
    # descending order: the model's association list ends up ascending, which its insertion sort likes
    return ["f%05d" % i for i in range(n - 1, -1, -1)]


def gen_doc_tokens(rng, words, early, late):
    n = rng.choice([0, 1, 2, 3, 4, 5, 6, 8, 12, 20, 30])
    r = rng.random()
    if late and early and r < 0.3:
        # near misses: x L ... x e   (code(e) is a prefix of code(L))
        e, L, x = rng.choice(early), rng.choice(late), rng.choice(words)
        toks = [x, L] + [rng.choice(words) for _ in range(rng.randrange(0, 3))]
        if rng.random() < 0.6:
            toks += [x, e]
        toks += [rng.choice(words) for _ in range(rng.randrange(0, 4))]
        return toks
    toks = []
    while len(toks) < n:
        if toks and rng.random() < 0.2:
            toks.append(rng.choice(toks))          # repeated word
        else:
            toks.append(rng.choice(words))
    return toks


def render(rng, toks, stops):
    out = []
    for i, w in enumerate(toks):
        if rng.random() < 0.12:
            w = w.upper() if rng.random() < 0.5 else w.title()
        out.append(w)
        if rng.random() < 0.12:
            out.append(" " + rng.choice(stops) + " ")
        elif i < len(toks) - 1:
            out.append(rng.choice(SEPS))
    return "".join(out)


def gen_textarg(rng, toks, stops):
    if rng.random() < 0.8:
        return ["s", enc(render(rng, toks, stops))]
    k = rng.randrange(0, len(toks) + 1)
    return ["l", enc(render(rng, toks[:k], stops)), enc(render(rng, toks[k:], stops))]


def q_atom(rng, ctx):
    words, docs, stops, early, late = ctx
    r = rng.random()
    if r < 0.34:
        w = rng.choice(words)
        if rng.random() < 0.2:
            w = w.upper()
        return w
    if r < 0.64 and docs:
        d = rng.choice(docs)
        if len(d) >= 2:
            a = rng.randrange(len(d) - 1)
            b = min(len(d), a + rng.choice([2, 2, 3, 4]))
            ph = list(d[a:b])
            m = rng.random()
            if m < 0.2:
                rng.shuffle(ph)
            elif m < 0.4:
                ph[rng.randrange(len(ph))] = rng.choice(words)
            elif m < 0.6 and early and b < len(d) + 1:
                ph[-1] = rng.choice(early)          # ends in a word whose code may prefix the real next word's
            return ('"%s"' % " ".join(ph)) if rng.random() < 0.8 else rng.choice("-./'").join(ph)
    if r < 0.7:
        return '"%s"' % " ".join(rng.choice(words) for _ in range(rng.randrange(2, 4)))
    if r < 0.88:
        return q_glob(rng, words)
    if r < 0.93:
        return rng.choice(["unknownword", "zzz", "q", "nope*", "f00003", "f00131"])
    if r < 0.97:
        return rng.choice(stops)
    return '"%s* %s"' % (rng.choice(words)[:2], rng.choice(words))      # glob character inside a phrase


def q_glob(rng, words):
    special = [w for w in words if twice_globs(w) or any(ord(c) > 0xFF for c in w[1:])]
    w = rng.choice(special) if special and rng.random() < 0.45 else rng.choice(words)
    k = rng.randrange(1, len(w) + 1)
    tw = twice_globs(w)
    if tw and rng.random() < 0.55:
        return rng.choice(tw)               # no '*': only the word's tail fits
    hi = [i for i, c in enumerate(w) if i > 0 and ord(c) > 0xFF]
    if hi and rng.random() < 0.6:
        i = rng.choice(hi)                  # the literal prefix ends right before a character > U+00FF
        return w[:i] + rng.choice(["*", "?" + w[i + 1:], "?" * (len(w) - i), "*" + w[-1:], "?*", "*?"])
    return rng.choice([w[:k] + "*", w[:k] + "?" + w[k + 1:], w[:1] + "*" + w[-1:], w + "*", w[:k] + "*" + "?",
                       w[:1] + "?" * (len(w) - 1), w[:k] + "?" * (len(w) - k), w[:k] + "?" * (len(w) - k + 1)])


def special_words(rng, words):
    """1-3 words of each special class: static ones and ones derived from the case's own words"""
    out = []
    if rng.random() < 0.4:
        for _ in range(rng.randrange(1, 4)):
            if rng.random() < 0.5:
                out.append(rng.choice(TWICE_WORDS))
            else:
                w = rng.choice(words)
                k = rng.randrange(1, min(len(w), 3) + 1)
                out.append(w[:k] + rng.choice(["", "x", w[k:]]) + w[:k] + rng.choice(["a", "1", w[k:k + 1] + "z", w[-1:]]))
    if rng.random() < 0.4:
        for _ in range(rng.randrange(1, 4)):
            if rng.random() < 0.5:
                out.append(rng.choice(HIGH_WORDS))
            else:
                w = rng.choice(words)
                k = rng.randrange(1, len(w) + 1)
                out.append(w[:k] + rng.choice(HIGH_CHARS) + rng.choice(["", "", w[k:], "z"]))
    return [w for w in out if w not in words]


def zero_textarg(rng, pl):
    """a text without a single token: empty, white space, punctuation, stop words (where the pipeline drops them)"""
    pool = [t for t in ZERO_TEXTS if pl in ("default", "single", "html") or not re.search(r"\w", t)]
    if pl == "html":
        pool = pool + ["<b></b>", "&amp;", "<p>the</p>", "<>"]
    r = rng.random()
    if r < 0.75:
        return ["s", enc(rng.choice(pool))]
    return ["l"] + [enc(rng.choice(pool)) for _ in range(rng.randrange(0, 3))]


def q_term(rng, ctx, depth):
    if depth < 3 and rng.random() < 0.2:
        return "(" + q_or(rng, ctx, depth + 1) + ")"
    atoms = [q_atom(rng, ctx) for _ in range(rng.choice([1, 1, 1, 2, 2, 3]))]
    for i in range(1, len(atoms)):
        if rng.random() < 0.3:
            atoms[i] = "-" + atoms[i]
    return " ".join(atoms)


def q_and(rng, ctx, depth):
    s = q_term(rng, ctx, depth)
    for _ in range(rng.choice([0, 0, 0, 1, 1, 2])):
        s += rng.choice([" AND ", " and ", " AND NOT ", " NOT ", " and not "]) + q_term(rng, ctx, depth)
    return s


def q_or(rng, ctx, depth):
    s = q_and(rng, ctx, depth)
    for _ in range(rng.choice([0, 0, 0, 1, 1, 2])):
        s += rng.choice([" OR ", " or "]) + q_and(rng, ctx, depth)
    return s


def gen_queries(rng, ctx, n, cmds, neg=0.28):
    for _ in range(n):
        q = q_or(rng, ctx, 0)
        r = rng.random()
        if r < 0.12:
            cmds.append(["qk", "apply", enc(q)])
        elif r < 1.0 - neg:
            cmds.append(["q", rng.choice(QENTRY), enc(q)])
        else:
            cmds.append(["nq", rng.choice(NQENTRY), enc(q)])


def gen(rng, tier, idx):
    # 12% of the cases keep the index in a ZODB connection with commits / evictions / aborts in between
    return zbox.sprinkle(rng, gen_mem(rng, tier, idx), 0.12)


def gen_mem(rng, tier, idx):
    pl = rng.choice(["default"] * 7 + ["nostop", "single", "html"])
    backend = rng.choice(["okapi", "cosine"])
    fam = rng.choice(["32", "64"])
    r = rng.random()
    if tier == "thorough" and r < 0.0025:
        vocab = "large"
    elif r < 0.45:
        vocab = "medium"
    else:
        vocab = "small"
    stops = c15.stops()
    nw = rng.randrange(6, 13)
    words = rng.sample(BASE_WORDS, nw)
    if rng.random() < 0.06:
        words.append(rng.choice(["İstanbul", "İ", "ı", "Kelvin"]))
    words += special_words(rng, words)
    cmds = []
    docs = {}
    early, late = [], []
    nearly = rng.randrange(2, 5)
    if vocab != "small":
        early = words[:nearly]
        late = words[nearly:]
        # first document: the early words, in order -> ids 1..nearly
        toks = list(early)
        cmds.append(["index", 100, "s", enc(" ".join(toks))])
        docs[100] = toks
        i = rng.randrange(1, nearly + 1)
        if vocab == "medium":
            nfill = 128 * i - nearly + rng.randrange(0, 100)
        else:
            nfill = 17000
        fill = filler(nfill)
        cmds.append(["index", 1000, "s", enc(" ".join(fill))])
        if rng.random() < 0.5:
            cmds.append(["unindex", 1000])
        else:
            docs[1000] = fill
            words = words + ["f00003", "f00131"]
    ids = list(range(12)) + [2 ** 31 - 1, -2 ** 31] + ([2 ** 40] if fam == "64" else [])
    if rng.random() < 0.5:
        ids = ids[:rng.randrange(3, 9)]
    nops = rng.randrange(4, 40) if vocab != "large" else rng.randrange(4, 14)
    nglob_budget = [3 if vocab == "large" else 10 ** 6]

    def ctx():
        return (words, [v for k, v in docs.items() if k != 1000 and v is not None], stops, early, late)

    def zero_episode(d):
        """a document without tokens is indexed, then (often) removed / re-indexed, then NOT queries and an observation"""
        cmds.append(["index", d] + zero_textarg(rng, pl))
        docs[d] = []
        if rng.random() < 0.4:
            gen_queries(rng, ctx(), rng.randrange(1, 3), cmds, neg=0.7)
        r = rng.random()
        if r < 0.4:
            cmds.append(["unindex", d])
            docs.pop(d, None)
        elif r < 0.55:
            cmds.append(["index", d] + zero_textarg(rng, pl))
        elif r < 0.7:
            toks = gen_doc_tokens(rng, words, early, late)
            cmds.append(["index", d] + gen_textarg(rng, toks, stops))
            docs[d] = toks
        elif r < 0.8:
            cmds.append(["index", d, "n"])
            docs[d] = None
        if rng.random() < 0.7:
            gen_queries(rng, ctx(), rng.randrange(1, 4), cmds, neg=0.7)
        if rng.random() < 0.5:
            cmds.append([rng.choice(["obs", "obs", "obsfresh"])])

    for _ in range(nops):
        r = rng.random()
        d = rng.choice(ids)
        if r < 0.02:
            cmds.append(["reset"])
            docs = {}
        elif r < 0.12:
            cmds.append(["unindex", d])
            docs.pop(d, None)
        elif r < 0.2:
            cmds.append(["index", d, "n"])
            docs[d] = None
        elif r < 0.25:
            zero_episode(d)
        elif r < 0.33 and docs.get(d):
            # re-index the same or a slightly changed text
            toks = list(docs[d])
            if rng.random() < 0.6 and toks:
                k = rng.randrange(len(toks))
                toks[k:k + 1] = [rng.choice(words) for _ in range(rng.randrange(0, 3))]
            cmds.append(["index", d] + gen_textarg(rng, toks, stops))
            docs[d] = toks
        else:
            toks = gen_doc_tokens(rng, words, early, late)
            cmds.append(["index", d] + gen_textarg(rng, toks, stops))
            docs[d] = toks
        if rng.random() < 0.22:
            gen_queries(rng, ctx(), rng.randrange(1, 5), cmds)
    gen_queries(rng, ctx(), rng.randrange(6, 18), cmds)
    if vocab == "large":
        # the model's prefix scan sorts 17 000 words per glob: keep a few
        keep, n = [], 0
        for c in cmds:
            if c[0] in ("q", "nq", "qk") and re.search(r"[*?]", dec(c[2])):
                n += 1
                if n > nglob_budget[0]:
                    continue
            keep.append(c)
        cmds = keep
    return make_case(PIPELINES[pl], backend, fam, vocab, cmds, cutoff=rng.choice([None, None, 2, 3, 5]))


def make_case(pipeline, backend, fam, vocab, cmds, cutoff=None):
    chars = c15.case_chars(cmds, allow_sigma=True)      # generated cases never contain U+03A3; a witness does
    cfg = c15.table_cfg(chars) + [["cfg", "stop"] + [enc(w) for w in c15.stops()],
                                  ["cfg", "pipeline"] + list(pipeline),
                                  ["cfg", "space"] + ["%x" % c for c in SPACES],
                                  ["cfg", "backend", backend], ["cfg", "family", fam], ["cfg", "vocab", vocab]]
    if cutoff:
        cfg.append(["cfg", "cutoff", cutoff])
    return {"session": "text", "cfg": cfg, "cmds": cmds}


# ---------------------------------------------------------------------------- verdict helpers
def classify(case, i, impl, model, spec):
    c = case["cmds"][i]
    if c[0] in ("q", "nq", "qk") and "İ" in dec(c[2]):
        return "D14"
    if c[0] in ("q", "nq", "qk") and "Σ" in dec(c[2]) and "html" in cfgdict(case)["pipeline"]:
        return "D22"
    return None


def witnesses():
    cmds = [["index", 1, "s", enc("İstanbul is big")], ["index", 2, "s", enc("ankara")],
            ["q", "apply", enc("İstanbul")], ["q", "apply", enc("ankara")]]
    # D22: HTMLWordSplitter lower-cases the whole chunk before splitting; str.lower() picks the final sigma by
    # context, so 'ΑΣ' inside 'ΑΣ.Β' becomes 'ασ' but the query 'ΑΣ' becomes 'ας' (the model lower-cases per code
    # point: Σ -> σ, which is also what "tokenised exactly like indexed text" asks for)
    cmds17 = [["index", 1, "s", enc("ΑΣ.Β")], ["q", "apply", enc("ΑΣ")], ["q", "apply", enc("β")]]
    return [("D14", make_case(PIPELINES["default"], "okapi", "64", "small", cmds)),
            ("D22", make_case(PIPELINES["html"], "okapi", "64", "small", cmds17))]


def nontrivial(case, outs):
    ans = {o for c, o in zip(case["cmds"], outs) if c[0] in ("q", "nq") and o.startswith("{")}
    ndocs = sum(1 for c in case["cmds"] if c[0] == "index" and c[2] != "n")
    return ndocs >= 2 and len(ans) >= 2 and any(a != "{}" for a in ans)


def features(case, outs):
    cd = cfgdict(case)
    f = ["vocab:" + cd.get("vocab", "?"), "backend:" + cd.get("backend", "?"), "family:" + cd.get("family", "?"),
         "pipeline:" + "+".join(cd["pipeline"])]
    known = {}
    toks = {}               # docid -> set of tokens (approximation of the pipeline, for measuring only)
    stops = set(c15.stops()) if ("stop" in cd["pipeline"] or "single" in cd["pipeline"]) else set()
    zero_gone = False       # a document without tokens was unindexed / re-indexed since the last reset

    def tokens_of(c):
        text = " ".join(dec(x) for x in c[3:])
        if "html" in cd["pipeline"]:
            text = re.sub(r"<[^<>]*>|&[A-Za-z]+;", " ", text)
        ws = set(re.findall(r"\w+", text.lower())) - stops
        if "single" in cd["pipeline"]:
            ws = {w for w in ws if len(w) > 1}
        return ws

    for c, o in zip(case["cmds"], outs):
        op = c[0]
        if o.startswith("err"):
            f.append("%s:%s" % (op, o))
        if op == "index":
            prev = known.get(c[1], "new")
            now = "none" if c[2] == "n" else "text"
            same = prev not in ("new", "none") and now == "text" and prev == tuple(c[2:])
            f.append("index:%s->%s%s" % (prev if prev in ("new", "none") else "text", now, "(same)" if same else ""))
            known[c[1]] = "none" if c[2] == "n" else tuple(c[2:])
            was_zero = c[1] in toks and not toks[c[1]]
            if now == "text":
                ws = tokens_of(c)
                if not ws:
                    f.append("zero-token-doc:index-%s" % ("again" if was_zero else "new" if c[1] not in toks else "over-text"))
                elif was_zero:
                    f.append("zero-token-doc:reindexed-with-text")
                    zero_gone = True
                toks[c[1]] = ws
            else:
                if was_zero:
                    f.append("zero-token-doc:replaced-by-no-value")
                    zero_gone = True
                toks.pop(c[1], None)
        elif op == "unindex":
            f.append("unindex:%s" % ("known" if c[1] in known else "unknown"))
            known.pop(c[1], None)
            if c[1] in toks and not toks[c[1]]:
                f.append("zero-token-doc:unindexed")
                zero_gone = True
            toks.pop(c[1], None)
        elif op == "reset":
            known = {}
            toks = {}
            zero_gone = False
            f.append("reset")
        elif op in ("obs", "obsfresh"):
            f.append(op + (":after-zero-token-doc-removed" if zero_gone else ""))
        elif op in ("q", "nq", "qk"):
            q = dec(c[2])
            f.append("%s:%s:%s" % (op, c[1], "empty" if o == "{}" else "nonempty" if o.startswith("{") else o))
            if op == "nq" and zero_gone:
                f.append("nq:after-zero-token-doc-removed")
            if op == "nq" and any(not ws for ws in toks.values()):
                f.append("nq:zero-token-doc-present")
            globs = [g for g in re.findall(r"[\w*?]+", q.lower()) if "*" in g or "?" in g]
            vocab = set().union(*[ws for d, ws in toks.items() if d != 1000]) if globs and toks else set()
            for g in globs:                                 # (the bulk document's filler words are left out)
                for k in glob_classes(g, vocab):
                    f.append(k)
                    if "(" in k or "beyond" in k:
                        f.append(k + ":" + op)
            if '"' in q or re.search(r"\w[-./']\w", q):
                f.append("query:phrase")
                if o.startswith("{") and o != "{}" and op == "q":
                    f.append("query:phrase-hit")
            if re.search(r"[*?]", q):
                f.append("query:glob")
            if re.search(r"(^| )-\w|NOT|not", q):
                f.append("query:not")
            if re.search(r"\bOR\b|\bor\b", q):
                f.append("query:or")
            if "(" in q:
                f.append("query:paren")
    for k in sorted(set(f)):
        if k.startswith(("glob:", "nq:after", "nq:zero", "zero-token-doc:")) and k.count(":") == 1:
            f.append("case:" + k)
    return f


def shrink_more(case, fails):
    cd = cfgdict(case)
    cmds = [list(c) for c in case["cmds"]]

    def mk(cm):
        return make_case(cd["pipeline"], cd.get("backend", "okapi"), cd.get("family", "64"), cd.get("vocab", "small"), cm,
                         cutoff=int(cd["cutoff"]) if cd.get("cutoff") else None)
    changed = True
    rounds = 0
    while changed and rounds < 3:
        changed = False
        rounds += 1
        for i, c in enumerate(cmds):
            for j in range(1, len(c)):
                t = c[j]
                if not (c15.is_str_token(t) and len(t) > 1):
                    continue
                s = dec(t)
                if len(s) > 400:
                    continue
                k = 0
                while k < len(s):
                    # drop a whole word first, then single characters
                    m = re.match(r"\w+\W*", s[k:])
                    step = len(m.group(0)) if m else 1
                    cand = s[:k] + s[k + step:]
                    c2 = [list(x) for x in cmds]
                    c2[i][j] = enc(cand)
                    if fails(mk(c2)):
                        cmds, s, changed = c2, cand, True
                    else:
                        k += step
    return mk(cmds)


def extra(hyp, tier, seed):
    from lib import core
    if len(SPACES) != 29:
        raise core.Infra("unexpected \\s set")
    return {"evaluations": 0, "features": {}, "samples": [{"case": witnesses()[0][1]}]}


LEVEL_TEXT = ("Lean 4 refinement proof: for every history of index / re-index / no-value / unindex / reset calls "
              "(either back end, any lexicon pipeline and character tables) the model of BaseIndex/TextIndex "
              "represents the history's document table (postings = documents containing a token with that id, "
              "_docwords = encoded token ids; invariant by induction over operations, incl. the differential "
              "re-index), and for every query string the parser accepts apply/applyContains/applyEq return exactly "
              "the indexed documents whose token sequence satisfies the parse tree read as boolean logic (word = "
              "membership, phrase = contiguous sub-list via the widcode boundary theorem C16, glob = some token "
              "matches via C15, AND/OR/NOT), applyNotContains/applyNotEq the other known documents; the answer "
              "depends on the history only through the document table (not on vocabulary size or id assignment); "
              "hypotheses: vocabulary < 2^28 and the decidable `admissible` (query words are fixed points of the "
              "pipeline - finding D14), derived from a decidable condition on the character tables; tied to "
              "hypatia/text by a differential run of the real TextIndex against the compiled model and the "
              "specification's answer, with 1-, 2- and (thorough) 3-byte word ids")
LEVEL_NOTE = ("trusted: Lean kernel (propext, Quot.sound, Classical.choice at most), BTrees set algebra key sets as "
              "modelled, weights omitted (C08/C17/C20), the hand model's faithfulness as sampled, the harness; "
              "character tables are data recomputed from CPython each run")
TECHNIQUE = ("Lean 4 refinement invariant by induction over histories + structural induction over well-formed parse "
             "trees, reusing the C14/C15/C16 theorems + differential correspondence")
