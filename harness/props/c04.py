"""C04  And/Or/Not compose query results as intersection, union and complement.

`applye2e` is answered on the model side by `applyQM`: the `_apply` composition over the C01/C02/C13/C03 index
models (field, keyword, facet with hierarchical paths, text with query STRINGS as leaf values) that ran the same
`doc` history (theorem `c04_end_to_end` says it equals the specification-level `applyQ`, which the driver prints
as the specification answer of that command when the theorem's hypotheses hold for the session).
70% of the catalogs are `e2e` catalogs (lib/qtree.py: FACETS / FACET_NAMES / FACET_PATHS, QUERIES).

Mutations for the composed part (scratch copies, quick tier, seed 0; all VIOLATION):
  M6 facet/__init__.py index_doc: candidate prefixes only up to len-1 (a document with a 2+-segment path is no
     longer listed under the full path)
  M7 text/parsetree.py AndNode: NOT operands ignored          M8 text/__init__.py applyNotEq = applyContains
  M9 text/parsetree.py AndNode: mass_weightedIntersection -> mass_weightedUnion

Mutation sanity check (scratch copies, quick tier, seed 0; all reported VIOLATION with a failing input):
  M1 `Query.union`: right non-empty and left empty returns left          M2 `Not._apply` forgets `negate()`
  M3 `BaseIndexMixin._negate` short-cut returns `indexed()` (drops value-less documents)
  M4 `Ge.negate` returns `Le`                                            M5 `Query.intersect` returns left when
     right is empty

Generator modes added against size-, arity- and constant-dependent changes (quick tier, seed 0, 6000 cases; shares
measured by `features`): `large` 10% (40-400 documents, cubically skewed value frequencies: 415 executed trees
meet an operand > 32x smaller than the running result - 114 of them not a subset of it -, 229 the opposite
orientation; 25% of the skewed trees start with a stored keyword posting followed by tiny operands), `wide`
10% (And/Or of 9-40 operands after flattening - flat, nested same-type groups, & / | chains, Not over the dual
node: 2100 trees with 17-32 operands, 800 with > 32), `twocat` 6% (same-named indexes of two catalogs mixed in
one query), `exotic` 5% (`xapply`: RangeValue / float / tuple-container / late-bound Name / legacy tuple-list
constants, execute and _apply against the independent evaluation qtree.xsem; the model side only acknowledges
these commands).  `applystable` executes twice and re-asks every operand before and after.
Seeded changes C04_A-F all give VIOLATION with a failing input (E: probe path of intersect, F: pairwise merge
of > 16 Or operands).  Own mutations of the same classes (scratch copies, quick, seed 0; all VIOLATION):
  N1 `Query.union` updates a > 32x bigger left operand in place (corrupts a stored keyword posting for the
     queries that follow)                     N2 `And._apply` with > 16 operands intersects smallest-first and
     stops at one document                    N5 `FieldIndex.applyGt(v)` = applyInRange(v + 1) (wrong for 2.5)
"""
from lib import qtree
from lib.core import exc_name, idset

ID = "C04"
AUDIT_IMPORTS = ["HypatiaProofs.Properties.C04"]
THEOREMS = ["Hyp.Query." + t for t in (
    "c04_budget_irrelevant", "c04_and", "c04_or", "c04_well_typed_succeeds", "c04_and_constructor",
    "c04_or_constructor", "c04_not_is_negate", "c04_complement_partial", "c04_negate_complement_partial",
    "c04_notall_violates_complement", "c04_apply_is_sem_partial", "c04_end_to_end", "c04_end_to_end_no_text", "c04_text_leaf",
    "c04_apply_congruence", "c04_apply_leaves_only", "c04_and_end_to_end")]
CASES = {"quick": 6000, "thorough": 150000}
BUDGET_S = {"quick": 40, "thorough": 700}
RULE = ("modes: small 69% (below), large 10% (40-400 documents, skewed value frequencies, operands differing in "
        "size by > 32x in either order, stored posting first), wide 10% (And/Or with 9-40 operands around 16/32, "
        "flat / nested / operator chains / under Not), twocat 6% (same-named indexes of two catalogs), exotic 5% "
        "(xapply: RangeValue, float, tuple container, Name, legacy tuple/list constants against an independent "
        "Python evaluation - no Lean answer for these); small: "
        "catalogs of 1-4 real indexes (field, keyword, facet, text) with 0-25 documents; half of the catalogs are "
        "Total (every document has a non-empty value in every index) and exercise the complement clause, the "
        "other half leave values out (then only And/Or clauses are checked against the specification); random "
        "trees of depth <= 4, arity 1-4, repeated operands, 7% comparators the index does not implement; "
        "half of the catalogs re-index some documents (new value / no value) before the queries; "
        "70% of the catalogs have model-backed facet indexes (hierarchical paths, configured/unconfigured names) "
        "and text indexes whose leaf values are query strings (words, phrases, globs, AND/OR/NOT, parentheses); "
        "observed through execute(optimize=False), _apply, CatalogQuery.query and the &/| operators (one entry "
        "point in four is answered on the model side by the composed C01/C02/C13/C03 index models), plus "
        "the shape of the constructed tree and of q.negate(). non-trivial = tree has a boolean node and the "
        "case contains a non-empty and two different answers")
LEVEL_TEXT = ("Lean 4 theorems by induction over the query tree for every catalog: And = intersection, Or = union "
              "of the operands' answers, Not/negate = complement under the Total hypothesis (De Morgan over "
              "hypatia's negate table), with the model of hypatia/query tied to the code by a differential run")
LEVEL_NOTE = ("leaves are answered at specification level; for all four index kinds that is a theorem "
              "(c04_end_to_end: the same _apply composition over the C01/C02/C13/C03 index models after arbitrary "
              "histories has the same outcome on every tree; text indexes under C03's hypotheses - lexicon below "
              "2^28 words, query strings accepted and admissible); trusted: Lean kernel, the "
              "sampled correspondence, harness. Known findings D2 (NotAll._apply) and D10 (family32) are mirrored "
              "/ classified, not hidden")
TECHNIQUE = "Lean 4 structural induction over the query AST + differential correspondence on real catalogs"


MODES = (("large", 0.10), ("wide", 0.10), ("twocat", 0.06), ("exotic", 0.05))


def pick_mode(rng):
    r = rng.random()
    for m, p in MODES:
        if r < p:
            return m
        r -= p
    return "small"


def gen_sized(rng, mode):
    """large: 50-400 documents over 1-3 field / keyword indexes with skewed value frequencies (operands of one
    query differ in size by more than x 32; small operand first / last / in the middle); wide: And / Or with
    9-40 operands over 40 field values / 12 keywords.  Both: repeated queries, queries between updates."""
    total = rng.random() < 0.5
    kinds = [rng.choice(["field", "field", "keyword", "keyword", "facet"]) for _ in range(rng.choice([1, 2, 2, 3]))]
    if mode == "large":
        ndocs = rng.choice([40, 64, 80, 120, 200, 200, 300, 400])
        dist = qtree.Dist(rng, rng.choice([12, 40]), rng.choice([6, 12]), True)
    else:
        ndocs = rng.choice([8, 12, 25, 40, 60])
        dist = qtree.Dist(rng, 40, 12, rng.random() < 0.3)
    kinds, cfg, docs, _ = qtree.gen_catalog_x(rng, total, kinds=kinds, ndocs=ndocs, dist=dist, idrange=2 * ndocs)
    cmds = list(docs)
    asked = []
    for _ in range(rng.randrange(3, 8)):
        r = rng.random()
        if mode == "large":
            t = qtree.gen_skew(rng, kinds, total, dist=dist) if r < 0.7 else \
                qtree.gen_wide(rng, kinds, total, dist=dist) if r < 0.8 else \
                qtree.gen_tree(rng, kinds, rng.randrange(1, 4), dist=dist)
        else:
            t = qtree.gen_wide(rng, kinds, total, dist=dist) if r < 0.85 else \
                qtree.gen_tree(rng, kinds, rng.randrange(1, 4), dist=dist)
        toks = qtree.flat_tokens(t)
        op = rng.choice(["apply", "apply", "applyq", "applyraw", "applyops", "applyops", "applye2e"])
        if t[0] in ("and", "or") and len(t[1]) >= 3 and rng.random() < 0.2:
            op = "applyshared"
        elif rng.random() < 0.3:
            op = "applystable"      # twice, and no operand's own answer may change by executing the query
        cmds.append([op] + toks)
        asked.append(cmds[-1])
        if rng.random() < 0.15:
            cmds.append([rng.choice(["shape", "negshape"])] + toks)
        if rng.random() < 0.25:
            # the same question again, later: an answer must not depend on the queries executed before
            cmds.append(list(rng.choice(asked)))
        if rng.random() < 0.2:
            for _ in range(rng.randrange(1, 4)):
                _, i, d = rng.choice(docs)[:3]
                if not total and rng.random() < 0.3:
                    cmds.append(["doc", i, d, "none"])
                else:
                    cmds.append(["doc", i, d] + qtree.doc_values(rng, kinds[i], True, False, dist))
    return {"session": "query", "cfg": cfg, "kinds": kinds, "cmds": cmds, "mode": mode}


def gen_exotic(rng):
    """`xapply`: And/Or/Not over leaves whose constants the Lean model cannot express (RangeValue, floats, tuple
    containers, late-bound Names, the legacy tuple/list forms of D13): execute(optimize=False) and _apply against
    the independent evaluation qtree.xsem.  No effective NotAll (D2)."""
    total = rng.random() < 0.5
    twocat = rng.random() < 0.3
    kinds = qtree.pair_kinds(rng) if twocat else \
        [rng.choice(["field", "field", "keyword"]) for _ in range(rng.choice([1, 2, 2, 3]))]
    kinds = [k if k in ("field", "keyword") else "field" for k in kinds]
    kinds, cfg, docs, _ = qtree.gen_catalog_x(rng, total, kinds=kinds, twocat=twocat,
                                              ndocs=rng.choice([1, 3, 5, 8, 12, 25, 60]), idrange=80)
    cmds = list(docs)
    for _ in range(rng.randrange(3, 8)):
        for _ in range(20):
            t = qtree.gen_xtree(rng, kinds, rng.choice([1, 2, 2, 3]), rng.random() < 0.1)
            if "D2" not in qtree.xhazards(t, kinds, {}):
                break
        else:
            t = qtree.gen_xleaf(rng, kinds, c="eq")
        cmds.append(["xapply"] + qtree.flat_tokens(t))
    return {"session": "query", "cfg": cfg, "kinds": kinds, "cmds": cmds, "mode": "exotic"}


def gen(rng, tier, idx):
    mode = pick_mode(rng)
    if mode in ("large", "wide"):
        return gen_sized(rng, mode)
    if mode == "exotic":
        return gen_exotic(rng)
    total = rng.random() < 0.5
    # e2e catalogs: facet and text indexes are model-backed in the driver (hierarchical facets over a dictionary
    # of names, text leaves = query STRINGS), so that `applye2e` composes all four index models
    e2e = rng.random() < 0.7
    if mode == "twocat":
        # indexes 2j / 2j+1: same kind, same name, two catalogs; queries mix them
        kinds, cfg, docs, _ = qtree.gen_catalog_x(rng, total, kinds=qtree.pair_kinds(rng), e2e=e2e, twocat=True)
    else:
        kinds, cfg, docs = qtree.gen_catalog(rng, total, e2e=e2e)
    if rng.random() < 0.04:
        cfg[0] = ["cfg", "family", 32]
    cmds = list(docs)
    if docs and rng.random() < 0.5:
        # histories, not just fills: some documents are indexed again with another value (or, on
        # non-Total catalogs, without one) - the index models run the same history (`applye2e`)
        for _ in range(rng.randrange(1, 5)):
            _, i, d = rng.choice(docs)[:3]
            k = kinds[i]
            if not total and rng.random() < 0.25:
                cmds.append(["doc", i, d, "none"])
            else:
                cmds.append(["doc", i, d] + (qtree.doc_values(rng, k, True, e2e) or [0]))
    for _ in range(rng.randrange(3, 9)):
        if mode == "twocat" and rng.random() < 0.4:
            t = qtree.gen_eqfold(rng, kinds, e2e=e2e, allow_not=total)
        else:
            t = qtree.gen_tree(rng, kinds, rng.randrange(1, 5), e2e=e2e)
        toks = qtree.flat_tokens(t)
        op = rng.choice(["apply", "apply", "applyq", "applyraw", "applyops", "applye2e", "applye2e"] if e2e else
                        ["apply", "apply", "applyq", "applyraw", "applyops", "applye2e"])
        if op == "applye2e" and not e2e and "text" in kinds:
            op = "apply"            # a specification-level text index has no model to compose
        if t[0] in ("and", "or") and len(t[1]) >= 3 and rng.random() < 0.5:
            op = "applyshared"      # the same sub-query object reused as operand of two larger queries
        cmds.append([op] + toks)
        if rng.random() < 0.3:
            cmds.append(["shape"] + toks)
        if rng.random() < 0.3:
            cmds.append(["negshape"] + toks)
        if docs and rng.random() < 0.3:
            # the catalog keeps changing between queries (value -> other value, value <-> no value on non-Total
            # catalogs, new documents): complements must follow the CURRENT population (seeded change C04_C
            # cached the set of indexed ids as long as their number stayed the same)
            for _ in range(rng.randrange(1, 4)):
                _, i, d = rng.choice(docs)[:3]
                if rng.random() < 0.25:
                    d = rng.randrange(40)
                i = rng.randrange(len(kinds)) if total else i
                k = kinds[i]
                if not total and rng.random() < 0.4:
                    cmds.append(["doc", i, d, "none"])
                else:
                    cmds.append(["doc", i, d] + (qtree.doc_values(rng, k, True, e2e) or [0]))
                if total:
                    # keep the catalog Total: a new document gets a value in every index
                    for j, kj in enumerate(kinds):
                        if j != i and not any(c[0] == "doc" and c[1] == j and c[2] == d for c in cmds):
                            cmds.append(["doc", j, d] + qtree.doc_values(rng, kj, True, e2e)[:1])
    return {"session": "query", "cfg": cfg, "kinds": kinds, "cmds": cmds, "mode": mode}


def case_lines_cmd(c):
    return c


def build_ops(im, t):
    """build with the & and | operators instead of the And/Or constructors (binary, left to right)"""
    from hypatia import query as Q
    if t[0] in ("and", "or") and len(t[1]) >= 2:
        kids = [build_ops(im, k) for k in t[1]]
        acc = kids[0]
        for k in kids[1:]:
            acc = (acc & k) if t[0] == "and" else (acc | k)
        return acc
    if t[0] == "not":
        return Q.Not(build_ops(im, t[1]))
    if t[0] in ("and", "or"):
        return im.build([t[0], [k for k in t[1]]]) if False else \
            (Q.And if t[0] == "and" else Q.Or)(*[build_ops(im, k) for k in t[1]])
    return im.build(t)


_PROBE = {}     # command index -> size observations of the case being evaluated (read by features)


def probe(im, t):
    """sizes along the evaluation of the top And/Or (after Not expansion): the largest ratio between the running
    result and the next operand, in both orientations, and whether that small side is a subset of the big one"""
    from hypatia import query as Q
    try:
        q = im.build(t)
        if isinstance(q, Q.Not):
            q = q.query.negate()
        if not isinstance(q, Q.BoolOp):
            return []
        sets = [set(k._apply(None)) for k in q.queries]
    except Exception:
        return []
    f = set()
    run = sets[0]
    for s in sets[1:]:
        if len(s) and len(run):
            if len(s) * 32 < len(run):
                f.add("operand-32x-smaller-than-running-result" + ("" if s - run else "(subset)"))
            if len(run) * 32 < len(s):
                f.add("running-result-32x-smaller-than-operand" + ("" if run - s else "(subset)"))
        run = (run & s) if isinstance(q, Q.And) else (run | s)
    return sorted(f)


def impl_run(hyp, case):
    from hypatia.catalog import CatalogQuery
    _PROBE.clear()
    im = qtree.Impl(hyp, case["cfg"], case.get("kinds"))
    out = []
    for c in case["cmds"]:
        op = c[0]
        try:
            if op == "doc":
                im.doc(c)
                out.append("ok")
                continue
            t = qtree.parse_tokens(list(c[1:]))
            if op == "xapply":
                names = {}
                q = im.xbuild(t, names)
                r1 = qtree.run_ids(lambda: q.execute(optimize=False, names=dict(names)))
                r2 = qtree.run_ids(lambda: q._apply(dict(names)))
                rs = idset(qtree.xsem(t, im.kinds, im.table))
                out.append("ok" if r1 == r2 == rs else "execute=%s _apply=%s independent=%s" % (r1, r2, rs))
                continue
            if case.get("mode") == "large" and op.startswith("apply"):
                _PROBE[len(out)] = probe(im, t)
            if op in ("apply", "applye2e"):
                # applye2e: the model side evaluates the tree over the C01/C02 index *models* fed with the
                # same doc lines (applyQM), specification side = applyQ over the tables (c04_end_to_end)
                q = im.build(t)
                out.append(qtree.run_ids(lambda: q.execute(optimize=False)))
            elif op == "applyraw":
                q = im.build(t)
                out.append(qtree.run_ids(lambda: q._apply(None)))
            elif op == "applyq":
                q = im.build(t)
                def f():
                    n, r = CatalogQuery(im.cat)(q) if False else (None, q._apply(None))
                    return r
                # CatalogQuery.query applies the un-optimised object: (num, ids)
                def g():
                    num, r = CatalogQuery(im.cat).query(q)
                    ids = list(r)
                    if num != len(ids):
                        raise AssertionError("num %d != %d" % (num, len(ids)))
                    return ids
                out.append(qtree.run_ids(g))
            elif op == "applyops":
                q = build_ops(im, t)
                out.append(qtree.run_ids(lambda: q.execute(optimize=False)))
            elif op == "applyshared":
                # base = first two operands; a decoy query is built from `base` first, then the query under
                # test from the same `base` object: building one query must not change another (seeded C04_A)
                from hypatia import query as Q
                if t[0] in ("and", "or") and len(t[1]) >= 3:
                    ctor = Q.And if t[0] == "and" else Q.Or
                    kids = [im.build(k) for k in t[1]]
                    base = ctor(*kids[:2])
                    decoy = im.build(t[1][-1]).negate()
                    unused = (base & decoy) if t[0] == "and" else (base | decoy)      # noqa: F841
                    q = base
                    for k in kids[2:]:
                        q = (q & k) if t[0] == "and" else (q | k)
                else:
                    q = im.build(t)
                out.append(qtree.run_ids(lambda: q.execute(optimize=False)))
            elif op == "applystable":
                from hypatia import query as Q
                q = im.build(t)
                top = q.query.negate() if isinstance(q, Q.Not) else q
                kids = list(top.queries) if isinstance(top, Q.BoolOp) else []
                before = [qtree.run_ids(lambda k=k: k._apply(None)) for k in kids]
                r1 = qtree.run_ids(lambda: q.execute(optimize=False))
                after = [qtree.run_ids(lambda k=k: k._apply(None)) for k in kids]
                r2 = qtree.run_ids(lambda: q.execute(optimize=False))
                out.append("operand-answer-changed-by-executing-the-query" if before != after else
                           r1 if r1 == r2 else "first=%s second=%s" % (r1, r2))
            elif op == "shape":
                out.append(" ".join(map(str, im.tokens(im.build(t)))))
            elif op == "negshape":
                out.append(" ".join(map(str, im.tokens(im.build(t).negate()))))
            else:
                raise ValueError(c)
        except Exception as e:
            out.append(exc_name(e))
    return out


def model_cmd(c):
    if c[0] == "xapply":
        return ["cfg", "xapply"]        # no model answer (the driver acknowledges with `ok`): see gen_exotic
    if c[0] in ("applyq", "applyraw", "applyops", "applyshared", "applystable"):
        return ["apply"] + list(c[1:])
    return c


def same(a, b):
    if b == "?":
        return True
    return a == b


def has_bool(c):
    return any(t in ("and", "or", "not") for t in c[1:])


def nontrivial(case, outs):
    if case.get("mode") == "exotic":
        return any(c[0] == "xapply" and o == "ok" and has_bool(c) for c, o in zip(case["cmds"], outs)) and \
            any(len(d) > 3 and d[3] != "none" for d in case["cmds"] if d[0] == "doc")
    ans = {o for c, o in zip(case["cmds"], outs) if c[0].startswith("apply")}
    return any(has_bool(c) for c in case["cmds"] if c[0].startswith("apply")) and len(ans) >= 2 and \
        any(o.startswith("{") and o != "{}" for o in ans)


def features(case, outs):
    f = []
    fam = [c[2] for c in case["cfg"] if c[1] == "family"][0]
    f.append("family:%s" % fam)
    f.append("mode:" + case.get("mode", "small"))
    nd = len({c[2] for c in case["cmds"] if c[0] == "doc"})
    f.append("docs:" + ("0-25" if nd <= 25 else "26-64" if nd <= 64 else "65-200" if nd <= 200 else "201-400"))
    f += size_features(case, outs)
    for c, o in zip(case["cmds"], outs):
        if c[0] == "doc":
            continue
        f.append("cmd:" + c[0])
        if c[0] == "xapply":
            continue
        f.append("answer:" + ("empty" if o == "{}" else "nonempty" if o.startswith("{") else o if o.startswith("err") else "shape"))
        for t in ("and", "or", "not"):
            if t in c[1:]:
                f.append("has:" + t)
        if "notall" in c[1:]:
            f.append("has:notall")
        if c[0] == "applye2e":
            e2e = any(x[1] == "e2e" for x in case["cfg"])
            for k in sorted(set(leaf_kinds(qtree.parse_tokens(list(c[1:])), case["kinds"]))):
                f.append("e2e-leaf:%s%s" % (k, "-model" if e2e or k in ("field", "keyword") else ""))
    return f


def max_arity(t, flat=True):
    """largest operand count of an And/Or after same-type flattening (as the constructor does)"""
    if t[0] in ("cmp", "range"):
        return 0
    if t[0] == "not":
        return max_arity(t[1])
    def flatten(op, kids):
        out = []
        for k in kids:
            out += flatten(op, k[1]) if k[0] == op else [k]
        return out
    kids = flatten(t[0], t[1])
    return max([len(kids)] + [max_arity(k) for k in kids])


def arity_class(n):
    return "<=4" if n <= 4 else "5-16" if n <= 16 else "17-32" if n <= 32 else ">32"


def size_features(case, outs):
    """arity classes of the executed trees (after flattening); on large catalogs the size observations of
    `probe` (how far apart the running result and the next operand are)"""
    f = []
    for j, (c, o) in enumerate(zip(case["cmds"], outs)):
        if c[0] == "xapply":
            t = qtree.parse_tokens(list(c[1:]))
            f.append("xapply:" + ("agree" if o == "ok" else "differ"))
            f += ["xapply-const:" + x for x in qtree.xfeatures(t)]
        elif c[0].startswith("apply"):
            f.append("arity:" + arity_class(max_arity(qtree.parse_tokens(list(c[1:])))))
            f += ["large:" + x for x in _PROBE.get(j, [])]
    return f


def leaf_kinds(t, kinds):
    if t[0] in ("cmp", "range"):
        return [kinds[t[2]]] if t[2] < len(kinds) else []
    if t[0] == "not":
        return leaf_kinds(t[1], kinds)
    return [k for x in t[1] for k in leaf_kinds(x, kinds)]


def effective_notall(t, neg=False):
    """does evaluating the tree reach a NotAll comparator (directly, or an All under an odd number of Nots)"""
    if t[0] == "cmp":
        return (t[1] == "notall" and not neg) or (t[1] == "all" and neg)
    if t[0] == "range":
        return False
    if t[0] == "not":
        return effective_notall(t[1], not neg)
    return any(effective_notall(k, neg) for k in t[1])


def classify(case, i, impl, model, spec):
    c = case["cmds"][i]
    fam = [x[2] for x in case["cfg"] if x[1] == "family"][0]
    if fam == 32 and impl == "err TypeError":
        return "D10"
    if c[0].startswith("apply") and impl == model and effective_notall(qtree.parse_tokens(list(c[1:]))):
        return "D2"
    return None


def witnesses():
    cfg = [["cfg", "family", 64], ["cfg", "index", "keyword"]]
    docs = [["doc", 0, 1, 1, 2], ["doc", 0, 2, 2], ["doc", 0, 3, 3]]
    w2 = {"session": "query", "cfg": cfg, "kinds": ["keyword"],
          "cmds": docs + [["apply", "cmp", "notall", 0, "many", 2, 1, 2]]}
    cfg32 = [["cfg", "family", 32], ["cfg", "index", "field"]]
    w10 = {"session": "query", "cfg": cfg32, "kinds": ["field"],
           "cmds": [["doc", 0, 1, 1], ["doc", 0, 2, 5], ["doc", 0, 3, 7],
                    ["apply", "and", 2, "cmp", "gt", 0, "one", 0, "cmp", "lt", 0, "one", 6]]}
    return [("D2", w2), ("D10", w10)]


NEIGHBOURHOOD_TRIES = 400


def neighbourhood(rng, case):
    """a tree shape diverged from the model: look for a catalog on which the *result* is wrong"""
    kinds = case["kinds"]
    trees = [list(c[1:]) for c in case["cmds"] if c[0] != "doc"]
    twocat = any(c[1] == "twocat" for c in case["cfg"])       # same-named indexes stay same-named
    _, cfg, docs, _ = qtree.gen_catalog_x(rng, rng.random() < 0.5, kinds=kinds, twocat=twocat)
    return {"session": "query", "cfg": cfg, "kinds": kinds,
            "cmds": docs + [["apply"] + t for t in trees]}
