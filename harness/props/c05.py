"""C05  Query optimization never changes a query's result."""
from lib import qtree
from lib.core import exc_name

ID = "C05"
AUDIT_IMPORTS = ["HypatiaProofs.Properties.C05"]
THEOREMS = ["Hyp.Query." + t for t in (
    "c05_budget_irrelevant", "c05_leaf_unchanged", "c05_not_step", "c05_not_step_sound", "c05_fold_recognises",
    "c05_or_eq_any_step", "c05_and_eq_all_step_partial", "c05_and_pairing_step", "c05_or_pairing_step_partial",
    "c05_d4_repaired", "c05_d3_witness", "c05_d5_witness", "c05_d2_witness")]
CASES = {"quick": 2000, "thorough": 200000}
BUDGET_S = {"quick": 40, "thorough": 700}
RULE = ("catalogs of 1-4 real indexes with 0-25 documents, with and without no-value documents; trees biased to "
        "several comparators on the same index (>= 3 range bounds, contradictory bounds, lo > hi), all 14 "
        "comparators, depth <= 4; each tree is executed with optimize=True and False, the optimised tree's "
        "shape is compared with the model's optimiser output, and the original query object is snapshotted "
        "(structure and object identities) before/after optimisation. non-trivial = the optimiser changed the "
        "tree and the unoptimised answer is a non-empty set")
LEVEL_TEXT = ("Lean 4 theorems about the model of _optimize (Eq/NotEq folding, the repaired lowers/uppers pairing "
              "loop, single-child collapse, Not pushed through negate): optimisation preserves the result set "
              "under the stated hypotheses (outside the three recorded findings); the optimiser model is tied to "
              "hypatia/query by comparing optimised tree shapes and results on real catalogs")
LEVEL_NOTE = ("leaves answered at specification level; known findings D2, D3, D5 are mirrored by the model and "
              "reported as KNOWN-FINDING; trusted: Lean kernel, sampled correspondence, harness")
TECHNIQUE = "Lean 4 proof over the optimiser model (loop invariant, induction on the tree) + differential correspondence"


def gen(rng, tier, idx):
    total = rng.random() < 0.4
    kinds, cfg, docs = qtree.gen_catalog(rng, total)
    if "field" not in kinds and rng.random() < 0.7:
        kinds, cfg, docs = qtree.gen_catalog(rng, total, kinds=["field"] + kinds[:2])
    cmds = list(docs)
    for _ in range(rng.randrange(3, 8)):
        t = qtree.gen_tree(rng, kinds, rng.randrange(1, 5), range_bias=rng.choice([0.0, 0.5, 0.9]))
        toks = qtree.flat_tokens(t)
        cmds.append(["opt"] + toks)
        cmds.append(["optshape"] + toks)
        if rng.random() < 0.3:
            cmds.append(["apply"] + toks)
    return {"session": "query", "cfg": cfg, "kinds": kinds, "cmds": cmds}


def impl_run(hyp, case):
    im = qtree.Impl(hyp, case["cfg"], case.get("kinds"))
    out = []
    for c in case["cmds"]:
        op = c[0]
        try:
            if op == "doc":
                im.doc(c)
                out.append("ok")
                continue
            t = qtree.parse_tokens(list(c[1:]))
            q = im.build(t)
            if op == "apply":
                out.append(qtree.run_ids(lambda: q.execute(optimize=False)))
            elif op == "opt":
                before = im.snapshot(q)
                r = qtree.run_ids(lambda: q.execute(optimize=True))
                out.append(r if im.snapshot(q) == before else "query-object-mutated")
            elif op == "optshape":
                before = im.snapshot(q)
                from hypatia.query import optimize
                o = optimize(q)
                out.append(" ".join(map(str, im.tokens(o))) if im.snapshot(q) == before
                           else "query-object-mutated")
            else:
                raise ValueError(c)
        except Exception as e:
            out.append(exc_name(e))
    return out


def model_cmd(c):
    # the unoptimised execution is only cross-checked against the model here (its set-theoretic
    # reading is C04's business)
    return ["applym"] + list(c[1:]) if c[0] == "apply" else c


def same(a, b):
    if b == "?":
        return True
    if b.startswith("err") and not a.startswith("err"):
        # specification side of `opt` = the unoptimised execution failed: nothing is required
        return False if False else a == b
    return a == b


def optimised_tokens(case, i):
    """tokens of the model-side optimised tree are not available here; use a conservative syntactic
    description of the *original* tree instead"""
    return list(case["cmds"][i][1:])


def tree_info(t, kinds, neg=False, acc=None):
    """collect (effective comparator, index kind) pairs reachable under negation pushing"""
    if acc is None:
        acc = {"cmps": set(), "bool": False}
    NEG = {"eq": "noteq", "noteq": "eq", "gt": "le", "le": "gt", "lt": "ge", "ge": "lt", "any": "notany",
           "notany": "any", "all": "notall", "notall": "all", "contains": "notcontains",
           "notcontains": "contains"}
    if t[0] == "cmp":
        c = NEG[t[1]] if neg else t[1]
        acc["cmps"].add((c, kinds[t[2]], t[2]))
    elif t[0] == "range":
        acc["cmps"].add(("notinrange" if bool(t[1]) != neg else "inrange", kinds[t[2]], t[2]))
    elif t[0] == "not":
        tree_info(t[1], kinds, not neg, acc)
    else:
        acc["bool"] = True
        for k in t[1]:
            tree_info(k, kinds, neg, acc)
    return acc


def classify(case, i, impl, model, spec):
    """The model mirrors the three recorded optimiser findings, so they show as impl == model != spec."""
    c = case["cmds"][i]
    if c[0] != "opt" or impl != model:
        return None
    kinds = case["kinds"]
    info = tree_info(qtree.parse_tokens(list(c[1:])), kinds)
    cm = info["cmps"]
    if impl == "err AttributeError" and not spec.startswith("err"):
        # folding Eq/NotEq operands into Any/All/NotAny/NotAll on an index class that lacks them
        if any(x in ("eq", "noteq") and k in ("field", "text") for x, k, _ in cm) and info["bool"]:
            return "D3"
    if impl.startswith("{") and spec.startswith("{"):
        has_none = {}
        for d in case["cmds"]:
            if d[0] == "doc" and len(d) > 3 and d[3] == "none":
                has_none[d[1]] = True
        lows = {ix for x, k, ix in cm if x in ("lt", "le")}
        ups = {ix for x, k, ix in cm if x in ("gt", "ge")}
        if any(has_none.get(ix) for ix in lows & ups):
            return "D5"
        if any(x in ("noteq", "notall", "all") and k in ("keyword", "facet") for x, k, _ in cm):
            return "D2"
    return None


def nontrivial(case, outs):
    for j, (c, o) in enumerate(zip(case["cmds"], outs)):
        if c[0] == "optshape" and o != " ".join(map(str, c[1:])) and not o.startswith("err"):
            if any(x.startswith("{") and x != "{}" for x in outs):
                return True
    return False


def features(case, outs):
    f = []
    for c, o in zip(case["cmds"], outs):
        if c[0] == "optshape":
            toks = o.split()
            f.append("optimiser:" + ("unchanged" if o == " ".join(map(str, c[1:])) else "changed"))
            if "range" in toks and "range" not in c[1:]:
                f.append("paired-range")
            nb = sum(1 for t in c[1:] if t in ("gt", "ge", "lt", "le"))
            if nb >= 3:
                f.append("three-or-more-bounds")
            for t in ("any", "all", "notany", "notall"):
                if t in toks and t not in c[1:]:
                    f.append("folded:" + t)
        elif c[0] == "opt":
            f.append("opt-answer:" + ("empty" if o == "{}" else "nonempty" if o.startswith("{") else o))
    return f


def witnesses():
    cfg = [["cfg", "family", 64], ["cfg", "index", "field"], ["cfg", "index", "keyword"]]
    kinds = ["field", "keyword"]
    docs = [["doc", 0, 1, 1], ["doc", 0, 2, 5], ["doc", 0, 3, 7], ["doc", 0, 6, "none"],
            ["doc", 1, 1, 1, 2], ["doc", 1, 2, 2], ["doc", 1, 3, 3]]
    mk = lambda *cmd: {"session": "query", "cfg": cfg, "kinds": kinds, "cmds": docs + [list(cmd)]}  # noqa: E731
    return [
        ("D3", mk("opt", "or", 2, "cmp", "noteq", 0, "one", 5, "cmp", "noteq", 0, "one", 7)),
        ("D5", mk("opt", "or", 2, "cmp", "lt", 0, "one", 2, "cmp", "gt", 0, "one", 6)),
        ("D2", mk("opt", "or", 2, "cmp", "noteq", 1, "one", 1, "cmp", "noteq", 1, "one", 2)),
    ]


NEIGHBOURHOOD_TRIES = 400


def neighbourhood(rng, case):
    """a tree shape diverged from the model: look for a catalog on which the *result* is wrong"""
    kinds = case["kinds"]
    trees = [list(c[1:]) for c in case["cmds"] if c[0] != "doc"]
    _, cfg, docs = qtree.gen_catalog(rng, rng.random() < 0.5, kinds=kinds)
    return {"session": "query", "cfg": cfg, "kinds": kinds,
            "cmds": docs + [["opt"] + t for t in trees]}
