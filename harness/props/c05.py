"""C05  Query optimization never changes a query's result.

Every `opt` command is followed by `optsafe` on the same tree: the driver evaluates the two decidable
hypotheses of the whole-tree theorem `c05_optimize_sound_partial` (`wellTyped`, `OptSafe` = `hazards` is
empty) on this tree and catalog.  It is a model-side observable (the implementation column echoes it), used
to (a) report in `features` what share of the generated trees lies inside the theorem's hypotheses and which
hazards the rest meets, (b) cross-check the theorem against the run: inside the hypotheses the driver's
optimised and unoptimised answers must be equal (otherwise infrastructure error – the compiled definitions
would contradict the proved theorem), and a command classified as known finding D2/D3/D5 must lie OUTSIDE
`OptSafe` and meet the hazard of that name; if not, `classify` returns `OPTSAFE-CONTRADICTION`, which is not
a listed finding and is therefore reported as VIOLATION.

Mutation sanity check (scratch copies of hypatia/query/__init__.py, quick tier, seed 0; all reported VIOLATION):
  M1 And loop: `del lowers[query.index]` removed (D4 re-introduced)        -> failing inputs (wrong id sets)
  M2 Or loop:  `del lowers[query.index]` removed (D4 in Or)                -> failing inputs
  M3 Or pairing builds NotInRange without flipping the strictness of the bounds -> failing input
     (`And(Or(Ge 3, Le 3), ...)` on a one-document index) after two shape drifts
  M4 `_optimize_eq` drops the `query.index != index` test (folds across indexes) -> failing inputs
  M5 `Not._optimize` forgets `negate()`                                   -> failing inputs
  M6 `_Range.fromGTLT` treats `Le` as exclusive end                       -> failing inputs
  M7 And loop: `del uppers[query.index]` removed, M8 Or loop refuses to pair when `a > b`: both are
     semantics-preserving (a stale `uppers` entry is re-paired onto a fresh position and loses nothing) –
     correctly reported as shape drift only (`no-failing-input-found`), no failing input exists.
A sabotaged hazard report (D5 hidden from `optsafe`) is caught as OPTSAFE-CONTRADICTION.

`xopt` (mode `exotic`, 12% of the cases): trees over constants the Lean model cannot express - RangeValue as the
value of Eq/NotEq/Any/NotAny on a field index, floats, tuples as containers, Names bound late (to a value, a
RangeValue, a whole container), biased to the operand lists the optimiser folds and pairs.  Three opinions per
tree: execute(optimize=True), execute(optimize=False), and `qtree.xsem`, an independent evaluation over the
documents' values; the command's answer is `ok` iff they agree (the driver only acknowledges the line).  Trees
meeting D2/D3/D5 are not generated (`qtree.xhazards` mirrors construct/negate/fold in Python); 3% carry a
legacy tuple/list Eq constant under a fold = D23 (provisional finding of this stream, classified only when the
optimised run raises TypeError, the other two agree and the fold contains such a constant).
Quick tier, seed 0, 8000 cases: 4700 xopt trees (RangeValue 1850, float 2400, Name 2450, tuple/Name
containers 440; folds: Any 1350, NotAny 800, All 250 - over RangeValue 1150, Name 1150, float 800; 460 with
lower+upper bounds; 320 mixing same-named indexes); modes large 5% / wide 5% (as C04) / twocat 8% (1400 plain
trees mixing same-named indexes of two catalogs); `optrepeat` (15% of the opt commands): a sibling query over the
same operand objects and Not(q) are optimised and executed first, then q twice.
Seeded changes C05_A-F all give VIOLATION with a failing input (E: applyAny without RangeValue, F: folding
across same-named indexes).  Own mutations (scratch copies, quick, seed 0; all VIOLATION with a failing input):
  N1 `Query.union` updates a > 32x bigger left operand in place        N2 `And._apply` > 16 operands stops at one doc
  N3 `_optimize_eq` de-duplicates the folded values through a dict (Name and list constants are unhashable)
  N4 the lowers/uppers pairing dictionaries are keyed by index NAME (pairs bounds of same-named indexes)
  N5 `FieldIndex.applyGt(v)` = applyInRange(v + 1) (optimised = unoptimised, both differ from `xsem`)
"""
from lib import qtree
from lib.core import exc_name, Infra, split_ms

ID = "C05"
AUDIT_IMPORTS = ["HypatiaProofs.Properties.C05"]
THEOREMS = ["Hyp.Query." + t for t in (
    "c05_budget_irrelevant", "c05_leaf_unchanged", "c05_not_step", "c05_not_step_sound", "c05_fold_recognises",
    "c05_or_eq_any_step", "c05_and_eq_all_step_partial", "c05_and_pairing_step", "c05_or_pairing_step_partial",
    "c05_d4_repaired", "c05_d3_witness", "c05_d5_witness", "c05_d2_witness",
    "c05_optimize_sound_partial", "c05_optimize_succeeds_partial", "c05_optimize_well_typed_partial",
    "c05_pairing_loop", "c05_pairing_loop_instances", "c05_d3_witness_and", "c05_d2_witness_not",
    "c05_illtyped_order_witness", "c05_end_to_end_partial", "c05_optimize_keeps_text_leaves", "c05_d3_exact", "c05_d5_exact", "c05_d2_exact")]
CASES = {"quick": 8000, "thorough": 200000}
BUDGET_S = {"quick": 40, "thorough": 700}
RULE = ("modes: small 70% (below), exotic 12% (xopt: RangeValue / float / tuple-container / late-bound Name constants; "
        "optimised vs unoptimised vs an independent Python evaluation, no Lean answer for these; away from D2/D3/D5, "
        "D23 classified), twocat 8% (same-named indexes of two catalogs in one query), large 5% (50-400 documents, "
        "skewed sizes), wide 5% (9-40 operands); 15% of the opt commands repeat the execution around a sibling "
        "query over the same operand objects; small: "
        "catalogs of 1-4 real indexes with 0-25 documents, with and without no-value documents; trees biased to "
        "several comparators on the same index (>= 3 range bounds, contradictory bounds, lo > hi), all 14 "
        "comparators, depth <= 4; each tree is executed with optimize=True and False, the optimised tree's "
        "shape is compared with the model's optimiser output, and the original query object is snapshotted "
        "(structure and object identities) before/after optimisation. non-trivial = the optimiser changed the "
        "tree and the unoptimised answer is a non-empty set")
LEVEL_TEXT = ("Lean 4 whole-tree theorem about the model of _optimize (Eq/NotEq folding, the repaired lowers/uppers "
              "pairing loop with its loop invariant, single-child collapse, re-construction through the "
              "flattening constructor, Not pushed through negate): for every catalog and every well-typed tree of "
              "any arity and depth, optimisation preserves success and the result set under the decidable "
              "hypothesis OptSafe, which excludes exactly the three recorded findings D2/D3/D5 (each with a "
              "proved counterexample); the optimiser model is tied to hypatia/query by comparing optimised tree "
              "shapes and results on real catalogs, and OptSafe is evaluated on every generated tree")
LEVEL_NOTE = ("leaves answered at specification level; known findings D2, D3, D5 are mirrored by the model and "
              "reported as KNOWN-FINDING; constants outside the model (RangeValue, floats, Names, containers) are "
              "covered by a differential stream only (xopt, D23 found there); trusted: Lean kernel, sampled "
              "correspondence, harness")
TECHNIQUE = "Lean 4 proof over the optimiser model (loop invariant, induction on the tree) + differential correspondence"


MODES = (("exotic", 0.12), ("large", 0.05), ("wide", 0.05), ("twocat", 0.08))


def pick_mode(rng):
    r = rng.random()
    for m, p in MODES:
        if r < p:
            return m
        r -= p
    return "small"


def opt_cmds(rng, toks, repeat_p=0.15):
    cmds = [["optrepeat" if rng.random() < repeat_p else "opt"] + toks, ["optsafe"] + toks, ["optshape"] + toks]
    if rng.random() < 0.3:
        cmds.append(["apply"] + toks)
    return cmds


def gen_exotic(rng):
    """`xopt`: trees over constants the Lean model cannot express (RangeValue, floats, tuple containers, Names
    bound late - lib/qtree.py, last section); optimised vs unoptimised vs independent evaluation.  Trees that
    run into the recorded findings D2/D3/D5 are not generated (qtree.xhazards); 3% of the trees carry a legacy
    tuple/list Eq constant under a fold (D23, classified)"""
    total = rng.random() < 0.4
    twocat = rng.random() < 0.3
    kinds = qtree.pair_kinds(rng) if twocat else \
        [rng.choice(["field", "field", "keyword"]) for _ in range(rng.choice([1, 2, 2, 3]))]
    kinds = [k if k in ("field", "keyword") else "field" for k in kinds]
    kinds, cfg, docs, _ = qtree.gen_catalog_x(rng, total, kinds=kinds, twocat=twocat,
                                              ndocs=rng.choice([1, 3, 5, 8, 12, 25, 60]), idrange=80)
    if "keyword" in kinds and rng.random() < 0.4:
        cfg = cfg + [["cfg", "normkw", 1]]
    has_none = {c[1]: True for c in docs if c[3:] == ["none"]}
    cmds = list(docs)
    for _ in range(rng.randrange(3, 8)):
        legacy = rng.random() < 0.03
        for _ in range(20):
            t = qtree.gen_xtree(rng, kinds, rng.choice([1, 2, 2, 3]), legacy)
            hz = qtree.xhazards(t, kinds, has_none)
            if not hz or (legacy and hz == {"D23"}):
                break
        else:
            t = qtree.gen_xleaf(rng, kinds)
        cmds.append(["xopt"] + qtree.flat_tokens(t))
    if rng.random() < 0.5:
        # plain trees on the same catalog, answered by the model
        for _ in range(rng.randrange(1, 3)):
            cmds += opt_cmds(rng, qtree.flat_tokens(qtree.gen_eqfold(rng, kinds)))
    return {"session": "query", "cfg": cfg, "kinds": kinds, "cmds": cmds, "mode": "exotic"}


def gen(rng, tier, idx):
    mode = pick_mode(rng)
    if mode == "exotic":
        return gen_exotic(rng)
    total = rng.random() < 0.4
    dist = None
    if mode in ("large", "wide"):
        # size- and arity-dependent paths of And/Or under the optimiser (see props/c04.py gen_sized)
        kinds = [rng.choice(["field", "field", "keyword"]) for _ in range(rng.choice([1, 2, 2, 3]))]
        ndocs = rng.choice([50, 64, 80, 120, 200, 400]) if mode == "large" else rng.choice([8, 12, 25, 40, 60])
        dist = qtree.Dist(rng, rng.choice([12, 40]) if mode == "large" else 40, 12, mode == "large")
        kinds, cfg, docs, _ = qtree.gen_catalog_x(rng, total, kinds=kinds, ndocs=ndocs, dist=dist, idrange=2 * ndocs)
    elif mode == "twocat":
        kinds, cfg, docs, _ = qtree.gen_catalog_x(rng, total, kinds=qtree.pair_kinds(rng), twocat=True)
    else:
        kinds, cfg, docs = qtree.gen_catalog(rng, total)
        if "field" not in kinds and rng.random() < 0.7:
            kinds, cfg, docs = qtree.gen_catalog(rng, total, kinds=["field"] + kinds[:2])
    cmds = list(docs)
    for _ in range(rng.randrange(3, 8)):
        r = rng.random()
        if mode == "large" and r < 0.7:
            t = qtree.gen_skew(rng, kinds, total, dist=dist)
        elif mode in ("large", "wide") and r < 0.85:
            t = qtree.gen_wide(rng, kinds, total, dist=dist)
        elif mode == "twocat" and r < 0.5 or mode == "small" and r < 0.06:
            t = qtree.gen_eqfold(rng, kinds, dist=dist)
        else:
            t = qtree.gen_tree(rng, kinds, rng.randrange(1, 5), range_bias=rng.choice([0.0, 0.5, 0.9]), dist=dist)
        cmds += opt_cmds(rng, qtree.flat_tokens(t))
    return {"session": "query", "cfg": cfg, "kinds": kinds, "cmds": cmds, "mode": mode}


def xopt(im, t):
    """three opinions on one exotic tree; 'ok' when they agree (the model side answers `ok`: the Lean model
    has no such constants, the specification here is the independent evaluation `qtree.xsem`)"""
    names = {}
    q = im.xbuild(t, names)
    before = im.snapshot(q)
    ro = qtree.run_ids(lambda: q.execute(optimize=True, names=dict(names)))
    ru = qtree.run_ids(lambda: q.execute(optimize=False, names=dict(names)))
    if im.snapshot(q) != before:
        return "query-object-mutated"
    try:
        rs = qtree.idset(qtree.xsem(t, im.kinds, im.table))
    except Exception as e:           # the oracle itself must not fail
        raise Infra("xsem failed on %r: %r" % (t, e))
    if ro == ru == rs:
        return "ok"
    return "optimised=%s unoptimised=%s independent=%s" % (ro, ru, rs)


def impl_run(hyp, case):
    im = qtree.Impl(hyp, case["cfg"], case.get("kinds"))
    out = []
    for c in case["cmds"]:
        op = c[0]
        try:
            if op == "doc":
                im.doc(c)
                out.append("ok")
                continue
            t = qtree.parse_tokens(list(c[1:]))
            if op == "xopt":
                out.append(xopt(im, t))
                continue
            q = im.build(t)
            if op == "apply":
                out.append(qtree.run_ids(lambda: q.execute(optimize=False)))
            elif op == "opt":
                before = im.snapshot(q)
                r = qtree.run_ids(lambda: q.execute(optimize=True))
                out.append(r if im.snapshot(q) == before else "query-object-mutated")
            elif op == "optrepeat":
                # shared operand objects and repeated execution: a sibling query over the SAME operand objects
                # is optimised and executed first, then the query twice; the answers must not differ
                from hypatia import query as Q
                before = im.snapshot(q)
                if isinstance(q, Q.BoolOp):
                    sib = (Q.Or if isinstance(q, Q.And) else Q.And)(*q.queries)
                    qtree.run_ids(lambda: sib.execute(optimize=True))
                    qtree.run_ids(lambda: Q.Not(q).execute(optimize=True))
                r1 = qtree.run_ids(lambda: q.execute(optimize=True))
                qtree.run_ids(lambda: q.execute(optimize=False))
                r2 = qtree.run_ids(lambda: q.execute(optimize=True))
                out.append("query-object-mutated" if im.snapshot(q) != before else
                           r1 if r1 == r2 else "first=%s second=%s" % (r1, r2))
            elif op == "optsafe":
                out.append(None)        # model-side observable, filled in by post_model
            elif op == "optshape":
                before = im.snapshot(q)
                from hypatia.query import optimize
                o = optimize(q)
                out.append(" ".join(map(str, im.tokens(o))) if im.snapshot(q) == before
                           else "query-object-mutated")
            else:
                raise ValueError(c)
        except Infra:
            raise
        except Exception as e:
            out.append(exc_name(e))
    return out


_SAFE = {}      # (command tokens) -> driver's optsafe answer, for the case being evaluated


def post_model(hyp, case, mouts, iouts):
    """echo the driver's `optsafe` answers into the implementation column (features/classify read them)
    and check the run against the theorem: wellTyped & OptSafe => optimised answer == unoptimised answer"""
    _SAFE.clear()
    for i, c in enumerate(case["cmds"]):
        if c[0] == "optsafe":
            m, _ = split_ms(mouts[i])
            iouts[i] = m
            _SAFE[tuple(map(str, c[1:]))] = m
    for i, c in enumerate(case["cmds"]):
        if c[0] in ("opt", "optrepeat") and _SAFE.get(tuple(map(str, c[1:]))) == "safe":
            m, s = split_ms(mouts[i])
            if m != s:
                raise Infra("driver contradicts c05_optimize_sound_partial: %r inside wellTyped/OptSafe gives "
                            "optimised %r, unoptimised %r" % (c, m, s))
    return mouts


def safety(c):
    return _SAFE.get(tuple(map(str, c[1:])))


def model_cmd(c):
    # the unoptimised execution is only cross-checked against the model here (its set-theoretic
    # reading is C04's business)
    if c[0] == "xopt":
        return ["cfg", "xopt"]          # no model answer: the driver acknowledges the line with `ok`
    if c[0] == "optrepeat":
        return ["opt"] + list(c[1:])
    return ["applym"] + list(c[1:]) if c[0] == "apply" else c


def same(a, b):
    if b == "?":
        return True
    if b.startswith("err") and not a.startswith("err"):
        # specification side of `opt` = the unoptimised execution failed: nothing is required
        return False if False else a == b
    return a == b


def optimised_tokens(case, i):
    """tokens of the model-side optimised tree are not available here; use a conservative syntactic
    description of the *original* tree instead"""
    return list(case["cmds"][i][1:])


def tree_info(t, kinds, neg=False, acc=None):
    """collect (effective comparator, index kind) pairs reachable under negation pushing"""
    if acc is None:
        acc = {"cmps": set(), "bool": False}
    NEG = {"eq": "noteq", "noteq": "eq", "gt": "le", "le": "gt", "lt": "ge", "ge": "lt", "any": "notany",
           "notany": "any", "all": "notall", "notall": "all", "contains": "notcontains",
           "notcontains": "contains"}
    if t[0] == "cmp":
        c = NEG[t[1]] if neg else t[1]
        acc["cmps"].add((c, kinds[t[2]], t[2]))
    elif t[0] == "range":
        acc["cmps"].add(("notinrange" if bool(t[1]) != neg else "inrange", kinds[t[2]], t[2]))
    elif t[0] == "not":
        tree_info(t[1], kinds, not neg, acc)
    else:
        acc["bool"] = True
        for k in t[1]:
            tree_info(k, kinds, neg, acc)
    return acc


def classify(case, i, impl, model, spec):
    """The model mirrors the three recorded optimiser findings, so they show as impl == model != spec."""
    c = case["cmds"][i]
    if c[0] == "xopt":
        return classify_xopt(case, c, impl)
    if c[0] not in ("opt", "optrepeat") or impl != model:
        return None
    cands = syntactic_candidates(case, c, impl, model, spec)
    if not cands:
        return None
    sf = safety(c)
    if sf is None:                      # case without an `optsafe` command for this tree
        return cands[0]
    hz = sf[7:].split(",") if sf.startswith("unsafe:") else []
    for fid in cands:
        if fid in hz:
            return fid
    # a case that looks like a known finding but lies inside the theorem's hypotheses, or outside them
    # only for a hazard of another name: theorem and classification contradict each other
    return "OPTSAFE-CONTRADICTION"


def classify_xopt(case, c, impl):
    """D23 only: the optimised execution raises TypeError, the unoptimised one agrees with the independent
    evaluation, and the tree folds a legacy tuple/list Eq constant (nothing else is excused)"""
    m = impl.split(" unoptimised=")
    if len(m) != 2 or m[0] != "optimised=err TypeError":
        return None
    u, ind = m[1].split(" independent=")
    has_none = {d[1]: True for d in case["cmds"] if d[0] == "doc" and d[3:] == ["none"]}
    if u == ind and qtree.xhazards(qtree.parse_tokens(list(c[1:])), case["kinds"], has_none) == {"D23"}:
        return "D23"
    return None


def syntactic_candidates(case, c, impl, model, spec):
    """the recorded findings whose own description matches this command (tree + catalog + answers)"""
    out = []
    kinds = case["kinds"]
    info = tree_info(qtree.parse_tokens(list(c[1:])), kinds)
    cm = info["cmps"]
    if impl == "err AttributeError" and not spec.startswith("err"):
        # folding Eq/NotEq operands into Any/All/NotAny/NotAll on an index class that lacks them
        if any(x in ("eq", "noteq") and k in ("field", "text") for x, k, _ in cm) and info["bool"]:
            out.append("D3")
    if impl.startswith("{") and spec.startswith("{"):
        has_none = {}
        for d in case["cmds"]:
            if d[0] == "doc" and len(d) > 3 and d[3] == "none":
                has_none[d[1]] = True
        lows = {ix for x, k, ix in cm if x in ("lt", "le")}
        ups = {ix for x, k, ix in cm if x in ("gt", "ge")}
        if any(has_none.get(ix) for ix in lows & ups):
            out.append("D5")
        if any(x in ("noteq", "notall", "all") and k in ("keyword", "facet") for x, k, _ in cm):
            out.append("D2")
    return out


def nontrivial(case, outs):
    for c, o in zip(case["cmds"], outs):
        if c[0] == "xopt" and o == "ok" and qtree.xfolds(qtree.xconstruct(qtree.parse_tokens(list(c[1:]))), []) \
                and any(len(d) > 3 and d[3] != "none" for d in case["cmds"] if d[0] == "doc"):
            return True         # three agreeing opinions on a tree the optimiser folds, over a non-empty catalog
    for j, (c, o) in enumerate(zip(case["cmds"], outs)):
        if c[0] == "optshape" and o != " ".join(map(str, c[1:])) and not o.startswith("err"):
            if any(x.startswith("{") and x != "{}" for x in outs):
                return True
    return False


def features(case, outs):
    f = ["mode:" + case.get("mode", "small")]
    for c, o in zip(case["cmds"], outs):
        if c[0] == "xopt":
            t = qtree.parse_tokens(list(c[1:]))
            f.append("xopt:" + ("agree" if o == "ok" else "differ"))
            f += ["xopt-const:" + x for x in qtree.xfeatures(t)]
            folds = qtree.xfolds(qtree.xconstruct(t), [])
            for op, cc, i, leaves in folds:
                f.append("xopt-fold:" + {("or", "eq"): "any", ("and", "eq"): "all", ("and", "noteq"): "notany",
                                         ("or", "noteq"): "notall"}[(op, cc)])
                for x in sorted(set(x for k in leaves for x in qtree.xfeatures(k))):
                    f.append("xopt-fold-over:" + x)
            eff = qtree.xeffective(t)
            if any(c in ("gt", "ge") for c, _ in eff) and any(c in ("lt", "le") for c, _ in eff):
                f.append("xopt:lower+upper-bounds")
            idx = set(i for _, i in qtree.xeffective(t))
            if any(x[1] == "twocat" for x in case["cfg"]) and any(i ^ 1 in idx for i in idx):
                f.append("xopt:same-named-indexes-mixed")
            continue
        if c[0] in ("opt", "optrepeat") and any(x[1] == "twocat" for x in case["cfg"]):
            idx = set(i for _, i in qtree.xeffective(qtree.parse_tokens(list(c[1:]))))
            if any(i ^ 1 in idx for i in idx):
                f.append("same-named-indexes-mixed")
        if c[0] in ("opt", "optrepeat"):
            from props import c04
            f.append("arity:" + c04.arity_class(c04.max_arity(qtree.parse_tokens(list(c[1:])))))
        if c[0] == "optshape":
            toks = o.split()
            f.append("optimiser:" + ("unchanged" if o == " ".join(map(str, c[1:])) else "changed"))
            if "range" in toks and "range" not in c[1:]:
                f.append("paired-range")
            nb = sum(1 for t in c[1:] if t in ("gt", "ge", "lt", "le"))
            if nb >= 3:
                f.append("three-or-more-bounds")
            for t in ("any", "all", "notany", "notall"):
                if t in toks and t not in c[1:]:
                    f.append("folded:" + t)
        elif c[0] in ("opt", "optrepeat"):
            f.append("cmd:" + c[0])
            f.append("opt-answer:" + ("empty" if o == "{}" else "nonempty" if o.startswith("{") else o))
        elif c[0] == "optsafe" and o is not None:
            # share of trees inside the hypotheses of c05_optimize_sound_partial
            f.append("theorem-hypotheses:" + ("inside" if o == "safe" else "outside(" + o + ")"))
    return f


def witnesses():
    cfg = [["cfg", "family", 64], ["cfg", "index", "field"], ["cfg", "index", "keyword"]]
    kinds = ["field", "keyword"]
    docs = [["doc", 0, 1, 1], ["doc", 0, 2, 5], ["doc", 0, 3, 7], ["doc", 0, 6, "none"],
            ["doc", 1, 1, 1, 2], ["doc", 1, 2, 2], ["doc", 1, 3, 3]]
    mk = lambda *cmd: {"session": "query", "cfg": cfg, "kinds": kinds,  # noqa: E731
                       "cmds": docs + [list(cmd), ["optsafe"] + list(cmd[1:])]}
    return [
        ("D3", mk("opt", "or", 2, "cmp", "noteq", 0, "one", 5, "cmp", "noteq", 0, "one", 7)),
        ("D5", mk("opt", "or", 2, "cmp", "lt", 0, "one", 2, "cmp", "gt", 0, "one", 6)),
        ("D2", mk("opt", "or", 2, "cmp", "noteq", 1, "one", 1, "cmp", "noteq", 1, "one", 2)),
        ("D23", {"session": "query", "cfg": cfg[:2], "kinds": ["field"], "mode": "exotic",
                 "cmds": [["doc", 0, 1, 1], ["doc", 0, 2, 3], ["doc", 0, 3, 5], ["doc", 0, 4, 8], ["doc", 0, 5, 2],
                          ["xopt", "or", 2, "cmp", "eq", 0, "one", "t2:4", "cmp", "eq", 0, "one", 8]]}),
    ]


NEIGHBOURHOOD_TRIES = 400


def neighbourhood(rng, case):
    """a tree shape diverged from the model: look for a catalog on which the *result* is wrong"""
    kinds = case["kinds"]
    trees = [["xopt" if c[0] == "xopt" else "opt"] + list(c[1:]) for c in case["cmds"] if c[0] != "doc"]
    twocat = any(c[1] == "twocat" for c in case["cfg"])       # same-named indexes stay same-named
    _, cfg, docs, _ = qtree.gen_catalog_x(rng, rng.random() < 0.5, kinds=kinds, twocat=twocat)
    return {"session": "query", "cfg": cfg, "kinds": kinds, "cmds": docs + trees}
