"""C06  Index bookkeeping matches a fresh index built from the current contents."""
import importlib

from lib.core import exc_name

ID = "C06"
AUDIT_IMPORTS = ["HypatiaProofs.Properties.C06Field"]
THEOREMS = ["Hyp.Field." + t for t in (
    "c06_field_bookkeeping", "c06_field_fresh", "c06_field_history_independent", "c06_field_reindex",
    "c06_field_unindex_unknown", "c06_field_unindex_erases", "c06_field_reset")]
CASES = {"quick": 600, "thorough": 40000}
BUDGET_S = {"quick": 45, "thorough": 700}
RULE = ("histories of index/reindex/unindex/reset per index kind (field now; keyword, facet, text are added as "
        "their models land) incl. re-indexing identical content, value <-> no value alternation, unindexing "
        "unknown ids, reset in the middle, both BTrees families; after every operation the whole observable "
        "tuple (indexed, not_indexed, docids, the three counts, word_count, unique_values) and document_repr of "
        "touched ids are compared with the model, with the specification's table and with a freshly built "
        "real index over the current mapping. non-trivial = at least 3 different observation tuples")
LEVEL_TEXT = ("Lean 4: the refinement invariant makes every enumeration/statistics answer a function of the "
              "current document table; proved consequences: fresh-index equivalence, history independence, "
              "reindex = unindex+index, unindex of unknown ids is a no-op, unindex erases every trace, reset = "
              "new index. Correspondence: real indexes vs compiled model vs fresh real index after every op")
LEVEL_NOTE = ("trusted: Lean kernel, BTrees semantics as modelled, sampled correspondence, harness; currently "
              "proved for the field index, other kinds covered by correspondence once their models are merged")
TECHNIQUE = "Lean 4 refinement invariant + observational-equivalence theorems; differential correspondence after every op"

c01 = importlib.import_module("props.c01")
KINDS = ["field"]


def gen(rng, tier, idx):
    kind = rng.choice(KINDS)
    fam = rng.choice([32, 64])
    ids = (c01.IDS32 if fam == 32 else c01.IDS64)
    if rng.random() < 0.6:
        ids = ids[:rng.randrange(2, 8)]
    nvals = rng.randrange(1, 7)
    used = sorted(rng.sample(range(len(c01.INT_POOL)), nvals))
    maxlen = 40 if tier == "quick" or rng.random() < 0.9 else 300
    cmds = []
    for _ in range(rng.randrange(4, maxlen)):
        r = rng.random()
        d = rng.choice(ids)
        if r < 0.04:
            cmds.append(["reset"])
        elif r < 0.2:
            cmds.append(["unindex", d])
        elif r < 0.4:
            cmds.append([rng.choice(["index", "reindex"]), d, "none"])
        else:
            cmds.append([rng.choice(["index", "reindex"]), d, rng.choice(used)])
        cmds.append(["obs"])
        if rng.random() < 0.3:
            cmds.append(["obsfresh"])
        if rng.random() < 0.5:
            cmds.append(["repr", d])
        if rng.random() < 0.2:
            cmds.append(["repr", rng.choice(ids)])
    cmds.append(["obsfresh"])
    cfg = [["cfg", "family", fam], ["cfg", "vtype", rng.choice(["int", "str"])],
           ["cfg", "disc", rng.choice(["attr", "callable"])]]
    return {"session": kind, "cfg": cfg, "cmds": cmds}


def model_cmd(c):
    return ["index"] + list(c[1:]) if c[0] == "reindex" else c


def impl_run(hyp, case):
    im = c01.FieldImpl(hyp, c01.cfgdict(case))
    return [im.execute(c) for c in case["cmds"]]


def nontrivial(case, outs):
    return len({o for c, o in zip(case["cmds"], outs) if c[0] == "obs"}) >= 3


def features(case, outs):
    f = ["kind:" + case["session"]]
    last = {}
    for c, o in zip(case["cmds"], outs):
        if c[0] in ("index", "reindex"):
            prev = last.get(c[1], "unknown")
            f.append("%s:%s->%s%s" % (c[0], "none" if prev == "none" else "unknown" if prev == "unknown" else "val",
                                      "none" if c[2] == "none" else "val",
                                      "(same)" if prev == c[2] else ""))
            last[c[1]] = c[2]
        elif c[0] == "unindex":
            f.append("unindex:" + ("known" if c[1] in last else "unknown"))
            last.pop(c[1], None)
        elif c[0] == "reset":
            last = {}
            f.append("reset")
        elif c[0] == "repr":
            f.append("repr:" + ("default" if o == "none" else "value"))
        if isinstance(o, str) and o.startswith("err"):
            f.append(o)
    return f


# ============================================================================ kind: text  (TextIndex, Okapi and
# cosine back ends) -- self-contained block: wraps gen / impl_run / model_cmd / features / nontrivial
# Model: lean/HypatiaModel/TextIndex.lean, theorems: HypatiaProofs/Properties/C06Text.lean, session `text`.
# Mutation sanity check of this kind (scratch copies, VERIF_REPO=/var/tmp/mut_text_N, deleted afterwards), all
# reported VIOLATION with a replay on seed 0:
#   T1 baseindex._del_wordinfo: `self.word_count.change(-1)` dropped              (word_count drifts after the last
#      document with a word goes away)
#   T2 TextIndex.index_doc: the `self._not_indexed.remove(docid)` branch dropped   (no-value -> text: id stays in
#      not_indexed, indexed and not_indexed overlap)
#   T3 baseindex.unindex_doc: `self.indexed_count.change(-1)` dropped
#   T4 baseindex._add_wordinfo: `self.word_count.change(1)` dropped               (only the re-index path uses it:
#      needs a re-index that brings a word no posting has)
#   T5 TextIndex.reset: `self._not_indexed = ...TreeSet()` dropped
#   T6 TextIndex.unindex_doc: `_not_indexed.remove(docid)` dropped
c03 = importlib.import_module("props.c03")
AUDIT_IMPORTS.append("HypatiaProofs.Properties.C06Text")
THEOREMS += ["Hyp.Text." + t for t in (
    "c06_text_bookkeeping", "c06_text_totaldoclen", "c06_text_history_independent", "c06_text_fresh",
    "c06_text_reindex", "c06_text_unindex_unknown", "c06_text_unindex_erases", "c06_text_reset")]
TEXT_KIND = "text"         # not appended to KINDS: the generator above picks its session from that list
TEXT_WORDS = ["apple", "app", "bat", "cat", "dog", "x1", "café", "zed", "the", "to"]


def gen_text_kind(rng, tier):
    pl = rng.choice(["default"] * 3 + ["nostop", "single", "html"])
    backend = rng.choice(["okapi", "cosine"])
    fam = rng.choice(["32", "64"])
    ids = list(range(8)) + [2 ** 31 - 1, -2 ** 31]
    if rng.random() < 0.6:
        ids = ids[:rng.randrange(2, 7)]
    words = rng.sample(TEXT_WORDS, rng.randrange(2, 8))
    stops = c03.c15.stops()
    maxlen = 30 if tier == "quick" or rng.random() < 0.9 else 150
    cmds = []
    texts = {}
    for _ in range(rng.randrange(4, maxlen)):
        r = rng.random()
        d = rng.choice(ids)
        if r < 0.04:
            cmds.append(["reset"])
            texts = {}
        elif r < 0.2:
            cmds.append(["unindex", d])
            texts.pop(d, None)
        elif r < 0.38:
            cmds.append(["tindex", d, "n"])
            texts.pop(d, None)
        elif r < 0.5 and d in texts:
            cmds.append(["tindex", d] + texts[d])              # identical content again
        else:
            toks = [rng.choice(words) for _ in range(rng.choice([0, 1, 1, 2, 3, 5, 8]))]
            if d in texts and rng.random() < 0.4:
                toks = toks[:1]                                 # shrink: words disappear from the index
            t = c03.gen_textarg(rng, toks, stops)
            cmds.append(["tindex", d] + t)
            texts[d] = t
        cmds.append(["obs"])
        if rng.random() < 0.3:
            cmds.append(["obsfresh"])
        if rng.random() < 0.5:
            cmds.append(["repr", d])
        if rng.random() < 0.2:
            cmds.append(["repr", rng.choice(ids)])
    cmds.append(["obsfresh"])
    case = c03.make_case(c03.PIPELINES[pl], backend, fam, "small",
                         [(["index"] + c[1:]) if c[0] == "tindex" else c for c in cmds])
    case["cmds"] = cmds
    return case


_gen_other_kinds = gen


def gen(rng, tier, idx):                                        # noqa: F811
    if rng.random() < 1.0 / (len(KINDS) + 1):
        return gen_text_kind(rng, tier)
    return _gen_other_kinds(rng, tier, idx)


_model_cmd_other_kinds = model_cmd


def model_cmd(c):                                               # noqa: F811
    if c[0] == "tindex":
        return c03.model_cmd(["index"] + list(c[1:]))
    return _model_cmd_other_kinds(c)


_impl_run_other_kinds = impl_run


def impl_run(hyp, case):                                        # noqa: F811
    if case["session"] == "text":
        im = c03.Impl(c03.cfgdict(case))
        return [im.run((["index"] + list(c[1:])) if c[0] == "tindex" else c) for c in case["cmds"]]
    return _impl_run_other_kinds(hyp, case)


_features_other_kinds = features


def features(case, outs):                                       # noqa: F811
    if case["session"] != "text":
        return _features_other_kinds(case, outs)
    cd = c03.cfgdict(case)
    f = ["kind:text", "text:backend:" + cd.get("backend", "?"), "text:family:" + cd.get("family", "?")]
    last = {}
    for c, o in zip(case["cmds"], outs):
        if c[0] == "tindex":
            prev = last.get(c[1], "unknown")
            now = "none" if c[2] == "n" else "text"
            f.append("text:index:%s->%s%s" % (prev if prev in ("unknown", "none") else "text", now,
                                              "(same)" if prev == tuple(c[2:]) and now == "text" else ""))
            last[c[1]] = "none" if c[2] == "n" else tuple(c[2:])
        elif c[0] == "unindex":
            f.append("text:unindex:" + ("known" if c[1] in last else "unknown"))
            last.pop(c[1], None)
        elif c[0] == "reset":
            last = {}
            f.append("text:reset")
        elif c[0] == "repr":
            f.append("text:repr:" + ("default" if o == "none" else "words"))
        if isinstance(o, str) and o.startswith("err"):
            f.append("text:" + o)
    return f
# ============================================================================ end of kind: text
