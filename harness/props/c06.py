"""C06  Index bookkeeping matches a fresh index built from the current contents.

One module for all index kinds.  The per-kind code lives in clearly separated blocks
(`# ==== field ====`, `# ==== keyword ====`, `# ==== facet ====`); a kind is registered in the `KIND`
table at the bottom of its block (generator, implementation wrapper, feature extractor, Lean module,
theorem names).  Adding a kind (text) = adding one more block; nothing else changes.

Commands shared by all kinds (one output line each, `model ## spec` on the Lean side):
  index/reindex d v..   index_doc / reindex_doc
  unreindex d v..       unindex_doc(d) then index_doc(d, v) (alternating with the inherited
                        BaseIndexMixin.reindex_doc, which is literally that); the model runs ONE index step
  unindex d, reset      (keyword/facet also: optimize, setthr n; keyword: indexstr d)
  obs                   indexed, not_indexed, docids, the three counts, word_count, unique_values
  obsfresh              the same tuple of a freshly built index over the current docid -> value mapping
                        (real side: a new real index; model side: the model of a new index)
  repr d / reprfresh d  document_repr (called with an explicit default and, alternately, with the implicit
                        default None)
  numdocs               the `_num_docs` Length of keyword/facet indexes: written by index_doc/unindex_doc,
                        read by no method of these classes; probed as an attribute, skipped if absent

Mutation sanity checks (scratch copies /var/tmp/mut_c06_<N>, VERIF_REPO, deleted afterwards; quick tier,
seed 0).  All 22 gave VIOLATION with a shrunk replay (what manifested is given after `->`):
  K1  keyword.unindex_doc: `_num_docs.change(-1)` dropped -> numdocs probe 2 != 1 after unindex+index
      (no public method of KeywordIndex/FacetIndex reads `_num_docs`: only the attribute probe sees it)
  K2  keyword.index_doc: `_not_indexed.remove(docid)` on re-index with a value dropped -> index none; index kw:
      indexed/ni overlap
  K3  keyword.unindex_doc: `del idx[word]` of an emptied posting dropped (stale forward index) -> wc/uv
  K4  keyword.index_doc: `if old_kw: unindex_doc` on an empty list dropped -> kw -> []: still indexed, repr
  K5  keyword.index_doc differential update: `del _fwd_index[word]` of an emptied posting dropped -> after a
      changed-keyword re-index wc=4 uv=[3 5 7 9] instead of wc=2
  K6  keyword.reset keeps an existing `_not_indexed` -> index none; reset: ni survives
  K7  keyword.index_doc marker branch: unindex of the previous value dropped -> kw -> none: repr still a value
  K8  keyword.unindex_doc: `break` after deleting the first emptied posting -> a second keyword keeps the id
  K9  keyword._insert_forward: promotion to TreeSet loses a member (needs the threshold to be reached)
      -> later unindex hits KeyError path, document stays indexed
  K10 keyword.optimize: demotion to Set loses a member (needs setthr up + optimize) -> wc/uv after unindex
  F1  facet.index_doc: unindex of the old value dropped -> stale prefix postings: uv=[1 1:4 1:4:6] for a
      document now listed under 1 only (also numdocs)
  F2  facet.index_doc: `_not_indexed.remove` dropped -> index none; index paths: ni keeps the id
  F3  facet.index_doc: `_num_docs.change(1)` also when no facet matched -> numdocs probe
  F4  facet.index_doc marker branch: unindex dropped -> indexed/ni overlap
  F5  facet.document_repr reads the forward map -> repr
  B1  BaseIndexMixin.docids: `len(indexed) == 0` short-cut returns an empty set -> only-withdrawn state
  B2  BaseIndexMixin.docids_count = len(indexed()) -> dc with a withdrawn id
  B3  BaseIndexMixin.docids: union(indexed, indexed) -> needs both sets non-empty
  X1  field.document_repr ignores an explicit default -> repr with explicit marker
  X2  field.unindex_doc: `del _fwd_index[value]` dropped -> wc/uv after a changed value
  X3  field.index_doc: same-value short-cut bumps `_num_docs` -> ic=2 after re-indexing identical content
  X4  field.document_repr: implicit default '' instead of None -> repr called without a default
(K4 and F1 were re-run with the numdocs probe disabled: caught through the public API alone.)
Bulk modes (field / keyword / facet: the mutating commands of the bulk histories of props/c01, c02, c13 with this
property's probes; measured, quick tier, seed 0: 11% / 15% / 11% of the kind's cases are bulk, a posting of 65-300
docids in 8-11%, > 30 distinct values in 3-4%, > 120 documents without a value in 1-1.5%; 60% of the keyword/facet
bulk cases run under the class default tree_threshold) and the value pools of C01/C02 (num, tuple, bytes, wide).
Size- / value-dependent mutations (scratch copies /var/tmp/mut_strong1_<N>), all VIOLATION:
  M2  field.index_doc takes a falsy value ('' / () / b'') as "no value"
  M3  keyword.unindex_doc skips postings with more than 100 docids (needs the big posting to go away entirely)
  M4  keyword.normalize truncates float keywords to int
  M6  BaseIndexMixin.docids drops not_indexed once more than 150 documents are indexed
  M12 docids() cached on (indexed_count, not_indexed_count)
Round 4: the field kind also draws from the `X+none` pools of props/c01.py (24% of the field cases; the VALUE None
- attribute present and None - is used by a third of the value-carrying operations there: 2100 index operations to or
from the value None per quick run).  document_repr(d) with the implicit default None cannot tell "value None" from
"unknown" (it returns None for both), so documents whose value is None are asked with an explicit default.  Seeded
C06_G (unindex_doc reads `pop(docid, None)` and returns on None) was missed before and is caught now; mutation C of
props/c01.py (index_doc tests `rev_index.get(docid) is not None`) is caught here too.
`BaseIndexMixin.reindex_doc` without its unindex_doc is an equivalent mutant for these three classes (their
index_doc handles a known id itself); the three classes override reindex_doc by index_doc.
"""
import ast
import importlib
import re

from lib import zbox
from lib.core import exc_name, idset

ID = "C06"
CASES = {"quick": 4000, "thorough": 120000}
BUDGET_S = {"quick": 34, "thorough": 660}
RULE = ("histories of index/reindex/unindex+index/unindex/reset (keyword, facet: also optimize() and "
        "tree_threshold changes over {1,2,3}, rarely 64) per index kind (field, keyword, facet, text with Okapi and cosine back "
        "ends, four pipelines, DICT_CUTOFF 2/3/default) incl. re-indexing identical content (same list, reordered, with duplicates), "
        "value <-> no value alternation, empty keyword/path lists on known and unknown ids, paths matching "
        "no configured facet, unindexing unknown ids, reset in the middle, both BTrees families, attribute and "
        "callable discriminators, list, tuple and set values, the value pools of C01/C02 (field: 24% with the VALUE None as "
        "lowest value; int, str incl. '', ints/"
        "floats/bools mixed with 1 == 1.0 == True as one value, tuples, bytes, 120-value pools); bulk modes (about "
        "12% of the field/keyword/facet cases): 70-400 documents with one posting of 65-400 docids or 35-110 "
        "distinct values, optionally 121-199 documents without a value, a drain of the big posting back to 58-66 "
        "docids or to nothing, 60% of the keyword/facet bulk cases under the class default tree_threshold, probes "
        "rarely during loading, then the full tuple + fresh index, then after every third operation; after every operation the whole observable tuple "
        "(indexed, not_indexed, docids, the three counts, word_count, unique_values) and document_repr of "
        "touched and random ids (explicit and implicit default) are compared with the model, with the "
        "specification's table and with a freshly built real index over the current mapping; the hidden "
        "_num_docs counter of keyword/facet is probed as an attribute. non-trivial = at least 3 different "
        "observation tuples")
LEVEL_TEXT = ("Lean 4: the refinement invariant makes every enumeration/statistics answer a function of the "
              "current document table (field: docid -> value; keyword: docid -> keyword set; facet: docid -> "
              "configured facets that are a ':'-prefix of a current path; text: docid -> token list), for every history, every "
              "tree_threshold and every placement of optimize(); proved consequences per kind: bookkeeping "
              "identities, fresh-index equivalence, history independence, reindex = unindex+index, unindex of "
              "unknown ids is a no-op (keyword/facet: the state is literally unchanged), unindex erases every "
              "trace, reset = new index. Correspondence: real indexes vs compiled model vs specification "
              "table vs fresh real index after every op")
LEVEL_NOTE = ("trusted: Lean kernel, BTrees semantics as modelled, sampled correspondence, harness; proved for "
              "the field, keyword, facet and text index (text: equality of fresh and historical index is up to "
              "word-id renaming; Okapi's total document length is proved but private, hence not observed). "
              "document_repr of keyword/facet is compared as the parsed OOSet repr (members in key order)")
TECHNIQUE = "Lean 4 refinement invariant + observational-equivalence theorems; differential correspondence after every op"

c01 = importlib.import_module("props.c01")
c02 = importlib.import_module("props.c02")
c13 = importlib.import_module("props.c13")

KIND = {}                       # session name -> dict(gen, impl, features, imports, theorems)
SEVEN = ("bookkeeping", "fresh", "history_independent", "reindex", "unindex_unknown", "unindex_erases", "reset")


def _probes(rng, cmds, d, ids, fresh=True, numdocs=False):
    """observations after one operation on docid `d`"""
    cmds.append(["obs"])
    if rng.random() < 0.3:
        cmds.append(["obsfresh"])
    if rng.random() < 0.5:
        cmds.append(["repr", d])
    if rng.random() < 0.2:
        cmds.append(["repr", rng.choice(ids)])
    if fresh and rng.random() < 0.1:
        cmds.append(["reprfresh", rng.choice(ids)])
    if numdocs and rng.random() < 0.3:
        cmds.append(["numdocs"])


def _tail(cmds, ids, fresh=True, numdocs=False):
    cmds.append(["obs"])
    cmds.append(["obsfresh"])
    if numdocs:
        cmds.append(["numdocs"])
    for d in ids[:6]:
        cmds.append(["repr", d])
        if fresh:
            cmds.append(["reprfresh", d])


def _index_verb(rng):
    return rng.choice(["index", "index", "reindex", "unreindex"])


BULK_SHARE = 0.1
_MUT = ("index", "reindex", "unindex", "reset", "optimize", "setthr", "indexstr")


def _from_bulk(rng, cmds0, numdocs=False, fresh=True):
    """size-dependent bookkeeping: the mutating commands of a bulk history of C01 / C02 / C13 (70-400 documents, one
    posting with at least 65 docids or 35-110 distinct values, optionally > 120 withdrawn documents, a drain back
    to ~64, a small history) with this property's probes: rarely while the bulk is loaded, the full tuple and the
    fresh-index comparison once it is, then after every third operation"""
    muts = [c for c in cmds0 if c[0] in _MUT]
    k = 0
    while k < len(muts) and muts[k][0] == "index":
        k += 1
    ids = sorted({c[1] for c in muts[k:] if c[0] in ("index", "reindex", "unindex")})[:40] or [muts[0][1]]
    cmds = []
    for i, c in enumerate(muts):
        if i >= k and c[0] in ("index", "reindex") and rng.random() < 0.3:
            c = [_index_verb(rng)] + list(c[1:])
        cmds.append(c)
        if i < k - 1:
            if rng.random() < 0.01:
                cmds.append(["obs"])
        elif i == k - 1:
            cmds.append(["obs"])
            cmds.append(["obsfresh"])
            if numdocs:
                cmds.append(["numdocs"])
        elif rng.random() < 0.35:
            d = c[1] if c[0] in ("index", "reindex", "unreindex", "unindex") else rng.choice(ids)
            cmds.append(["obs"])
            if rng.random() < 0.1:
                cmds.append(["obsfresh"])
            if rng.random() < 0.5:
                cmds.append(["repr", d])
            if numdocs and rng.random() < 0.3:
                cmds.append(["numdocs"])
    _tail(cmds, ids, fresh=fresh, numdocs=numdocs)
    return cmds


class _Base(object):
    """what the kinds share on the implementation side: the current docid -> value mapping, the freshly
    built index, the observation tuple, document_repr with both call shapes"""

    def setup(self, cfg):
        self.current = {}
        self.nrepr = 0
        self.nre = 0

    def fresh(self):
        f = self.mk()
        for d, toks in self.current.items():
            f.index_doc(d, self.doc(toks))
        return f

    def uv(self, idx):          # canonical unique_values
        raise NotImplementedError

    def obs(self, idx):
        return "indexed=%s ni=%s docids=%s ic=%d nic=%d dc=%d wc=%d uv=[%s]" % (
            idset(idx.indexed()), idset(idx.not_indexed()), idset(idx.docids()), idx.indexed_count(),
            idx.not_indexed_count(), idx.docids_count(), idx.word_count(), self.uv(idx))

    def show_repr(self, idx, d):
        self.nrepr += 1
        if self.nrepr % 2:
            default = object()
            r = idx.document_repr(d, default)
        else:
            default = None
            r = idx.document_repr(d)
        if r is default:
            return "none"
        if not isinstance(r, str):
            return "repr-not-a-string %r" % (r,)
        return self.canon_repr(r)

    def unreindex(self, d, obj):
        """unindex_doc + index_doc, literally and through the inherited BaseIndexMixin.reindex_doc"""
        self.nre += 1
        if self.nre % 2:
            self.idx.unindex_doc(d)
            self.idx.index_doc(d, obj)
        else:
            from hypatia.util import BaseIndexMixin
            BaseIndexMixin.reindex_doc(self.idx, d, obj)

    def execute(self, c):
        try:
            op = c[0]
            if op in ("index", "reindex", "unreindex"):
                self.current[c[1]] = list(c[2:])
                obj = self.doc(list(c[2:]))
                if op == "index":
                    self.idx.index_doc(c[1], obj)
                elif op == "reindex":
                    self.idx.reindex_doc(c[1], obj)
                else:
                    self.unreindex(c[1], obj)
                return "ok"
            if op == "unindex":
                self.current.pop(c[1], None)
                self.idx.unindex_doc(c[1])
                return "ok"
            if op == "reset":
                self.current = {}
                self.idx.reset()
                return "ok"
            if op == "obs":
                return self.obs(self.idx)
            if op == "obsfresh":
                return self.obs(self.fresh())
            if op == "repr":
                return self.show_repr(self.idx, c[1])
            if op == "reprfresh":
                return self.show_repr(self.fresh(), c[1])
            if op == "numdocs":
                nd = getattr(self.idx, "_num_docs", None)
                return None if nd is None else str(nd())
            return self.execute_more(c)
        except Exception as e:
            return exc_name(e)

    def execute_more(self, c):
        raise ValueError(c)


def _hist_features(case, outs, value_class):
    """transition histogram shared by the kinds: what a docid had -> what it gets"""
    k = case["session"]
    f = ["kind:" + k]
    last = {}
    for c, o in zip(case["cmds"], outs):
        if c[0] in ("index", "reindex", "unreindex"):
            prev = last.get(c[1], "unknown")
            now = value_class(c[2:])
            same = "(same)" if prev == now and now != "none" and c[2:] == last.get(("raw", c[1])) else ""
            f.append("%s:%s->%s%s" % (k, prev, now, same))
            f.append("%s:via-%s" % (k, c[0]))
            last[c[1]] = now
            last[("raw", c[1])] = c[2:]
        elif c[0] == "unindex":
            f.append("%s:unindex:%s" % (k, "known" if c[1] in last else "unknown"))
            last.pop(c[1], None)
            last.pop(("raw", c[1]), None)
        elif c[0] == "reset":
            last = {}
            f.append(k + ":reset")
        elif c[0] in ("repr", "reprfresh"):
            f.append("%s:%s:%s" % (k, c[0], "default" if o == "none" else "value"))
        elif c[0] in ("optimize", "setthr", "indexstr", "numdocs", "obsfresh"):
            f.append(c[0] if c[0] != "setthr" else "setthr:%s" % c[1])
        if isinstance(o, str) and o.startswith("err"):
            f.append(o)
    return f


# =====================================================================================================
# ==== field ==========================================================================================
# =====================================================================================================
def gen_field(rng, tier):
    fam = rng.choice([32, 64])
    vtype = rng.choice(c01.VTYPES)
    if rng.random() < (0.3 if vtype in c01.WIDE_KINDS else BULK_SHARE):
        kind = "wide" if vtype in c01.WIDE_KINDS and rng.random() < 0.7 else "hot"
        cfg = [["cfg", "family", fam], ["cfg", "vtype", vtype], ["cfg", "disc", rng.choice(["attr", "callable"])],
               ["cfg", "mode", "bulk-" + kind]]
        return {"session": "field", "cfg": cfg,
                "cmds": _from_bulk(rng, c01.gen_bulk(rng, tier, fam, vtype, kind), fresh=False)}
    ids = (c01.IDS32 if fam == 32 else c01.IDS64)
    if rng.random() < 0.6:
        ids = ids[:rng.randrange(2, 8)]
    nvals = rng.randrange(1, 7)
    used = sorted(rng.sample(range(len(c01.pool_of(vtype))), nvals))
    nonev = bool(c01.qlo_of(vtype)) and rng.random() < 0.85
    if nonev:
        # `X+none` pools: the VALUE None (rank 0: attribute present and None; a value like any other, sorted below
        # everything) is among the values, and a third of the value-carrying operations use it
        used = sorted(set(used) | {0})
    maxlen = 40 if tier == "quick" or rng.random() < 0.9 else 300
    cmds = []
    for _ in range(rng.randrange(4, maxlen)):
        r = rng.random()
        d = rng.choice(ids)
        if r < 0.04:
            cmds.append(["reset"])
        elif r < 0.2:
            cmds.append(["unindex", d])
        elif r < 0.4:
            cmds.append([_index_verb(rng), d, "none"])
        elif nonev and r < 0.6:
            cmds.append([_index_verb(rng), d, 0])
        else:
            cmds.append([_index_verb(rng), d, rng.choice(used)])
        _probes(rng, cmds, d, ids, fresh=False)
    _tail(cmds, ids, fresh=False)
    cfg = [["cfg", "family", fam], ["cfg", "vtype", vtype],
           ["cfg", "disc", rng.choice(["attr", "callable"])]]
    return {"session": "field", "cfg": cfg, "cmds": cmds}


class FieldObs(_Base):
    def __init__(self, hyp, cfg):
        self.f = c01.FieldImpl(hyp, cfg)          # pools, discriminator, family: as in C01
        self.mk = self.f.mk
        self.idx = self.f.idx
        self.setup(cfg)

    def doc(self, toks):
        return self.f.doc(toks[0])

    def uv(self, idx):
        return " ".join(map(str, sorted(self.f.rank[repr(v)] for v in idx.unique_values())))

    def canon_repr(self, r):
        return str(self.f.rank.get(r, "?" + r))     # document_repr = repr(value)

    def show_repr(self, idx, d):
        # a document whose value is None: `document_repr(d)` with the implicit default None cannot tell "value None"
        # from "unknown" (it returns the default, None, for both) - such documents are asked with an explicit default
        cur = self.current.get(d)
        if cur and cur != ["none"] and self.f.pool[cur[0]][0] is None:
            self.nrepr += self.nrepr % 2
        return _Base.show_repr(self, idx, d)


def features_field(case, outs):
    cfg = cfgdict(case)
    nonev = c01.qlo_of(cfg.get("vtype"))
    f = _hist_features(case, outs, lambda v: "none" if v == ["none"] else "valNone" if nonev and v == [0] else "val")
    f += ["field:vtype:%s" % cfg.get("vtype"), "field:mode:%s" % cfg.get("mode", "small")]
    f += ["field:" + x for x in c01.size_features(case, lambda c: "none" if c[2] == "none" else (c[2],))[0]]
    return f


KIND["field"] = dict(gen=gen_field, impl=FieldObs, features=features_field,
                     imports="HypatiaProofs.Properties.C06Field",
                     theorems=["Hyp.Field.c06_field_" + t for t in SEVEN])


# =====================================================================================================
# ==== keyword ========================================================================================
# =====================================================================================================
KW_THRS = [1, 1, 2, 2, 3, 3, 64]


def gen_keyword(rng, tier):
    fam = rng.choice([32, 64])
    vtype = rng.choice(c02.VTYPES)
    if rng.random() < (0.3 if vtype in ("wide", "widestr") else BULK_SHARE):
        kind = "wide" if vtype in ("wide", "widestr") and rng.random() < 0.6 else "hot"
        cfg = [["cfg", "family", fam], ["cfg", "vtype", vtype], ["cfg", "disc", rng.choice(["attr", "callable"])],
               ["cfg", "mode", "bulk-" + kind]]
        if rng.random() >= 0.6:         # otherwise the class default tree_threshold
            cfg.append(["cfg", "thr", rng.choice(c02.BULK_THRS)])
        return {"session": "keyword", "cfg": cfg,
                "cmds": _from_bulk(rng, c02.gen_bulk(rng, tier, fam, vtype, kind), numdocs=True)}
    ids = (c02.IDS32 if fam == 32 else c02.IDS64)
    if rng.random() < 0.7:
        ids = ids[:rng.randrange(2, 8)]
    used = sorted(rng.sample(range(len(c02.pool_of(vtype))), rng.randrange(2, 6)))
    maxlen = 40 if tier == "quick" or rng.random() < 0.9 else 300
    cmds = []
    cur = {}                                # docid -> keyword set (documents with at least one keyword)
    for _ in range(rng.randrange(4, maxlen)):
        r = rng.random()
        d = rng.choice(ids)
        if cur and rng.random() < 0.4:
            d = rng.choice(sorted(cur))
        if r < 0.04:
            cmds.append(["reset"])
            cur = {}
        elif r < 0.16:
            if rng.random() < 0.4:
                d = rng.choice(ids)        # often unknown
            cmds.append(["unindex", d])
            cur.pop(d, None)
        elif r < 0.32:
            cmds.append([_index_verb(rng), d, "none"])
            cur.pop(d, None)
        elif r < 0.40:
            cmds.append([_index_verb(rng), d])                  # empty keyword list
            cur.pop(d, None)
        elif r < 0.42:
            cmds.append(["indexstr", d])
        elif r < 0.47:
            cmds.append(["optimize"])
        elif r < 0.53:
            cmds.append(["setthr", rng.choice(KW_THRS)])
            if rng.random() < 0.5:
                cmds.append(["optimize"])
        else:
            new = c02.next_keywords(rng, used, sorted(cur.get(d, ())))
            cmds.append([_index_verb(rng), d] + new)
            cur[d] = set(new)
        _probes(rng, cmds, d, ids, numdocs=True)
    _tail(cmds, ids, numdocs=True)
    cfg = [["cfg", "family", fam], ["cfg", "vtype", vtype],
           ["cfg", "disc", rng.choice(["attr", "callable"])], ["cfg", "thr", rng.choice(KW_THRS)]]
    return {"session": "keyword", "cfg": cfg, "cmds": cmds}


_OOSET = re.compile(r"^OOSet\(\[(.*)\]\)$", re.S)


def parse_ooset(r):
    """members of an `OOSet` repr, in the order shown; None if the string is something else"""
    m = _OOSET.match(r)
    if not m:
        return None
    try:
        # repr(float('inf')) is not a literal: 1e999 is
        return list(ast.literal_eval("[" + re.sub(r"\binf\b", "1e999", m.group(1)) + "]"))
    except (ValueError, SyntaxError):
        return None


class KeywordObs(_Base):
    def __init__(self, hyp, cfg):
        import BTrees
        from hypatia.keyword import KeywordIndex
        self.pool = c02.pool_of(cfg.get("vtype", "str"))
        self.rank = c02.rank_table(cfg.get("vtype", "str"))
        fam = BTrees.family32 if cfg.get("family") == 32 else BTrees.family64
        if cfg.get("disc") == "callable":
            disc = zbox.disc_x
        else:
            disc = "x"
        self.idx = KeywordIndex(disc, family=fam)
        if "thr" in cfg:                # otherwise the class default (modelled as 64)
            self.idx.tree_threshold = int(cfg["thr"])

        def mk():
            f = KeywordIndex(disc, family=fam)
            f.tree_threshold = self.idx.tree_threshold      # the instance's current threshold
            return f
        self.mk = mk
        self.n = 0
        self.setup(cfg)

    def doc(self, toks):
        o = c02.Doc()
        self.n += 1
        if toks == ["none"]:
            return o
        kws = [self.pool[r][(self.n + i) % len(self.pool[r])] for i, r in enumerate(toks)]
        o.x = kws if self.n % 2 else set(kws) if kws and self.n % 6 == 0 else tuple(kws)
        return o

    def uv(self, idx):
        return " ".join(map(str, sorted(self.rank[repr(v)] for v in idx.unique_values())))

    def canon_repr(self, r):
        items = parse_ooset(r)
        if items is None or any(not (a < b) for a, b in zip(items, items[1:])):
            return "unexpected-repr " + r.replace(" ", "_")
        ranks = [self.rank.get(repr(v)) for v in items]
        if None in ranks:
            return "unexpected-repr " + r.replace(" ", "_")
        return "[" + " ".join(map(str, sorted(ranks))) + "]"

    def execute_more(self, c):
        op = c[0]
        if op == "indexstr":
            # rejected with TypeError; the code clears a 'withdrawn' mark first (KeywordSpec.stepT)
            if self.current.get(c[1]) == ["none"]:
                del self.current[c[1]]
            o = c02.Doc()
            o.x = "ab"
            self.idx.index_doc(c[1], o)
            return "ok"
        if op == "optimize":
            self.idx.optimize()
            return "ok"
        if op == "setthr":
            self.idx.tree_threshold = c[1]
            return "ok"
        raise ValueError(c)


def features_keyword(case, outs):
    def cls(v):
        return "none" if v == ["none"] else "[]" if not v else "kw"
    f = _hist_features(case, outs, cls)
    cfg = c02.cfgdict(case)
    f.append("thr0:%s" % cfg.get("thr", "class-default"))
    f += ["keyword:vtype:%s" % cfg.get("vtype"), "keyword:mode:%s" % cfg.get("mode", "small")]
    sf, mp = c01.size_features(case, lambda c: "none" if c[2:] == ["none"] else tuple(set(c[2:])) or None)
    f += ["keyword:" + x for x in sf]
    if mp >= 65 and "thr" not in cfg:
        f.append("keyword:posting>=65-under-default-threshold")
    cur = {}
    for c in case["cmds"]:
        if c[0] in ("index", "reindex", "unreindex") and c[2:] != ["none"] and c[2:]:
            prev, new = cur.get(c[1]), set(c[2:])
            if prev is not None:
                f.append("kwchange:" + ("same" if new == prev else "grow" if new > prev else "shrink" if new < prev
                                        else "disjoint" if not (new & prev) else "mixed"))
            if len(new) < len(c[2:]):
                f.append("kw:dup")
            cur[c[1]] = new
        elif c[0] in ("index", "reindex", "unreindex", "unindex"):
            cur.pop(c[1], None)
        elif c[0] == "reset":
            cur = {}
    return f


KIND["keyword"] = dict(gen=gen_keyword, impl=KeywordObs, features=features_keyword,
                       imports="HypatiaProofs.Properties.C06Keyword",
                       theorems=["Hyp.Keyword.c06_keyword_" + t for t in SEVEN + (
                           "history_independent_get", "reset_then", "representation_invisible")])


# =====================================================================================================
# ==== facet ==========================================================================================
# =====================================================================================================
def gen_facet(rng, tier):
    fam = rng.choice([32, 64])
    ids = (c13.IDS32 if fam == 32 else c13.IDS64)
    if rng.random() < 0.7:
        ids = ids[:rng.randrange(2, 8)]
    r = rng.random()
    if r < 0.35:
        facets = list(rng.choice([["a", "a:b", "a:b:c", "a:b:c:x"], ["a", "ab", "abc"], ["é", "é:中", "中"],
                                  ["a:b", "c", "a", "b:c"], ["ab", "c", "a", "bc"], ["", "a:", ":a", "a"]]))
        facets = facets[:rng.randrange(1, len(facets) + 1)]
    else:
        facets = rng.sample(c13.FACET_POOL, rng.randrange(1, 7))
    if rng.random() < 0.1:
        facets.append(facets[0])
    if rng.random() < BULK_SHARE:
        cfg = [["cfg", "facets"] + [c13.enc(f) for f in facets], ["cfg", "family", fam],
               ["cfg", "disc", rng.choice(["attr", "callable"])], ["cfg", "mode", "bulk"]]
        if rng.random() >= 0.6:         # otherwise the class default tree_threshold
            cfg.append(["cfg", "thr", rng.choice(c13.BULK_THRS)])
        return {"session": "facet", "cfg": cfg,
                "cmds": _from_bulk(rng, c13.gen_bulk(rng, tier, fam, facets), numdocs=True)}
    maxlen = 40 if tier == "quick" or rng.random() < 0.9 else 300
    cmds = []
    last = {}
    for _ in range(rng.randrange(4, maxlen)):
        r = rng.random()
        d = rng.choice(ids)
        if last and rng.random() < 0.4:
            d = rng.choice(sorted(last))
        if r < 0.04:
            cmds.append(["reset"])
            last = {}
        elif r < 0.16:
            if rng.random() < 0.4:
                d = rng.choice(ids)
            cmds.append(["unindex", d])
            last.pop(d, None)
        elif r < 0.30:
            cmds.append([_index_verb(rng), d, "none"])
            last[d] = ["none"]
        elif r < 0.32:
            # the value `()`: `FacetIndex.index_doc` tests `value is _marker` with `_marker = ()`, and the empty
            # tuple is a singleton, so this value takes the no-value branch (the id becomes not-indexed, unlike
            # the empty list, which is forgotten).  Modelled as the code behaves: the model and the table get
            # `none` (see model_cmd); the fresh real index is fed `()` again.  Reported, not part of C06's claim.
            cmds.append([_index_verb(rng), d, "unit"])
            last[d] = ["none"]
        elif r < 0.37:
            cmds.append(["optimize"])
        elif r < 0.42:
            cmds.append(["setthr", rng.choice(KW_THRS)])
        else:
            prev = last.get(d)
            if prev and prev != ["none"] and rng.random() < 0.25:
                ps = list(prev)                                          # identical content again
                if rng.random() < 0.5:
                    rng.shuffle(ps)
            else:
                ps = [c13.enc(p) for p in c13.gen_paths(rng, facets)]
            cmds.append([_index_verb(rng), d] + ps)
            last[d] = ps
        _probes(rng, cmds, d, ids, numdocs=True)
    _tail(cmds, ids, numdocs=True)
    cfg = [["cfg", "facets"] + [c13.enc(f) for f in facets], ["cfg", "family", fam],
           ["cfg", "disc", rng.choice(["attr", "callable"])], ["cfg", "thr", rng.choice(KW_THRS)]]
    return {"session": "facet", "cfg": cfg, "cmds": cmds}


class FacetObs(_Base):
    def __init__(self, hyp, cfg):
        import BTrees
        from hypatia.facet import FacetIndex
        fam = BTrees.family32 if cfg.get("family") == 32 else BTrees.family64
        if cfg.get("disc") == "callable":
            disc = zbox.disc_x
        else:
            disc = "x"
        facets = [c13.dec(t) for t in cfg.get("facets", [])]
        self.idx = FacetIndex(disc, facets, family=fam)
        if "thr" in cfg:                # otherwise the class default (modelled as 64)
            self.idx.tree_threshold = int(cfg["thr"])

        def mk():
            f = FacetIndex(disc, facets, family=fam)
            f.tree_threshold = self.idx.tree_threshold
            return f
        self.mk = mk
        self.n = 0
        self.setup(cfg)

    def doc(self, toks):
        o = c13.Doc()
        self.n += 1
        if toks == ["none"]:
            return o
        if toks == ["unit"]:
            o.x = ()            # FacetIndex._marker is `()`: CPython's empty tuple IS the marker (see gen_facet)
            return o
        ps = [c13.dec(t) for t in toks]
        o.x = tuple(ps) if ps and self.n % 2 == 0 else ps      # an empty value is always the empty *list*
        return o

    @staticmethod
    def show(fs):
        return " ".join(e for _, e in sorted((c13.rank_key(v), c13.enc(v)) for v in fs))

    def uv(self, idx):
        return self.show(idx.unique_values())

    def canon_repr(self, r):
        items = parse_ooset(r)
        if items is None or any(not (a < b) for a, b in zip(items, items[1:])):
            return "unexpected-repr " + r.replace(" ", "_")
        try:
            return "[" + self.show(items) + "]"
        except (KeyError, AttributeError):
            return "unexpected-repr " + r.replace(" ", "_")

    def execute_more(self, c):
        op = c[0]
        if op == "optimize":
            self.idx.optimize()
            return "ok"
        if op == "setthr":
            self.idx.tree_threshold = c[1]
            return "ok"
        raise ValueError(c)


def features_facet(case, outs):
    fs = {c13.dec(t) for t in c13.cfgdict(case).get("facets", [])}

    def cls(v):
        if v == ["none"] or v == ["unit"]:
            return "none" if v == ["none"] else "unit()"
        if not v:
            return "[]"
        m = set()
        for p in v:
            segs = c13.dec(p).split(":")
            m.update(":".join(segs[:i]) for i in range(1, len(segs) + 1) if ":".join(segs[:i]) in fs)
        return "match-none" if not m else "match-1" if len(m) == 1 else "match-nested" if any(
            a != b and b.startswith(a + ":") for a in m for b in m) else "match-many"
    f = _hist_features(case, outs, cls)
    f.append("nfacets:%d" % len(fs))
    cfg = c13.cfgdict(case)
    f += ["facet:mode:%s" % cfg.get("mode", "small"), "facet:thr0:%s" % cfg.get("thr", "class-default")]

    def listed(c):
        if c[2:] == ["none"] or c[2:] == ["unit"]:
            return "none"
        m = set()
        for p in c[2:]:
            segs = c13.dec(p).split(":")
            m.update(":".join(segs[:i]) for i in range(1, len(segs) + 1) if ":".join(segs[:i]) in fs)
        return tuple(m) or None
    sf, mp = c01.size_features(case, listed)
    f += ["facet:" + x for x in sf]
    if mp >= 65 and "thr" not in cfg:
        f.append("facet:posting>=65-under-default-threshold")
    return f


KIND["facet"] = dict(gen=gen_facet, impl=FacetObs, features=features_facet,
                     imports="HypatiaProofs.Properties.C06Facet",
                     theorems=["Hyp.Facet.c06_facet_" + t for t in SEVEN + (
                         "history_independent_get", "reset_then")])


# =====================================================================================================
# ==== dispatch (kind-independent) ====================================================================
# =====================================================================================================
KINDS = sorted(KIND)
AUDIT_IMPORTS = [KIND[k]["imports"] for k in KINDS]
THEOREMS = [t for k in KINDS for t in KIND[k]["theorems"]]


def gen(rng, tier, idx):
    return KIND[rng.choice(KINDS)]["gen"](rng, tier)


def model_cmd(c):
    # for the model `reindex_doc` and `unindex_doc; index_doc` are ONE index step: that they agree with the
    # implementation's two entry points is the property's "reindex = unindex + index"
    if c[0] in ("index", "reindex", "unreindex"):
        # facet only: the value `()` is the class's marker object, i.e. "no value" (see gen_facet)
        return ["index", c[1]] + (["none"] if list(c[2:]) == ["unit"] else list(c[2:]))
    return c


def cfgdict(case):
    return {c[1]: (c[2:] if c[1] == "facets" else c[2]) for c in case.get("cfg", [])}


def impl_run(hyp, case):
    im = KIND[case["session"]]["impl"](hyp, cfgdict(case))
    if not zbox.is_zodb(case):
        return [im.execute(c) for c in case["cmds"]]
    box = zbox.ZBox({"idx": im.idx})
    try:
        return [box.txn(c, im, ("current",)) if c[0] == "txn" else im.execute(c) for c in case["cmds"]]
    finally:
        box.close()


def nontrivial(case, outs):
    return len({o for c, o in zip(case["cmds"], outs) if c[0] == "obs"}) >= 3


def features(case, outs):
    return KIND[case["session"]]["features"](case, outs)


# ============================================================================ kind: text  (TextIndex, Okapi and
# cosine back ends) -- self-contained block: wraps gen / impl_run / model_cmd / features / nontrivial
# Model: lean/HypatiaModel/TextIndex.lean, theorems: HypatiaProofs/Properties/C06Text.lean, session `text`.
# Mutation sanity check of this kind (scratch copies, VERIF_REPO=/var/tmp/mut_text_N, deleted afterwards), all
# reported VIOLATION with a replay on seed 0:
#   T1 baseindex._del_wordinfo: `self.word_count.change(-1)` dropped              (word_count drifts after the last
#      document with a word goes away)
#   T2 TextIndex.index_doc: the `self._not_indexed.remove(docid)` branch dropped   (no-value -> text: id stays in
#      not_indexed, indexed and not_indexed overlap)
#   T3 baseindex.unindex_doc: `self.indexed_count.change(-1)` dropped
#   T4 baseindex._add_wordinfo: `self.word_count.change(1)` dropped               (only the re-index path uses it:
#      needs a re-index that brings a word no posting has)
#   T5 TextIndex.reset: `self._not_indexed = ...TreeSet()` dropped
#   T6 TextIndex.unindex_doc: `_not_indexed.remove(docid)` dropped
c03 = importlib.import_module("props.c03")
AUDIT_IMPORTS.append("HypatiaProofs.Properties.C06Text")
THEOREMS += ["Hyp.Text." + t for t in (
    "c06_text_bookkeeping", "c06_text_totaldoclen", "c06_text_history_independent", "c06_text_fresh",
    "c06_text_reindex", "c06_text_unindex_unknown", "c06_text_unindex_erases", "c06_text_reset")]
TEXT_KIND = "text"         # not appended to KINDS: the generator above picks its session from that list
TEXT_WORDS = ["apple", "app", "bat", "cat", "dog", "x1", "café", "zed", "the", "to"]


def gen_text_kind(rng, tier):
    pl = rng.choice(["default"] * 3 + ["nostop", "single", "html"])
    backend = rng.choice(["okapi", "cosine"])
    fam = rng.choice(["32", "64"])
    ids = list(range(8)) + [2 ** 31 - 1, -2 ** 31]
    if rng.random() < 0.6:
        ids = ids[:rng.randrange(2, 7)]
    words = rng.sample(TEXT_WORDS, rng.randrange(2, 8))
    stops = c03.c15.stops()
    maxlen = 30 if tier == "quick" or rng.random() < 0.9 else 150
    cmds = []
    texts = {}
    for _ in range(rng.randrange(4, maxlen)):
        r = rng.random()
        d = rng.choice(ids)
        if r < 0.04:
            cmds.append(["reset"])
            texts = {}
        elif r < 0.2:
            cmds.append(["unindex", d])
            texts.pop(d, None)
        elif r < 0.38:
            cmds.append(["tindex", d, "n"])
            texts.pop(d, None)
        elif r < 0.5 and d in texts:
            cmds.append(["tindex", d] + texts[d])              # identical content again
        else:
            toks = [rng.choice(words) for _ in range(rng.choice([0, 1, 1, 2, 3, 5, 8]))]
            if d in texts and rng.random() < 0.4:
                toks = toks[:1]                                 # shrink: words disappear from the index
            t = c03.gen_textarg(rng, toks, stops)
            cmds.append(["tindex", d] + t)
            texts[d] = t
        cmds.append(["obs"])
        if rng.random() < 0.3:
            cmds.append(["obsfresh"])
        if rng.random() < 0.5:
            cmds.append(["repr", d])
        if rng.random() < 0.2:
            cmds.append(["repr", rng.choice(ids)])
    cmds.append(["obsfresh"])
    # DICT_CUTOFF 2/3: a word's posting map switches from dict to IFBTree with 2-3 documents and stays a tree
    # while they drop the word again (seeded change C06_B lost the word_count decrement on that path)
    case = c03.make_case(c03.PIPELINES[pl], backend, fam, "small",
                         [(["index"] + c[1:]) if c[0] == "tindex" else c for c in cmds],
                         cutoff=rng.choice([None, 2, 2, 3]))
    case["cmds"] = cmds
    return case


_gen_other_kinds = gen


def gen(rng, tier, idx):                                        # noqa: F811
    # 15% of the cases keep the index in a ZODB connection with commits / evictions / aborts in between
    if rng.random() < 1.0 / (len(KINDS) + 1):
        return zbox.sprinkle(rng, gen_text_kind(rng, tier), 0.15)
    return zbox.sprinkle(rng, _gen_other_kinds(rng, tier, idx), 0.15)


_model_cmd_other_kinds = model_cmd


def model_cmd(c):                                               # noqa: F811
    if c[0] == "tindex":
        return c03.model_cmd(["index"] + list(c[1:]))
    return _model_cmd_other_kinds(c)


_impl_run_other_kinds = impl_run


def impl_run(hyp, case):                                        # noqa: F811
    if case["session"] == "text":
        im = c03.Impl(c03.cfgdict(case))
        box = zbox.ZBox({"idx": im.idx}) if zbox.is_zodb(case) else None
        try:
            return [box.txn(c, im, ("current",)) if c[0] == "txn" else
                    im.run((["index"] + list(c[1:])) if c[0] == "tindex" else c) for c in case["cmds"]]
        finally:
            if box is not None:
                box.close()
    return _impl_run_other_kinds(hyp, case)


_features_other_kinds = features


def features(case, outs):                                       # noqa: F811
    if case["session"] != "text":
        return _features_other_kinds(case, outs)
    cd = c03.cfgdict(case)
    f = ["kind:text", "text:backend:" + cd.get("backend", "?"), "text:family:" + cd.get("family", "?")]
    last = {}
    for c, o in zip(case["cmds"], outs):
        if c[0] == "tindex":
            prev = last.get(c[1], "unknown")
            now = "none" if c[2] == "n" else "text"
            f.append("text:index:%s->%s%s" % (prev if prev in ("unknown", "none") else "text", now,
                                              "(same)" if prev == tuple(c[2:]) and now == "text" else ""))
            last[c[1]] = "none" if c[2] == "n" else tuple(c[2:])
        elif c[0] == "unindex":
            f.append("text:unindex:" + ("known" if c[1] in last else "unknown"))
            last.pop(c[1], None)
        elif c[0] == "reset":
            last = {}
            f.append("text:reset")
        elif c[0] == "repr":
            f.append("text:repr:" + ("default" if o == "none" else "words"))
        if isinstance(o, str) and o.startswith("err"):
            f.append("text:" + o)
    return f
# ============================================================================ end of kind: text
