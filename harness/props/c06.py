"""C06  Index bookkeeping matches a fresh index built from the current contents."""
import importlib

from lib.core import exc_name

ID = "C06"
AUDIT_IMPORTS = ["HypatiaProofs.Properties.C06Field"]
THEOREMS = ["Hyp.Field." + t for t in (
    "c06_field_bookkeeping", "c06_field_fresh", "c06_field_history_independent", "c06_field_reindex",
    "c06_field_unindex_unknown", "c06_field_unindex_erases", "c06_field_reset")]
CASES = {"quick": 600, "thorough": 40000}
BUDGET_S = {"quick": 45, "thorough": 700}
RULE = ("histories of index/reindex/unindex/reset per index kind (field now; keyword, facet, text are added as "
        "their models land) incl. re-indexing identical content, value <-> no value alternation, unindexing "
        "unknown ids, reset in the middle, both BTrees families; after every operation the whole observable "
        "tuple (indexed, not_indexed, docids, the three counts, word_count, unique_values) and document_repr of "
        "touched ids are compared with the model, with the specification's table and with a freshly built "
        "real index over the current mapping. non-trivial = at least 3 different observation tuples")
LEVEL_TEXT = ("Lean 4: the refinement invariant makes every enumeration/statistics answer a function of the "
              "current document table; proved consequences: fresh-index equivalence, history independence, "
              "reindex = unindex+index, unindex of unknown ids is a no-op, unindex erases every trace, reset = "
              "new index. Correspondence: real indexes vs compiled model vs fresh real index after every op")
LEVEL_NOTE = ("trusted: Lean kernel, BTrees semantics as modelled, sampled correspondence, harness; currently "
              "proved for the field index, other kinds covered by correspondence once their models are merged")
TECHNIQUE = "Lean 4 refinement invariant + observational-equivalence theorems; differential correspondence after every op"

c01 = importlib.import_module("props.c01")
KINDS = ["field"]


def gen(rng, tier, idx):
    kind = rng.choice(KINDS)
    fam = rng.choice([32, 64])
    ids = (c01.IDS32 if fam == 32 else c01.IDS64)
    if rng.random() < 0.6:
        ids = ids[:rng.randrange(2, 8)]
    nvals = rng.randrange(1, 7)
    used = sorted(rng.sample(range(len(c01.INT_POOL)), nvals))
    maxlen = 40 if tier == "quick" or rng.random() < 0.9 else 300
    cmds = []
    for _ in range(rng.randrange(4, maxlen)):
        r = rng.random()
        d = rng.choice(ids)
        if r < 0.04:
            cmds.append(["reset"])
        elif r < 0.2:
            cmds.append(["unindex", d])
        elif r < 0.4:
            cmds.append([rng.choice(["index", "reindex"]), d, "none"])
        else:
            cmds.append([rng.choice(["index", "reindex"]), d, rng.choice(used)])
        cmds.append(["obs"])
        if rng.random() < 0.3:
            cmds.append(["obsfresh"])
        if rng.random() < 0.5:
            cmds.append(["repr", d])
        if rng.random() < 0.2:
            cmds.append(["repr", rng.choice(ids)])
    cmds.append(["obsfresh"])
    cfg = [["cfg", "family", fam], ["cfg", "vtype", rng.choice(["int", "str"])],
           ["cfg", "disc", rng.choice(["attr", "callable"])]]
    return {"session": kind, "cfg": cfg, "cmds": cmds}


def model_cmd(c):
    return ["index"] + list(c[1:]) if c[0] == "reindex" else c


def impl_run(hyp, case):
    im = c01.FieldImpl(hyp, c01.cfgdict(case))
    return [im.execute(c) for c in case["cmds"]]


def nontrivial(case, outs):
    return len({o for c, o in zip(case["cmds"], outs) if c[0] == "obs"}) >= 3


def features(case, outs):
    f = ["kind:" + case["session"]]
    last = {}
    for c, o in zip(case["cmds"], outs):
        if c[0] in ("index", "reindex"):
            prev = last.get(c[1], "unknown")
            f.append("%s:%s->%s%s" % (c[0], "none" if prev == "none" else "unknown" if prev == "unknown" else "val",
                                      "none" if c[2] == "none" else "val",
                                      "(same)" if prev == c[2] else ""))
            last[c[1]] = c[2]
        elif c[0] == "unindex":
            f.append("unindex:" + ("known" if c[1] in last else "unknown"))
            last.pop(c[1], None)
        elif c[0] == "reset":
            last = {}
            f.append("reset")
        elif c[0] == "repr":
            f.append("repr:" + ("default" if o == "none" else "value"))
        if isinstance(o, str) and o.startswith("err"):
            f.append(o)
    return f
