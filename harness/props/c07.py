"""C07  Field-index sort returns the right ids in the right order for every algorithm.

Each case builds a real FieldIndex (history of index / reindex / no-value / unindex / reset calls, or a
bulk load for the large sizes) and then issues many `sort` calls; the same lines go to the compiled
Lean model (session `fieldsort`).  Per sort call three answers are compared:

  I  what the caller of FieldIndex.sort observes: ValueError / Unsortable raised by the call, the list
     `[]`, or a generator drained id by id until it ends or raises Unsortable (with its docids)
  M  the model's answer in the same format (compared *exactly*: the model mirrors each algorithm's
     tie order - docid ascending for fwscan / nbest ascending, descending for nbest descending,
     request order for timsort - and the exact docids of the exception)
  S  the specification's answer `~ n=.. exp=.. stable=.. full=[id:value ..]`, compared by the
     property's own relation (`admissible`): ids distinct, all taken from `full`, exactly n of them,
     their values are the first n values of `full` (ties may be permuted unless stable=1, then the ids
     themselves must be the first n of `full`), Unsortable raised iff exp.

Mutation sanity check (GUIDE step 7): scratch copies /var/tmp/mut_sort_N of /repo/hypatia, one semantic
mutation of hypatia/field/__init__.py each, `VERIF_REPO=/var/tmp/mut_sort_N check.py C07` (quick tier, seed 0),
copies deleted afterwards.  Caught = VIOLATION with a shrunk replay (3-6 command lines each):
  1 scan_forward: `if limit and n >= limit` -> `n > limit` (one id too many under a limit)         caught
  2 nbest_ascending: ASC sentinel replaced by DESC (missing ids occupy the first `limit` places;
    needs a missing id and a limit that the sortable ids would have filled)                          caught
  3 nbest_descending: DESC sentinel replaced by ASC (same in reverse)                                caught
  4 _timsort: `sorted(.., reverse=True)` -> `sorted(..)[::-1]` (descending sort no longer stable; only
    visible with a tie and sort_type STABLE/timsort: replay = two docs of equal value)              caught
  5 _timsort: `return` on a filled limit -> `break` (Unsortable raised although the limit was filled) caught
  6 sort(): empty index no longer raises Unsortable (needs an empty index and raise_unsortable)      caught
  7 nbest_ascending: `sorted(islice(..))` -> `list(islice(..))` (unsorted start of the insort loop)  caught
  - nbest_ascending: `los = result[-1]` dropped after `pop()`: NOT a semantic change (a stale, larger
    `los` only makes the loop insort-and-pop elements it could have skipped) - check stays green, as
    the property demands; likewise changing which algorithm the heuristics choose changes nothing.

Sorts IN FLIGHT together (builder wt_strong7): the result of FieldIndex.sort is a lazy generator, so whatever an
algorithm keeps outside its own frame is shared by every sort of that index that has been created and not yet
read to the end.  `lsort h <sort arguments>` only creates the result, `pull h k|all` reads k more ids of it; half
of the cases carry 1-3 groups of 2-3 such sorts (same request again 36%, all algorithms forced and auto-selected)
read alternately / one id first and the rest after another sort was created and read / in reverse creation
order; the answer assembled from all pulls is compared with the model's answer for that request alone (a sort
is a value there), and the docids of a caught Unsortable are read again at the end of the session.
  seeded C18_G  scan_forward keeps ONE volatile working set on the index instead of a copy per call
                                              MISSED (by C18; C07 never had two sorts open) - now caught by C07
  M07m  _timsort keeps its list of missing docids on the index (cleared per call)                    caught
"""
from lib.core import exc_name, idset

ID = "C07"
AUDIT_IMPORTS = ["HypatiaProofs.Properties.C07"]
THEOREMS = ["Hyp.Field." + t for t in (
    "c07_algorithm_runs_iff", "c07_sorted_ok", "c07_each_once", "c07_only_requested_sortable", "c07_ordered",
    "c07_length", "c07_cut_keeps_first", "c07_raises_iff", "c07_silent_when_not_asked",
    "c07_complete_before_raise", "c07_algorithms_agree", "c07_timsort_is_stable_sort",
    "c07_stable_sort_characterised", "c07_sort_valueError_iff", "c07_sort_ok", "c07_sort_stable",
    "c07_sort_type_irrelevant")]
CASES = {"quick": 320, "thorough": 14000}
BUDGET_S = {"quick": 40, "thorough": 720}
BATCH = 4
RULE = ("each case: an index built by a 5-80 op history over docids 0..15 + extreme ids (sizes 0..16) or "
        "bulk-loaded with 60 / 700 / 767-769 / 800 / 1024 / 2048 / 3000 documents (thorough also 16383-16385, "
        "where limit 1 crosses the 4/65536 limit-ratio), values int or str with 1..all distinct values (all-equal and many-duplicate runs), some "
        "ids known without a value; then 12-40 sorts: request = list / tuple / set / frozenset / BTrees Set / "
        "TreeSet of distinct ids in random order incl. unknown and not-indexed ids, request sizes and limits "
        "aimed at every breakpoint of fwscan_wins / nbest_ascending_wins / the reverse rule (ratios "
        "256..65536/65536, 768 documents, limit 300, 9%) +-1, limit in {None,1,n-1,n,n+1,huge} plus invalid "
        "0/-1, all seven sort_type values x reverse x raise_unsortable (defaults sometimes left implicit). "
        "50% of the cases: 1-3 groups of 2-3 sorts IN FLIGHT together (lsort = create only, pull = read k more ids; "
        "read alternately, one id first and the rest after another sort, reverse creation order; the same request "
        "again in 36% of the groups; quick seed 0: 356 groups in 320 cases, 270 sorts started while another one was "
        "partly read, of these two forward scans 62, two n-best 23, two timsorts 45; in-flight sorts by algorithm: "
        "fwscan 114 auto + 116 forced, n-best 88 + 55, timsort 43 + 149). "
        "non-trivial = some sort returned >= 3 ids containing a tie and some sort raised Unsortable")
LEVEL_TEXT = ("Lean 4 proofs for every index history, every list of distinct docids, every limit, both "
              "directions, both raise_unsortable settings and EVERY algorithm that can run with the flags "
              "(the selection heuristics are not trusted): output duplicate-free, within requested and "
              "sortable, ordered by value, of length min(limit, #sortable), cut keeps the first; timsort = "
              "stable sort of the request order; Unsortable raised iff due and only after all sortable ids; "
              "algorithms differ in tie order only; FieldIndex.sort with each sort_type inherits all of it "
              "and raises ValueError exactly for the documented flag clashes. The model (hand-rolled insort "
              "loop, ASC/DESC sentinels, nlargest on tuples, forward scan over the value tree) is tied to "
              "hypatia/field by a differential run against the real FieldIndex")
LEVEL_NOTE = ("trusted: Lean kernel (propext, Quot.sound, Classical.choice); Python built-ins as modelled "
              "(sorted is stable and uses <, heapq.nlargest = sorted(reverse)[:n], bisect.insort_right, tuple "
              "comparison, BTree/TreeSet ascending iteration); heuristics evaluated with IEEE doubles in the "
              "driver exactly as in Python; sampled correspondence; the harness incl. the acceptance relation "
              "for tie order; values are ranked to Int for the driver (order-preserving)")
TECHNIQUE = ("Lean 4 proof (loop invariants, permutation/sortedness, uniqueness of sorted permutations) for all "
             "inputs and all admissible algorithms + differential correspondence")
TRUSTED = ["the acceptance relation `admissible` of props/c07.py (tie order is free unless the sort is stable)"]

INT_POOL = [-100, -1, 0, 1, 2, 3, 5, 8, 13, 21, 100, 2 ** 40]
STR_POOL = ["", "A", "Z", "a", "ab", "abc", "b", "ba", "c", "z", "é", "中"]
IDS64 = list(range(16)) + [2 ** 31 - 1, -2 ** 31, 2 ** 62, -2 ** 62]
IDS32 = list(range(16)) + [2 ** 31 - 1, -2 ** 31]
STYPES = ["none", "stable", "optimal", "fwscan", "nbest", "timsort"]
KINDS = ["list", "list", "tuple", "pyset", "frozenset", "ifset", "iftreeset"]
DOCK = [256, 512, 1024, 2048, 4096, 8192, 16384, 32768, 65536]
LIMK = [4, 32, 128, 512, 2048, 4096, 8192]


class Doc(object):
    pass


# ----------------------------------------------------------------------------
# generator
# ----------------------------------------------------------------------------
def iteration_order(kind, ids):
    """the docids in the iteration order of the collection that impl_run builds from `ids` (CPython's
    hash sets of ints iterate deterministically for a given construction sequence)"""
    kind = kind[:-2] if kind.endswith("-d") else kind
    if kind in ("list", "tuple"):
        return list(ids)
    if kind == "pyset":
        return list(set(ids))
    if kind == "frozenset":
        return list(frozenset(ids))
    return sorted(ids)


def model_cmd(c):
    """the model is told the request in iteration order; the implementation gets the collection"""
    if c[0] == "sort":
        return list(c[:6]) + iteration_order(c[5], c[6:])
    if c[0] == "lsort":
        return list(c[:7]) + iteration_order(c[6], c[7:])
    return c


def pick_limit(rng, n, numdocs, rlen):
    r = rng.random()
    if r < 0.22:
        return "none"
    if r < 0.30:
        return 1
    if r < 0.60:
        return max(1, n + rng.choice([-1, 0, 1]))
    if r < 0.66:
        return 10 ** 9
    if r < 0.70:
        return rng.choice([0, -1])
    if r < 0.80 and n > 1:
        return rng.randrange(1, n + 1)
    if r < 0.90 and numdocs > 0:
        j = rng.choice(LIMK)
        return max(1, numdocs * j // 65536 + rng.choice([-1, 0, 0, 1]))
    if r < 0.95:
        return rng.choice([299, 300, 301])
    return max(1, (9 * rlen) // 100 + rng.choice([-1, 0, 1, 2]))


def gen_sorts(rng, current, universe, count, big, huge=False):
    """`current`: docid -> rank | None (known without value); `universe`: ids that may be requested"""
    sortable = [d for d, r in current.items() if r is not None]
    novalue = [d for d, r in current.items() if r is None]
    unknown = [d for d in universe if d not in current]
    numdocs = len(sortable)
    cmds = []
    for _ in range(count):
        r = rng.random()
        if not sortable or r < 0.05:
            k = rng.choice([0, 0, 1, 2, 3])
        elif huge:
            # the model's maps are association lists: keep requests on a 16k index below numdocs/8,
            # except for a rare full-size one (docratio 1 / >= 1/4 is also reached on the smaller sizes)
            kk = rng.choice(DOCK[:6] if rng.random() < 0.97 else DOCK)
            k = min(numdocs, max(1, -(-numdocs * kk // 65536) + rng.choice([-1, 0, 0, 1])))
        elif big and r < 0.55:
            kk = rng.choice(DOCK)
            k = min(numdocs, max(1, -(-numdocs * kk // 65536) + rng.choice([-1, 0, 0, 1])))
        elif r < 0.65:
            k = numdocs
        else:
            k = rng.randrange(1, min(numdocs, 40 if not big else numdocs) + 1)
        req = rng.sample(sortable, min(k, numdocs))
        m = rng.random()
        extra = []
        if m < 0.45:
            pass
        elif m < 0.8:
            pool = novalue + unknown
            extra = rng.sample(pool, min(len(pool), rng.choice([1, 1, 2, 3])))
        else:
            pool = novalue + unknown
            extra = rng.sample(pool, min(len(pool), rng.randrange(1, 8)))
            if rng.random() < 0.3:
                req = []
        ids = req + extra
        kind = rng.choice(KINDS)
        order = list(ids)
        rng.shuffle(order)
        n = len(req)
        st = rng.choice(STYPES + (["bogus"] if rng.random() < 0.05 else []))
        rev = rng.randrange(2)
        raise_u = 1 if rng.random() < 0.6 else 0
        lim = pick_limit(rng, n, numdocs, len(ids))
        implicit = rng.randrange(2)      # leave default-valued arguments out of the call
        cmds.append(["sort", rev, lim, st, raise_u, "%s%s" % (kind, "-d" if implicit else "")] + order)
    return cmds


def gen_inflight(rng, current, universe, big, huge=False):
    """2-3 sorts of the same index IN FLIGHT at the same time: each result is only kept (`lsort h ...`) and consumed
    in pieces (`pull h k`) between the creation and the consumption of the others - alternately, one id first and
    the rest after another sort was created and read completely, in reverse creation order.  Sorts are lazy
    generators, so whatever an algorithm keeps outside its own frame is shared by all of them.  Requests: the
    same one two or three times (same or other flags), overlapping ones, or unrelated ones; every algorithm,
    forced and auto-selected (the usual request generator), with a bias to complete requests without limit on
    small indexes (>= 1/4 of the index: forward scan is chosen by itself)."""
    n = rng.choice([2, 2, 2, 3])
    sorts = gen_sorts(rng, current, universe, n, big, huge)
    style = rng.random()
    if style < 0.35:
        # the same request again, flags same or different
        for i in range(1, n):
            if rng.random() < 0.5:
                sorts[i] = list(sorts[0])
            else:
                sorts[i] = sorts[i][:6] + sorts[0][6:]
    elif style < 0.55:
        # all forward scans (forced, or left to the heuristics where it chooses them)
        for i in range(n):
            sorts[i][1] = 0
            sorts[i][3] = rng.choice(["fwscan", "fwscan", "none", "optimal"])
            if rng.random() < 0.6:
                sorts[i][2] = "none"
    cmds = []
    opened = []
    total = {}
    for h, c in enumerate(sorts):
        cmds.append(["lsort", h] + c[1:])
        opened.append(h)
        total[h] = max(1, len(c) - 6)
        # between two creations: read a bit of what is already open (1 id = first(); a chunk; everything)
        for _ in range(rng.choice([0, 1, 1, 2])):
            g = rng.choice(opened)
            cmds.append(["pull", g, rng.choice([1, 1, 1, 2, max(1, total[g] // rng.choice([2, 3, 7])), "all"])])
    # then alternately in chunks, finally the rest of each in creation or reverse creation order
    for _ in range(rng.choice([0, 2, 4, 8])):
        g = rng.choice(opened)
        cmds.append(["pull", g, rng.choice([1, 1, 2, 3, max(1, total[g] // rng.choice([2, 3, 5, 11]))])])
    order = list(opened)
    r = rng.random()
    if r < 0.4:
        order.reverse()
    elif r < 0.6:
        rng.shuffle(order)
    for g in order:
        cmds.append(["pull", g, "all"])
    return cmds


INFLIGHT_P = 0.5      # share of the cases that get groups of in-flight sorts (1-3 groups)


def gen_history(rng, ids, nvals, maxlen, current):
    used = sorted(rng.sample(range(len(INT_POOL)), nvals))
    cmds = []
    for _ in range(rng.randrange(0, maxlen)):
        r = rng.random()
        d = rng.choice(ids)
        if r < 0.02:
            cmds.append(["reset"])
            current.clear()
        elif r < 0.10:
            cmds.append(["unindex", d])
            current.pop(d, None)
        elif r < 0.25:
            cmds.append(["index", d, "none"])
            current[d] = None
        else:
            v = rng.choice(used)
            cmds.append(["index", d, v])
            current[d] = v
    return cmds


def gen(rng, tier, idx):
    fam = rng.choice([32, 64])
    r = rng.random()
    cfg = [["cfg", "family", fam]]
    current = {}
    if r < 0.45:
        # small, history-driven
        ids = IDS32 if fam == 32 else IDS64
        if rng.random() < 0.4:
            ids = ids[:rng.randrange(2, 10)]
        cfg.append(["cfg", "vtype", rng.choice(["int", "str"])])
        nv = rng.choice([1, 1, 2, 3, 5, 8, 12])
        cmds = gen_history(rng, ids, nv, 80 if rng.random() < 0.8 else 8, current)
        universe = list(ids) + [77, 78, 79]
        cmds += gen_sorts(rng, current, universe, rng.randrange(12, 30), False)
        if rng.random() < INFLIGHT_P:
            for _ in range(rng.choice([1, 2, 3])):
                cmds += gen_inflight(rng, current, universe, False)
        if rng.random() < 0.3:
            # mutate the index between two bursts of sorts
            cmds += gen_history(rng, ids, nv, 12, current)
            cmds += gen_sorts(rng, current, universe, rng.randrange(5, 15), False)
    else:
        cfg.append(["cfg", "vtype", "int"])
        sizes = [60, 60, 700, 767, 768, 769, 800, 1024, 2048, 3000]
        if tier == "thorough" and rng.random() < 0.006:
            sizes = [16383, 16384, 16385]
        n = rng.choice(sizes)
        dv = rng.choice([1, 2, 7, 50, n // 4 + 1, n])      # distinct values
        base = rng.choice([0, 0, 1000, -500])
        docs = list(range(base, base + n))
        order = list(docs)
        if n <= 3000:
            rng.shuffle(order)
        cmds = []
        for d in order:
            v = (d * 7919 + 13) % dv if rng.random() < 0.98 else "none"
            cmds.append(["index", d, v])
            current[d] = None if v == "none" else v
        for _ in range(rng.randrange(0, 6)):
            d = base + n + rng.randrange(20)
            cmds.append(["index", d, "none"])
            current[d] = None
        universe = list(current) + [base - 1, base - 2, base + n + 100, base + n + 101]
        cmds += gen_sorts(rng, current, universe, rng.randrange(20, 40) if n <= 3000 else 30, True, n > 3000)
        if rng.random() < INFLIGHT_P and n <= 3000:
            for _ in range(rng.choice([1, 2])):
                cmds += gen_inflight(rng, current, universe, True)
    return {"session": "fieldsort", "cfg": cfg, "cmds": cmds}


def cfgdict(case):
    return {c[1]: c[2] for c in case.get("cfg", [])}


# ----------------------------------------------------------------------------
# implementation side
# ----------------------------------------------------------------------------
class SortImpl(object):
    def __init__(self, hyp, cfg):
        import BTrees
        from hypatia.field import FieldIndex
        self.pool = STR_POOL if cfg.get("vtype") == "str" else None
        self.fam = BTrees.family32 if cfg.get("family") == 32 else BTrees.family64
        self.idx = FieldIndex("x", family=self.fam)
        self.handles = {}

    def doc(self, r):
        o = Doc()
        if r != "none":
            o.x = self.pool[r] if self.pool is not None else r
        return o

    def collection(self, kind, order):
        if kind == "list":
            return list(order)
        if kind == "tuple":
            return tuple(order)
        if kind == "pyset":
            return set(order)
        if kind == "frozenset":
            return frozenset(order)
        if kind == "ifset":
            return self.fam.IF.Set(order)
        if kind == "iftreeset":
            return self.fam.IF.TreeSet(order)
        raise ValueError(kind)

    def sort(self, c):
        h = self.open(c)
        if isinstance(h, str):
            return h
        self.pull(h, "all")
        return h["done"]

    def pull(self, h, k):
        """consume k more ids (all: the rest) of an open sort result; fills h["done"] when it ends"""
        from hypatia.exc import Unsortable
        out = h["out"]
        n = 0
        while h["done"] is None and (k == "all" or n < k):
            try:
                out.append(next(h["it"]))
                n += 1
            except StopIteration:
                if list(h["coll"]) != h["order"]:
                    h["done"] = "request-mutated"
                else:
                    h["done"] = "%s [%s] ok" % (h["head"], " ".join(map(str, out)))
            except Unsortable as e:
                h["exc"] = (e, idset(set(e.docids)))
                h["done"] = "%s [%s] Unsortable %s" % (h["head"], " ".join(map(str, out)), h["exc"][1])
            except Exception as e:
                h["done"] = "%s [%s] %s" % (h["head"], " ".join(map(str, out)), exc_name(e))

    def open(self, c):
        """the call FieldIndex.sort(...): its answer if it is one already (exception), else the open result"""
        from hypatia import interfaces
        from hypatia.exc import Unsortable
        rev, lim, st, raise_u, kind = c[1], c[2], c[3], c[4], c[5]
        implicit = kind.endswith("-d")
        kind = kind[:-2] if implicit else kind
        coll = self.collection(kind, list(c[6:]))
        order = iteration_order(kind, c[6:])
        if list(coll) != order:
            return "iteration-order-not-reproducible"
        kw = {}
        if not (implicit and not rev):
            kw["reverse"] = bool(rev)
        import zlib
        form = zlib.crc32(" ".join(map(str, c)).encode()) % 6      # how the same arguments are spelled
        if not (implicit and lim == "none"):
            kw["limit"] = None if lim == "none" else lim
            if isinstance(lim, int) and lim >= 1:
                # sort() accepts anything int() accepts: '3', 3.0 and 3.7 all mean limit 3
                kw["limit"] = {0: str(lim), 1: float(lim), 2: lim + 0.7}.get(form, lim)
        if not (implicit and st == "none"):
            kw["sort_type"] = {"none": None, "stable": interfaces.STABLE, "optimal": interfaces.OPTIMAL,
                               "fwscan": interfaces.FWSCAN, "nbest": interfaces.NBEST,
                               "timsort": interfaces.TIMSORT}.get(st, st)
            if isinstance(kw["sort_type"], str) and form % 2 == 1:
                # an equal but not identical string (as it comes out of json / a request)
                kw["sort_type"] = "".join(list(kw["sort_type"]))
        if not (implicit and raise_u):
            kw["raise_unsortable"] = bool(raise_u)
        try:
            res = self.idx.sort(coll, **kw)
        except Unsortable as e:
            return "err Unsortable " + idset(set(e.docids))
        except Exception as e:
            return exc_name(e)
        head = "list" if isinstance(res, list) else "gen"
        try:
            it = iter(res)
        except Exception as e:
            return "%s [] %s" % (head, exc_name(e))
        return {"it": it, "out": [], "head": head, "done": None, "coll": coll, "order": order, "exc": None}

    def execute(self, c):
        op = c[0]
        if op == "sort":
            return self.sort(c)
        if op == "lsort":
            # only created here; consumed by later `pull` commands; impl_run fills in the answer
            h = self.open(["sort"] + list(c[2:]))
            self.handles[c[1]] = h
            return h
        if op == "pull":
            h = self.handles.get(c[1])
            if isinstance(h, dict):
                self.pull(h, c[2])
            return "ok"
        # the index is not modified while a sort result is open: read what is left first
        for h in reversed([h for h in self.handles.values() if isinstance(h, dict) and h["done"] is None]):
            self.pull(h, "all")
        try:
            if op == "index":
                self.idx.index_doc(c[1], self.doc(c[2]))
                return "ok"
            if op == "unindex":
                self.idx.unindex_doc(c[1])
                return "ok"
            if op == "reset":
                self.idx.reset()
                return "ok"
        except Exception as e:
            return exc_name(e)
        raise ValueError(c)


def impl_run(hyp, case):
    im = SortImpl(hyp, cfgdict(case))
    outs = [im.execute(c) for c in case["cmds"]]
    # results still open at the end are read now, the last one first
    for h in reversed([o for o in outs if isinstance(o, dict)]):
        im.pull(h, "all")
    for i, h in enumerate(outs):
        if isinstance(h, dict):
            outs[i] = h["done"]
            if h["exc"] is not None:
                # the docids a caught Unsortable carries must still be the ones it was raised with
                try:
                    now = idset(set(h["exc"][0].docids))
                except Exception as e:
                    now = exc_name(e)
                if now != h["exc"][1]:
                    outs[i] += " (docids of the caught exception now %s)" % now
    return outs


# ----------------------------------------------------------------------------
# comparison
# ----------------------------------------------------------------------------
def parse_answer(a):
    """-> (kind, ids, raised) or None for ValueError / anything else"""
    if a.startswith("err Unsortable"):
        return ("call", [], True)
    if a.startswith("gen [") or a.startswith("list ["):
        body = a[a.index("[") + 1:a.index("]")]
        try:
            ids = [int(x) for x in body.split()]
        except ValueError:
            return None
        tail = a[a.index("]") + 1:].strip()
        if tail == "ok":
            return (a.split()[0], ids, False)
        if tail.startswith("Unsortable"):
            return (a.split()[0], ids, True)
    return None


def admissible(impl, spec):
    """the property's relation between an observed answer and the specification's data"""
    parts = dict(p.split("=", 1) for p in spec[2:].split(" ", 3))
    n, exp, stable = int(parts["n"]), parts["exp"] == "1", parts["stable"] == "1"
    full = [tuple(int(x) for x in p.split(":")) for p in parts["full"][1:-1].split()]
    got = parse_answer(impl)
    if got is None:
        return False
    _, ids, raised = got
    if raised != exp or len(ids) != n or len(set(ids)) != len(ids):
        return False
    key = dict(full)
    if any(d not in key for d in ids):
        return False
    if [key[d] for d in ids] != [k for _, k in full[:n]]:
        return False
    if stable and ids != [d for d, _ in full[:n]]:
        return False
    return True


def same(a, b):
    if isinstance(b, str) and b.startswith("~ "):
        return admissible(a, b)
    return a == b


def nontrivial(case, outs):
    tie = raised = False
    for c, o in zip(case["cmds"], outs):
        if c[0] not in ("sort", "lsort") or o is None:
            continue
        if "Unsortable" in o:
            raised = True
        p = parse_answer(o)
        if p and len(p[1]) >= 3:
            tie = True
    return tie and raised


def chosen_algorithm(hyp_field, rev, lim, st, rlen, numdocs):
    """for the coverage histogram only: which algorithm the heuristics pick"""
    if st in ("stable", "timsort"):
        return "timsort"
    if st in ("fwscan", "nbest"):
        return st
    limit = None if lim == "none" else lim
    if rev:
        if limit and ((limit < 300) or (limit / float(rlen) > 0.09)):
            return "nbest"
        return "timsort"
    if hyp_field.fwscan_wins(limit, rlen, numdocs):
        return "fwscan"
    if limit and hyp_field.nbest_ascending_wins(limit, rlen, numdocs):
        return "nbest"
    return "timsort"


def features(case, outs):
    import sys
    hf = sys.modules.get("hypatia.field")
    f = ["family:%s" % cfgdict(case).get("family")]
    cur = {}
    nsorts = 0
    state = {}           # handle -> [algorithm, started, finished] of the current group of in-flight sorts
    for c, o in zip(case["cmds"], outs):
        if c[0] == "lsort":
            if not state or all(v[2] for v in state.values()):
                state = {}
                f.append("inflight:group")
            alg = "?"
            rev, lim, st = c[2:5]
            req = c[7:]
            numdocs = sum(1 for v in cur.values() if v != "none")
            if hf is not None and req and numdocs and st in STYPES and (lim == "none" or lim >= 1) and \
                    not (st == "fwscan" and rev) and not (st == "nbest" and lim == "none"):
                alg = chosen_algorithm(hf, rev, lim, st, len(req), numdocs)
                f.append("inflight:%s:%s" % ("auto" if st in ("none", "optimal") else "forced", alg))
            if any(sorted(req) == w[3] for w in state.values()):
                f.append("inflight:same-request-again")
            state[c[1]] = [alg, False, False, sorted(req)]
            c = ["sort"] + list(c[2:])
        elif c[0] == "pull":
            v = state.get(c[1])
            if v is not None and not v[2]:
                others = [w for k, w in state.items() if k != c[1] and w[1] and not w[2]]
                if not v[1]:
                    v[1] = True
                    if others:
                        f.append("inflight:started-while-another-is-partly-read")
                        if v[0] == "fwscan" and any(w[0] == "fwscan" for w in others):
                            f.append("inflight:fwscan-started-while-another-fwscan-is-partly-read")
                        if any(w[0] == v[0] for w in others):
                            f.append("inflight:same-algorithm-twice-in-flight:" + v[0])
                elif others:
                    f.append("inflight:continued-while-another-is-partly-read")
                if c[2] == "all":
                    v[2] = True
            continue
        if c[0] == "index":
            cur[c[1]] = c[2]
        elif c[0] == "unindex":
            cur.pop(c[1], None)
        elif c[0] == "reset":
            cur = {}
        elif c[0] == "sort":
            nsorts += 1
            if o is None:
                f.append("unobserved-set-order")
                continue
            rev, lim, st, raise_u, kind = c[1:6]
            req = c[6:]
            numdocs = sum(1 for v in cur.values() if v != "none")
            nsort = sum(1 for d in req if cur.get(d, "none") != "none")
            f.append("kind:" + kind.replace("-d", ""))
            f.append("st:%s/rev%d" % (st, rev))
            f.append("result:" + ("ValueError" if o == "err ValueError" else "Unsortable@call" if o.startswith("err U")
                                  else "Unsortable@iter" if "Unsortable" in o else o.split()[0]))
            if lim == "none":
                f.append("limit:none")
            elif lim < 1:
                f.append("limit:invalid")
            else:
                f.append("limit:%s" % ("<n" if lim < nsort else "=n" if lim == nsort else ">n"))
            f.append("missing:%s" % ("none" if nsort == len(req) else "all" if nsort == 0 else "some"))
            if hf is not None and req and numdocs and st in STYPES and (lim == "none" or lim >= 1):
                if not (st == "fwscan" and rev) and not (st == "nbest" and lim == "none"):
                    alg = chosen_algorithm(hf, rev, lim, st, len(req), numdocs)
                    f.append("algo:%s/rev%d" % (alg, rev))
                    if st in ("none", "optimal"):
                        f.append("auto:%s/rev%d/%s" % (alg, rev, "numdocs<=768" if numdocs <= 768 else "numdocs>768"))
            vals = [cur[d] for d in req if cur.get(d, "none") != "none"]
            if len(set(vals)) < len(vals):
                f.append("ties-in-request")
            f.append("numdocs:%s" % ("0" if numdocs == 0 else "<=16" if numdocs <= 16 else "<=768" if numdocs <= 768
                                      else "<=3000" if numdocs <= 3000 else ">3000"))
    return f


def shrink_more(case, fails):
    """drop docids from the request of the last sort, then index commands that are not needed"""
    cmds = [list(c) for c in case["cmds"]]
    best = dict(case, cmds=cmds)
    # keep only the last failing sort
    sorts = [i for i, c in enumerate(cmds) if c[0] == "sort"]
    if any(c[0] == "lsort" for c in cmds):
        sorts = []          # in-flight sorts: only their requests are shrunk (below), none is singled out
    for i in reversed(sorts):
        cand = [c for j, c in enumerate(cmds) if c[0] != "sort" or j == i]
        if fails(dict(case, cmds=cand)):
            cmds = cand
            break
    changed = True
    tries = 0
    while changed and tries < 300:
        changed = False
        si = [i for i, c in enumerate(cmds) if c[0] == "sort"]
        if not si:
            break
        i = si[-1]
        req = cmds[i][6:]
        for k in range(len(req)):
            tries += 1
            cand = [list(c) for c in cmds]
            cand[i] = cmds[i][:6] + req[:k] + req[k + 1:]
            if fails(dict(case, cmds=cand)):
                cmds = cand
                changed = True
                break
        if changed:
            continue
        for i2 in [j for j, c in enumerate(cmds) if c[0] == "lsort"]:
            req = cmds[i2][7:]
            for k in range(len(req)):
                tries += 1
                cand = [list(c) for c in cmds]
                cand[i2] = cmds[i2][:7] + req[:k] + req[k + 1:]
                if fails(dict(case, cmds=cand)):
                    cmds = cand
                    changed = True
                    break
            if changed or tries > 300:
                break
        if changed:
            continue
        for j in range(len(cmds)):
            if cmds[j][0] == "sort":
                continue
            tries += 1
            cand = cmds[:j] + cmds[j + 1:]
            if fails(dict(case, cmds=cand)):
                cmds = cand
                changed = True
                break
    return dict(case, cmds=cmds)
