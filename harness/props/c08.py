"""C08  Relevance scores equal the documented BM25 / cosine formulas.

Session `score`.  A case is a history of index / reindex / unindex / reset calls on a real index
interleaved with queries; the model and the specification only ever see the *table* the history leaves
behind (docid -> word ids), so every comparison after a history is also a history-independence check.

Implementations driven (cfg impl):
  c       hypatia.text.okapiindex.OkapiIndex with the okascore extension rebuilt from the working tree
  python  OkapiIndex of a second load of okapiindex.py under PURE_PYTHON=1 (the pure-Python loop)
  text    hypatia.text.TextIndex over the C-backed OkapiIndex resp. over a CosineIndex
          (index_doc/reindex_doc/unindex_doc/reset through TextIndex, `apply` with parsed query strings)
  cosine indexes use impl `plain` (CosineIndex directly) or `text`.
`okascore` commands call the extension function okascore.score(...) directly on raw inputs.

The lexicon is a stub implementing the lexicon interface by table lookup (term id -> word ids, glob id ->
word ids): what words map to is C15's business; here it is a parameter of the model (`Lex`).

Floats: the driver prints IEEE bit patterns, `post_model` turns them into repr(float); values are compared
with relative tolerance 2e-6 (IF buckets store 32-bit floats).

Mutation sanity check (scratch copies VERIF_REPO=/var/tmp/mut_score_N, quick tier; all 9 gave VIOLATION
with a shrunk failing input, implementation != specification):
  1 okascore.c  K1 1.2 -> 1.3                (C loop only; needs tf > 1 or len != mean)
  2 okascore.c  B 0.75 -> 0.7                (needs len != mean)
  3 okapiindex.py (Python loop) lenweight uses meandoclen / len instead of len / meandoclen
  4 baseindex.py  idf = log(1 + n/N) instead of log(1 + N/n)
  5 cosineindex.py doc_term_weight = log(1 + count) instead of 1 + log(count)
  6 okapiindex.py unindex_doc no longer subtracts the document length (stale total after unindex)
  7 cosineindex.py query_weight returns the sum instead of its square root
  8 okapiindex.py (Python loop) K1_plus1 = K1 + 1.1
  9 okapiindex.py reindex_doc no longer adds the new length (D19 re-introduced)
Reads must not change what later reads see (cfg cutoff, repeated one-word reads): the cosine back end hands the STORED
IFBTree of a word in more than DICT_CUTOFF documents to the set operations uncopied.  Seeded change C08_F (setops._trivial
scales its single operand in place) was missed before and is caught now; two more of the class, both VIOLATION on quick
seed 0 here and in C20, both missed by the generators before:
  10 setops.mass_weightedIntersection scales a single operand in place (reached only by a one-id search_phrase)
  11 baseindex.search_glob scales the map in place when the glob matches a single word
K1 / B overridden on a subclass / sub-subclass / instance / instance of a subclass (30% of the Okapi corpora, always
on the pure-Python loop: impl `python` or `textpy` = TextIndex over it; cfg k1 / cfg b go to the model as bit
patterns, Lean `Score.Bm25`): seeded C20_E's class; mutations 12 (`B = OkapiIndex.B` in the Python loop) and 13
(`tfmax = 1.0 + type(self).K1` in query_weight) give VIOLATION on quick seed 0.  The compiled loop ignores the
attributes (okascore.c #defines) - see C20's docstring; that combination is not generated.
"""
import importlib.util
import math
import os
import struct
import sys

from lib import zbox
from lib import core
from lib.core import exc_name

ID = "C08"
BUILD_C = True
AUDIT_IMPORTS = ["HypatiaProofs.Properties.C08"]
THEOREMS = ["Hyp.C08." + t for t in (
    "c08_table_of_history", "c08_total_length_counter", "c08_search", "c08_search_no_wids", "c08_glob",
    "c08_phrase", "c08_phrase_is_sublist", "c08_query_weight", "c08_history_independent",
    "c08_okapi_formula", "c08_okapi_formula_default", "c08_cosine_formula", "c08_score_loop",
    "c08_score_loop_default")]
CASES = {"quick": 1200, "thorough": 40000}
BUDGET_S = {"quick": 45, "thorough": 780}
BATCH = 40
TOL = 2e-6

_PURE = None      # the PURE_PYTHON variant of okapiindex (module)


def setup(hyp, tier, seed):
    """load okapiindex.py a second time under PURE_PYTHON=1, check which loop each variant runs"""
    global _PURE
    from hypatia.text import okapiindex
    if okapiindex.score is None:
        raise core.Infra("hypatia.text.okapiindex did not pick up the rebuilt okascore extension")
    path = os.path.join(os.path.dirname(okapiindex.__file__), "okapiindex.py")
    spec = importlib.util.spec_from_file_location("hypatia.text.okapiindex_pure", path)
    mod = importlib.util.module_from_spec(spec)
    os.environ["PURE_PYTHON"] = "1"
    try:
        sys.modules["hypatia.text.okapiindex_pure"] = mod
        spec.loader.exec_module(mod)
    finally:
        os.environ.pop("PURE_PYTHON", None)
    if mod.score is not None:
        raise core.Infra("PURE_PYTHON load of okapiindex.py still uses the C scoring function")
    _PURE = mod


# ----------------------------------------------------------------------------
# stub lexicon
# ----------------------------------------------------------------------------
def word_id(word):
    w = word.rstrip("*")
    return int(w[1:])


class _StubBase(object):
    pass


class StubLexicon(_StubBase):
    """table-driven lexicon: `t<id>` / `g<id>*` are the only words queries contain"""

    def __init__(self):
        self.term = {}
        self.glob = {}

    def sourceToWordIds(self, text):
        if isinstance(text, str):
            return [int(t) for t in text.split()]
        return list(text)

    def termToWordIds(self, text):
        words = [text] if isinstance(text, str) else list(text)
        out = []
        for w in words:
            out.extend(self.term.get(word_id(w), []))
        return out

    def globToWordIds(self, pattern):
        return list(self.glob.get(word_id(pattern), []))

    def parseTerms(self, text):
        return text.replace('"', " ").split()

    def isGlob(self, word):
        return "*" in word

    def get_word(self, wid):
        return str(wid)


def make_lexicon(persistent):
    """the stub lexicon; as a Persistent object when the index lives in a ZODB connection (its tables then follow
    the transaction like everything else: an abort reloads them in place)"""
    if not persistent:
        return StubLexicon()
    if "PStubLexicon" not in globals():
        from persistent import Persistent

        class PStubLexicon(Persistent, StubLexicon):
            pass
        PStubLexicon.__module__ = __name__
        PStubLexicon.__qualname__ = "PStubLexicon"
        globals()["PStubLexicon"] = PStubLexicon
    return globals()["PStubLexicon"]()



class Doc(object):
    def __init__(self, text):
        self.text = text


# ----------------------------------------------------------------------------
# floats
# ----------------------------------------------------------------------------
def bits(x):
    return struct.unpack(">Q", struct.pack(">d", float(x)))[0]


def unbits(n):
    return struct.unpack(">d", struct.pack(">Q", int(n)))[0]


def fmt_map(items):
    return "{" + " ".join("%d:%r" % (k, float(v)) for k, v in sorted(items)) + "}"


def conv(s):
    if s.startswith("{"):
        body = s[1:-1].split()
        return fmt_map([(int(t.split(":")[0]), unbits(t.split(":")[1])) for t in body])
    if s.isdigit() and len(s) > 12:
        return "f:%r" % unbits(s)
    return s


def post_model(hyp, case, mouts, iouts):
    out = []
    for c, line in zip(case["cmds"], mouts):
        def cv(part):
            if part.startswith("{"):
                return conv(part)
            if c[0] == "qw" and part.isdigit():
                return "f:%r" % unbits(part)
            return part
        if " ## " in line:
            m, sp = line.split(" ## ", 1)
            out.append(cv(m) + " ## " + cv(sp))
        else:
            out.append(cv(line))
    return out


def close(u, v):
    return abs(u - v) <= TOL * max(abs(u), abs(v))


def same(a, b):
    if a == b:
        return True
    if a.startswith("{") and b.startswith("{"):
        x = [(int(t.split(":")[0]), float(t.split(":")[1])) for t in a[1:-1].split()]
        y = [(int(t.split(":")[0]), float(t.split(":")[1])) for t in b[1:-1].split()]
        return [k for k, _ in x] == [k for k, _ in y] and all(close(u, v) for (_, u), (_, v) in zip(x, y))
    if a.startswith("f:") and b.startswith("f:"):
        return close(float(a[2:]), float(b[2:]))
    return False


def model_cmd(c):
    if c[0] == "lexp":
        return ["lex", "t", c[1]] + list(c[3:])
    if c[0] == "apply":
        return [t for t in c if not (isinstance(t, str) and t.startswith("w:"))]
    if c[0] == "okascore":
        return ["okascore", bits(c[1]), bits(c[2])] + list(c[3:])
    return c


# ----------------------------------------------------------------------------
# generator
# ----------------------------------------------------------------------------
def gen_doc(rng, vocab, big):
    """a word-id list; `big` documents have tf up to 300 and up to 3000 words"""
    if rng.random() < 0.04:
        return []
    if big:
        ws = []
        for w in rng.sample(vocab, rng.randrange(1, min(len(vocab), 5) + 1)):
            ws += [w] * rng.choice([1, 2, 7, 40, 150, 300])
        filler = rng.randrange(0, 3000 - min(len(ws), 2900))
        ws += [rng.choice(vocab) for _ in range(filler // 8)] + [vocab[-1]] * (filler - filler // 8)
        rng.shuffle(ws)
        return ws[:3000]
    n = rng.choice([1, 2, 3, 3, 4, 5, 6, 8, 12, 20])
    ws = []
    while len(ws) < n:
        w = rng.choice(vocab)
        ws += [w] * rng.choice([1, 1, 2, 2, 3, 5])
    return ws[:max(n, 1)] if rng.random() < 0.8 else ws


def render(tree):
    """query string whose parse is `tree`; tree = ("a", id) | ("p", id, [ids]) | ("g", id) |
    ("n", t) | ("and", [ts]) | ("or", [ts])"""
    k = tree[0]
    if k == "a":
        return "t%d" % tree[1]
    if k == "g":
        return "g%d*" % tree[1]
    if k == "p":
        return '"' + " ".join("t%d" % i for i in tree[2]) + '"'
    if k == "n":
        return "NOT " + render(tree[1])
    if k == "and":
        return "(" + " AND ".join(render(t) for t in tree[1]) + ")"
    return "(" + " OR ".join(render(t) for t in tree[1]) + ")"


def tree_tokens(tree):
    k = tree[0]
    if k in ("a", "g"):
        return [k, tree[1]]
    if k == "p":
        return ["p", tree[1], "w:" + "_".join("t%d" % i for i in tree[2])]
    if k == "n":
        return ["n"] + tree_tokens(tree[1])
    out = [k, len(tree[1])]
    for t in tree[1]:
        out += tree_tokens(t)
    return out


def gen_bigdoc(rng, cosine=False):
    """one document with thousands of distinct words, re-indexed many times with one-word edits: every stored
    weight moves by a tiny amount per edit (seeded C08_G skipped re-storing changes below 1e-6, so the stored
    cosine weights drifted away from the formula by 0.06% per edit)"""
    kind = "cosine" if cosine or rng.random() < 0.7 else "okapi"
    impl = "plain" if kind == "cosine" else rng.choice(["c", "python"])
    fam = rng.choice([32, 64])
    n = rng.randrange(6400, 7000)
    doc = list(range(1000, 1000 + n))
    cmds = [["index", 1] + doc, ["index", 2, 1000, 5, 5], ["index", 3, 1001, 1002, 5]]
    tid = [0]

    def ask():
        for w in rng.sample([1000, 1001, 1500, 2000 + rng.randrange(3000), 5, doc[-1]], 3):
            tid[0] += 1
            cmds.append(["lex", "t", tid[0], w])
            cmds.append(["search", tid[0]])
    ask()
    for _ in range(rng.randrange(8, 12)):
        # mostly a NEW word (every other weight moves by ~1/(2n) of itself), now and then a repeated one
        doc = doc + [1000 + n + len(doc) if rng.random() < 0.8 else rng.choice([1000, 1001, 1002, 1003])]
        cmds.append(["reindex", 1] + doc)
        if rng.random() < 0.3:
            ask()
    ask()
    return {"session": "score", "cfg": [["cfg", "kind", kind], ["cfg", "impl", impl], ["cfg", "fam", fam],
                                        ["cfg", "mode", "bigdoc"]], "cmds": cmds}


def gen(rng, tier, idx):
    if (idx % 1000003 == 5 and idx // 1000003 < 3) or (tier == "thorough" and idx % 1000003 % 211 == 5):
        return gen_bigdoc(rng, cosine=(idx // 1000003 == 0))
    kind = "okapi" if rng.random() < 0.6 else "cosine"
    tuned = []
    if kind == "okapi":
        impl = rng.choice(["c", "c", "python", "python", "text"])
        tuned = gen_tuning(rng, 0.3)
        if tuned:
            impl = rng.choice(["python", "python", "textpy"])
    else:
        impl = rng.choice(["plain", "plain", "text"])
    fam = rng.choice([32, 64])
    nvocab = rng.choice([3, 4, 6, 8])
    vocab = list(range(1, nvocab + 1))
    if rng.random() < 0.15:
        vocab += [200, 20000]            # 2- and 3-byte word ids in phrase scans
    ids = list(range(1, 9)) + ([2 ** 31 - 1, -5] if fam == 32 else [2 ** 40, -5])
    ndocs = rng.choice([2, 3, 4, 5, 6, 8, 12, 16])
    bigcase = rng.random() < (0.08 if tier == "quick" else 0.12)
    # DICT_CUTOFF (a word's docid -> weight map is a dict up to that many documents, the STORED IFBTree beyond) is
    # instance-settable: 2 or 3 make the stored-tree representation the common one; with the default (10) a fifth
    # of the corpora get a word that more than ten documents contain
    cutoff = rng.choice([None, None, 2, 2, 3, 3])
    common = None
    if cutoff is None and rng.random() < 0.3:
        ndocs = rng.choice([12, 13, 16])
        common = rng.choice(vocab)
    if ndocs > len(ids):
        ids = ids + list(range(100, 100 + ndocs))
    if common is not None:
        ids = ids[:ndocs + 1]           # few collisions: the common word reaches more than ten documents
    cmds = []
    table = {}
    lexn = [0]
    terms = {}       # id -> wids
    globs = {}

    def new_term(wids):
        lexn[0] += 1
        terms[lexn[0]] = list(wids)
        cmds.append(["lex", "t", lexn[0]] + list(wids))
        return lexn[0]

    def history(nops):
        for _ in range(nops):
            r = rng.random()
            known = list(table)
            if r < (0.55 if common is None or len(table) > 11 else 0.92) or not known:
                d = rng.choice(ids)
                if common is not None and rng.random() < 0.7:
                    fresh = [x for x in ids if x not in table]
                    d = rng.choice(fresh) if fresh else d
                ws = gen_doc(rng, vocab, bigcase and rng.random() < 0.4)
                if common is not None and common not in ws and rng.random() < 0.9:
                    ws.insert(rng.randrange(len(ws) + 1), common)
                cmds.append(["index", d] + ws)
                table[d] = ws
            elif r < 0.75:
                d = rng.choice(known) if (impl in ("text", "textpy") or rng.random() < 0.9) else rng.choice(ids)
                ws = gen_doc(rng, vocab, False)
                if rng.random() < 0.15:
                    ws = list(table.get(d, ws))        # identical re-index
                cmds.append(["reindex", d] + ws)
                if d in table:
                    table[d] = ws
            elif r < 0.98:
                d = rng.choice(known) if rng.random() < 0.8 else rng.choice(ids)
                cmds.append(["unindex", d])
                table.pop(d, None)
            else:
                cmds.append(["reset"])
                table.clear()
        # mostly leave at least two documents behind (an empty or one-document corpus hides k1 and b)
        while len(table) < 2 and rng.random() < 0.9:
            d = rng.choice(ids)
            ws = gen_doc(rng, vocab, False)
            cmds.append(["index", d] + ws)
            table[d] = ws

    def hot_word():
        """a word with tf > 1 in a document whose length differs from the mean, if there is one"""
        if table:
            mean = sum(len(ws) for ws in table.values()) / float(len(table))
            hot = sorted(set(w for ws in table.values() if len(ws) != mean for w in ws if ws.count(w) > 1))
            if hot:
                return rng.choice(hot)
        return rng.choice(vocab)

    def atom_wids():
        r = rng.random()
        if r < 0.45:
            return [hot_word()]
        if r < 0.6:
            return [rng.choice(vocab)]
        if r < 0.7:
            return [rng.choice(vocab), rng.choice(vocab)]      # a term the pipeline splits in two
        if r < 0.8:
            return [rng.choice([0, 99])]                       # unknown word / never indexed
        if r < 0.9:
            return [hot_word(), 99]
        if r < 0.95:
            w = rng.choice(vocab)
            return [w, w]
        return []                                              # stop word

    def phrase_wids():
        docs = [ws for ws in table.values() if len(ws) >= 2]
        if docs and rng.random() < 0.8:
            ws = rng.choice(docs)
            a = rng.randrange(len(ws) - 1)
            p = ws[a:a + rng.choice([2, 2, 3, 4])]
            if rng.random() < 0.15:
                p = p[::-1]
            return p
        return [rng.choice(vocab + [99]) for _ in range(rng.choice([2, 3]))]

    def gen_tree(depth):
        r = rng.random()
        if depth >= 2 or r < 0.45:
            r2 = rng.random()
            if r2 < 0.6:
                return ("a", new_term(atom_wids()))
            if r2 < 0.8:
                parts = [new_term([w]) for w in phrase_wids()]
                lexn[0] += 1
                pid = lexn[0]
                wids = [w for i in parts for w in terms[i]]
                terms[pid] = wids
                cmds.append(["lexp", pid, "_".join("t%d" % i for i in parts)] + wids)
                return ("p", pid, parts)
            gid = new_term(atom_wids())              # termToWordIds of the pattern itself
            gw = rng.sample(vocab + [99], rng.randrange(0, min(4, len(vocab)) + 1))
            globs[gid] = gw
            cmds.append(["lex", "g", gid] + gw)
            return ("g", gid)
        if r < 0.75:
            pos = [gen_tree(depth + 1) for _ in range(rng.choice([2, 2, 3]))]
            nots = [("n", gen_tree(depth + 1)) for _ in range(rng.choice([0, 0, 1, 2]))]
            return ("and", pos + nots)
        return ("or", [gen_tree(depth + 1) for _ in range(rng.choice([2, 2, 3]))])

    def queries(nq):
        for qi in range(nq):
            r = rng.random()
            if qi == 0 and r < 0.8:
                if impl in ("text", "textpy") and r < 0.3:
                    cmds.append(["apply", "a", new_term([hot_word()])])
                else:
                    cmds.append(["search", new_term([hot_word()])])
            elif r < 0.35:
                cmds.append(["search", new_term(atom_wids())])
            elif r < 0.5:
                cmds.append(["phrase", new_term(phrase_wids())])
            elif r < 0.62:
                gid = new_term([])
                gw = rng.sample(vocab + [99], rng.randrange(0, min(5, len(vocab)) + 1))
                cmds.append(["lex", "g", gid] + gw)
                cmds.append(["glob", gid])
            elif r < 0.72:
                cmds.append(["qw"] + [new_term(atom_wids()) for _ in range(rng.randrange(0, 4))])
            elif r < 0.76:
                cmds.append(["count"])
            elif impl in ("text", "textpy"):
                t = gen_tree(0)
                cmds.append(["apply"] + tree_tokens(t))
            else:
                cmds.append(["search", new_term(atom_wids())])

    def frequent_word():
        """the word most documents contain (beyond the cut-off: its stored map is an IFBTree)"""
        df = {}
        for ws in table.values():
            for w in set(ws):
                df[w] = df.get(w, 0) + 1
        if not df:
            return rng.choice(vocab)
        top = max(df.values())
        return rng.choice(sorted(w for w, n in df.items() if n == top))

    def one_word_read(w):
        """one read whose only operand is word w: search / one-word phrase / glob with a single match / apply"""
        r = rng.random()
        if impl in ("text", "textpy") and r < 0.35:
            r2 = rng.random()
            if r2 < 0.6:
                return [["apply", "a", new_term([w])]]
            if r2 < 0.75:
                parts = [new_term([w]), new_term([])]          # the word and a stop word: a one-id phrase
                if rng.random() < 0.5:
                    parts.reverse()
                lexn[0] += 1
                pid = lexn[0]
                terms[pid] = [w]
                cmds.append(["lexp", pid, "_".join("t%d" % i for i in parts), w])
                return [["apply"] + tree_tokens(("p", pid, parts))]
            gid = new_term([w])
            cmds.append(["lex", "g", gid, w])
            return [["apply", "g", gid]]
        if r < 0.65:
            return [["search", new_term([w])]]
        if r < 0.8:
            return [["phrase", new_term([w])]]
        gid = new_term([])
        cmds.append(["lex", "g", gid, w])
        return [["glob", gid]]

    def repeated_reads():
        """the SAME one-word read before and after other reads of the unchanged corpus (a read that scales the
        stored weights in place answers correctly once: seeded change C08_F)"""
        w = frequent_word() if rng.random() < 0.8 else hot_word()
        first = one_word_read(w)
        cmds.extend([list(c) for c in first])
        for _ in range(rng.choice([1, 1, 2])):
            r = rng.random()
            if r < 0.4:
                queries(1)
            elif r < 0.7:
                cmds.extend(one_word_read(w))          # the same word through another entry point
            cmds.extend([list(c) for c in first])
        if rng.random() < 0.3:
            cmds.append(["qw", new_term([w])])

    def swap_history():
        """term frequencies change, the number of documents and of distinct words does not"""
        for _ in range(rng.randrange(1, 3)):
            known = [d for d in table if table[d]]
            if not known:
                return
            d = rng.choice(known)
            ws = list(table[d])
            others = [w for d2, w2 in table.items() if d2 != d for w in w2]
            if not others:
                return
            i = rng.randrange(len(ws))
            if ws[i] in others or ws.count(ws[i]) > 1:
                ws[i] = rng.choice(others)
            else:
                ws.append(rng.choice(others))
            cmds.append(["reindex", d] + ws)
            table[d] = ws

    history(ndocs + rng.randrange(0, 4))
    first = len(cmds)
    queries(rng.randrange(2, 6))
    if rng.random() < 0.6:
        repeated_reads()
    for _ in range(rng.choice([0, 1, 1, 2])):
        asked = [c for c in cmds[first:] if c[0] in ("search", "phrase", "glob", "qw", "apply")]
        if rng.random() < 0.4:
            swap_history()
        else:
            history(rng.randrange(1, 5))
        # scores are a function of the CURRENT corpus: earlier queries are asked again after the change
        for c in rng.sample(asked, min(len(asked), rng.randrange(0, 3))):
            cmds.append(list(c))
        queries(rng.randrange(1, 4))
        if rng.random() < 0.35:
            repeated_reads()
    if kind == "okapi" and rng.random() < 0.3:
        n = rng.randrange(1, 6)
        tr = []
        for d in rng.sample(range(1, 50), n):
            tr += [d, rng.choice([1, 2, 3, 17, 300]), rng.choice([0, 1, 5, 40, 3000])]
        cmds.append(["okascore", rng.choice([0.2876820724517809, 1.0, 2.5, 13.8]),
                     rng.choice([0.5, 1.0, 7.25, 421.0])] + tr)
    cfg = [["cfg", "kind", kind], ["cfg", "impl", impl], ["cfg", "fam", fam]]
    if cutoff:
        cfg.append(["cfg", "cutoff", cutoff])
    cfg += tuned
    case = {"session": "score", "cfg": cfg, "cmds": cmds}
    if not tuned and (kind == "cosine" or impl in ("c", "text")):
        # 12% of these keep the index (and the stub lexicon) in a ZODB connection with commits and cache
        # evictions in between (no aborts: the stub lexicon's tables are harness bookkeeping that later
        # commands refer to; abort histories of text indexes are C09's and C03's)
        case = zbox.sprinkle(rng, case, 0.12, aborts=False)
        if zbox.is_zodb(case) and impl == "text":
            # an abort forgets documents: a later TextIndex.reindex_doc of a forgotten id is spelled index_doc
            known, saved, out = set(), set(), []
            for c in case["cmds"]:
                if c[0] == "txn":
                    if c[1] == "commit":
                        saved = set(known)
                    else:
                        known = set(saved)
                elif c[0] == "index":
                    known.add(c[1])
                elif c[0] == "unindex":
                    known.discard(c[1])
                elif c[0] == "reset":
                    known = set()
                elif c[0] == "reindex" and c[1] not in known:
                    c = ["index"] + list(c[1:])
                    known.add(c[1])
                out.append(c)
            case["cmds"] = out
    return case


K1S = [0.5, 2.0, 2.0, 0.5, 3.75, 1.2]
BS = [0.0, 0.5, 1.0, 0.75, 0.25]
OVERRIDES = ["subclass", "instance", "subsubclass", "instance-of-subclass"]


def gen_tuning(rng, share):
    """K1 / B, the documented BM25 free parameters of OkapiIndex, overridden on a subclass or on the instance: cfg
    lines for the model (bit patterns) - only ever used with the pure-Python loop, the compiled one keeps the
    constants of okascore.c"""
    if rng.random() >= share:
        return []
    k1, b = rng.choice(K1S), rng.choice(BS)
    if k1 == 1.2 and b == 0.75:
        b = 0.5
    which = rng.choice(["both", "both", "k1", "b"])
    if which == "k1" and k1 == 1.2:
        k1 = 2.0
    if which == "b" and b == 0.75:
        b = 1.0
    out = [["cfg", "override", rng.choice(OVERRIDES)]]
    if which in ("both", "k1"):
        out.append(["cfg", "k1", bits(k1)])
    if which in ("both", "b"):
        out.append(["cfg", "b", bits(b)])
    return out


def tuned_index(cfg, cls, lex, fam):
    """the index object for a case: `cls(lex, family=fam)`, with K1 / B overridden as the case says"""
    how = cfg.get("override")
    attrs = {}
    if "k1" in cfg:
        attrs["K1"] = unbits(cfg["k1"])
    if "b" in cfg:
        attrs["B"] = unbits(cfg["b"])
    if not how or not attrs:
        return cls(lex, family=fam)
    if how == "subclass":
        return type("TunedOkapi", (cls,), dict(attrs))(lex, family=fam)
    if how == "subsubclass":
        mid = type("TunedOkapi", (cls,), dict(attrs))
        return type("Application", (mid,), {})(lex, family=fam)
    if how == "instance-of-subclass":
        # the subclass says something else; the instance has the last word
        mid = type("TunedOkapi", (cls,), {k: v + 0.25 if k == "K1" else 0.125 for k, v in attrs.items()})
        inner = mid(lex, family=fam)
    else:
        inner = cls(lex, family=fam)
    for k, v in attrs.items():
        setattr(inner, k, v)
    return inner


# ----------------------------------------------------------------------------
# implementation side
# ----------------------------------------------------------------------------
def cfgdict(case):
    return {c[1]: c[2] for c in case.get("cfg", [])}


def parse_tree_tokens(toks, pos=0):
    k = toks[pos]
    if k in ("a", "g"):
        return (k, toks[pos + 1]), pos + 2
    if k == "p":
        return ("p", toks[pos + 1], [int(w[1:]) for w in toks[pos + 2][2:].split("_")]), pos + 3
    if k == "n":
        t, p = parse_tree_tokens(toks, pos + 1)
        return ("n", t), p
    n = toks[pos + 1]
    p = pos + 2
    ts = []
    for _ in range(n):
        t, p = parse_tree_tokens(toks, p)
        ts.append(t)
    return (k, ts), p


def tree_shape(node):
    """the real parse tree in the notation of `render`'s input (ids only)"""
    nt = node.nodeType()
    if nt == "ATOM":
        return ("a", word_id(node.getValue()))
    if nt == "GLOB":
        return ("g", word_id(node.getValue()))
    if nt == "PHRASE":
        return ("p", [word_id(w) for w in node.getValue()])
    if nt == "NOT":
        return ("n", tree_shape(node.getValue()))
    return (nt.lower(), [tree_shape(c) for c in node.getValue()])


def expected_shape(t):
    if t[0] == "p":
        return ("p", list(t[2]))
    if t[0] == "n":
        return ("n", expected_shape(t[1]))
    if t[0] in ("and", "or"):
        return (t[0], [expected_shape(c) for c in t[1]])
    return t


def impl_run(hyp, case):
    import BTrees
    from hypatia.text import TextIndex, okapiindex, okascore
    from hypatia.text.cosineindex import CosineIndex
    cfg = cfgdict(case)
    fam = BTrees.family32 if cfg["fam"] == 32 else BTrees.family64
    zodb = zbox.is_zodb(case)
    lex = make_lexicon(zodb)
    if cfg["kind"] == "cosine":
        inner = CosineIndex(lex, family=fam)
    elif cfg["impl"] in ("python", "textpy"):
        inner = tuned_index(cfg, _PURE.OkapiIndex, lex, fam)
    else:
        if "k1" in cfg or "b" in cfg:
            raise core.Infra("K1 / B overrides are only compared on the pure-Python loop")
        inner = okapiindex.OkapiIndex(lex, family=fam)
    if cfg.get("cutoff"):
        inner.DICT_CUTOFF = int(cfg["cutoff"])      # instance attribute: survives reset(), read by _add_wordinfo
    ti = TextIndex("text", lexicon=lex, index=inner, family=fam) if cfg["impl"] in ("text", "textpy") else None
    box = zbox.ZBox({"idx": ti if ti is not None else inner, "lex": lex}) if zodb else None
    outs = []
    for c in case["cmds"]:
        op = c[0]
        try:
            if op == "txn":
                outs.append(box.txn(c))
            elif op == "index":
                text = " ".join(map(str, c[2:]))
                if ti is not None:
                    ti.index_doc(c[1], Doc(text))
                else:
                    inner.index_doc(c[1], text)
                outs.append("ok")
            elif op == "reindex":
                text = " ".join(map(str, c[2:]))
                if ti is not None:
                    if c[1] not in inner._docweight:
                        # TextIndex.reindex_doc IS index_doc: never generated for an unknown id; a shrinking step
                        # that drops the earlier index command must not turn the case into a different one
                        raise core.Infra("reindex of an unknown docid through TextIndex is not a generated case")
                    ti.reindex_doc(c[1], Doc(text))
                else:
                    inner.reindex_doc(c[1], text)
                outs.append("ok")
            elif op == "unindex":
                (ti or inner).unindex_doc(c[1])
                outs.append("ok")
            elif op == "reset":
                (ti or inner).reset()
                outs.append("ok")
            elif op == "lex":
                (lex.term if c[1] == "t" else lex.glob)[c[2]] = list(c[3:])
                lex._p_changed = True
                outs.append("ok")
            elif op == "lexp":
                lex.term[c[1]] = list(c[3:])
                lex._p_changed = True
                parts = [int(w[1:]) for w in c[2].split("_")]
                if [w for i in parts for w in lex.term[i]] != list(c[3:]):
                    raise core.Infra("phrase table inconsistent in generated case")
                outs.append("ok")
            elif op == "count":
                outs.append(str((ti or inner).indexed_count()))
            elif op == "search":
                r = inner.search("t%d" % c[1])
                outs.append("none" if r is None else fmt_map(r.items()))
            elif op == "phrase":
                outs.append(fmt_map(inner.search_phrase("t%d" % c[1]).items()))
            elif op == "glob":
                outs.append(fmt_map(inner.search_glob("g%d*" % c[1]).items()))
            elif op == "qw":
                outs.append("f:%r" % float(inner.query_weight(["t%d" % i for i in c[1:]])))
            elif op == "apply":
                tree, _ = parse_tree_tokens(c, 1)
                q = render(tree)
                real = ti.parse_query(q)
                if tree_shape(real) != expected_shape(tree):
                    raise core.Infra("query %r parsed as %r, generator expected %r" % (q, real, tree))
                r = ti.apply(q)
                outs.append("none" if r is None else fmt_map(r.items()))
            elif op == "okascore":
                res = fam.IF.Bucket()
                items = [(c[i], c[i + 1]) for i in range(3, len(c), 3)]
                d2len = {c[i]: c[i + 2] for i in range(3, len(c), 3)}
                okascore.score(res, items, d2len, c[1], c[2])
                outs.append(fmt_map(res.items()))
            else:
                raise core.Infra("unknown command %r" % (c,))
        except core.Infra:
            raise
        except Exception as e:
            outs.append(exc_name(e))
    if box is not None:
        box.close()
    return outs


# ----------------------------------------------------------------------------
# statistics
# ----------------------------------------------------------------------------
def replay_tables(case):
    """(command index, table, term table, glob table) before each command"""
    import copy
    table, terms, globs = {}, {}, {}
    saved = ({}, {}, {})
    for i, c in enumerate(case["cmds"]):
        yield i, c, table, terms, globs
        op = c[0]
        if op == "txn":
            if c[1] == "commit":
                saved = copy.deepcopy((table, terms, globs))
            else:
                t2, m2, g2 = copy.deepcopy(saved)
                table.clear()
                table.update(t2)
                terms.clear()
                terms.update(m2)
                globs.clear()
                globs.update(g2)
        elif op == "index":
            table[c[1]] = list(c[2:])
        elif op == "reindex" and c[1] in table:
            table[c[1]] = list(c[2:])
        elif op == "unindex":
            table.pop(c[1], None)
        elif op == "reset":
            table.clear()
        elif op == "lex":
            (terms if c[1] == "t" else globs)[c[2]] = list(c[3:])
        elif op == "lexp":
            terms[c[1]] = list(c[3:])


def visible(table, wids):
    """some matched document has tf > 1 and len != mean (changed k1 / b would show)"""
    if not table:
        return False
    mean = sum(len(ws) for ws in table.values()) / float(len(table))
    for ws in table.values():
        if len(ws) != mean and any(ws.count(w) > 1 for w in wids):
            return True
    return False


def query_wids(c, terms, globs):
    if c[0] in ("search", "phrase"):
        return terms.get(c[1], [])
    if c[0] == "glob":
        return globs.get(c[1], [])
    if c[0] == "apply":
        out = []
        toks = c[1:]
        for i, t in enumerate(toks):
            if t in ("a", "p"):
                out += terms.get(toks[i + 1], [])
            elif t == "g":
                out += globs.get(toks[i + 1], [])
        return out
    return None


def nontrivial(case, outs):
    for i, c, table, terms, globs in replay_tables(case):
        w = query_wids(c, terms, globs)
        if w is not None and outs[i].count(":") >= 1 and visible(table, w):
            return True
    return False


def features(case, outs):
    cfg = cfgdict(case)
    f = ["kind:" + cfg["kind"], "impl:%s/%s" % (cfg["kind"], cfg["impl"]), "fam:%s" % cfg["fam"]]
    if cfg.get("override"):
        f.append("tuned:" + cfg["override"])
        f.append("tuned:K1=%s,B=%s" % (unbits(cfg["k1"]) if "k1" in cfg else "default",
                                       unbits(cfg["b"]) if "b" in cfg else "default"))
        f.append("tuned:any")
    vis = False
    scored = False
    maxtf = 0
    maxlen = 0
    cutoff = int(cfg.get("cutoff") or 10)
    f.append("cutoff:%s" % (cfg.get("cutoff") or "default"))
    read = {}          # (entry point, word id) -> times read since the last write
    for i, c, table, terms, globs in replay_tables(case):
        op = c[0]
        o = outs[i]
        f.append("op:" + op)
        if op in ("index", "reindex", "unindex", "reset"):
            read = {}
        if o.startswith("err"):
            f.append(op + ":" + o.replace(" ", "-"))
        if op == "index":
            f.append("index:existing" if c[1] in table else "index:new")
            if len(c) == 2:
                f.append("index:empty-doc")
            maxlen = max(maxlen, len(c) - 2)
            if len(c) > 2:
                maxtf = max(maxtf, max(c[2:].count(w) for w in set(c[2:])))
        elif op == "reindex":
            f.append("reindex:known" if c[1] in table else "reindex:unknown")
        elif op == "unindex":
            f.append("unindex:known" if c[1] in table else "unindex:unknown")
        w = query_wids(c, terms, globs)
        if w is not None:
            if o == "none":
                f.append(op + ":None")
            elif o == "{}":
                f.append(op + ":empty")
            elif o.startswith("{"):
                f.append(op + ":scored")
                scored = True
                if visible(table, w):
                    vis = True
                df = {x: sum(1 for ws in table.values() if x in ws) for x in set(w)}
                if any(n > 10 for n in df.values()):
                    f.append("wordinfo-is-btree(>10 docs)")
                if any(n > cutoff for n in df.values()):
                    f.append("wordinfo-is-btree(>cutoff docs)")
                live = [x for x in w if df.get(x)]
                if len(live) == 1 and len(w) == 1 and (op != "apply" or (c[1] in ("a", "g", "p") and len(c) <= 4)):
                    key = (op if op != "apply" else "apply-" + c[1], live[0])
                    read[key] = read.get(key, 0) + 1
                    tree = "stored-tree" if df[live[0]] > cutoff else "dict"
                    if read[key] >= 2:
                        f.append("repeat:same-one-word-%s-again:%s:%s" % (key[0], tree, cfg["kind"]))
                        f.append("repeat:same-one-word-read-again:%s:%s" % (tree, cfg["kind"]))
                    elif any(k[1] == live[0] and k != key for k in read):
                        f.append("repeat:one-word-read-after-other-entry-point:%s:%s" % (tree, cfg["kind"]))
            if len(w) != len(set(w)):
                f.append(op + ":repeated-wid")
    for k in sorted(set(f)):
        if k.startswith(("repeat:same-one-word-read-again", "wordinfo-is-btree")):
            f.append("case:" + k)
    if scored:
        f.append("corpus:scored")
        f.append("corpus:nontrivial(tf>1,len!=mean)" if vis else "corpus:k1-b-invisible")
        if cfg.get("override") and vis:
            f.append("tuned:scored-with-tf>1,len!=mean")
    if cfg.get("override") and any(c[0] == "qw" and len(c) > 1 and o.startswith("f:") and float(o[2:]) > 0
                                   for c, o in zip(case["cmds"], outs)):
        f.append("tuned:query_weight>0")
    if maxtf >= 100:
        f.append("tf>=100")
    if maxlen >= 1000:
        f.append("doclen>=1000")
    return f


def witnesses():
    # D19 (fixed by 7363720): direct OkapiIndex.reindex_doc lost the new document's length
    w = []
    for impl in ("c", "python"):
        w.append(("D19-regression", {
            "session": "score", "cfg": [["cfg", "kind", "okapi"], ["cfg", "impl", impl], ["cfg", "fam", 64]],
            "cmds": [["index", 1, 1, 1, 2], ["index", 2, 1, 3, 3, 3, 3], ["reindex", 1, 1, 2, 2, 2],
                     ["lex", "t", 1, 1], ["search", 1], ["qw", 1]]}))
    return w


RULE = ("a corpus = a history of 2-20 index_doc (new and existing ids), direct reindex_doc (10% unknown ids), "
        "unindex_doc (20% unknown), rare reset calls over 3-8 (+2 multi-byte) word ids and docids incl. "
        "negative / > 2^31, documents of 0-20 words with repeats (8% of the corpora: tf up to 300, up to 3000 "
        "words), followed by 2-5 queries, 0-2 further history/query rounds: search (single word, word split "
        "in two, unknown word, repeated word, stop word -> None), search_phrase (sub-lists of indexed "
        "documents, reversed, random), search_glob (0-5 word ids incl. unknown), query_weight, indexed_count, "
        "and for TextIndex apply() of generated AND/OR/NOT/phrase/glob trees rendered to query strings "
        "(the parse is checked against the generated tree); Okapi via the rebuilt C extension, via the "
        "PURE_PYTHON loop, via TextIndex; cosine directly and via TextIndex; okascore.score called directly "
        "with tf up to 300 and lengths up to 3000; both families; DICT_CUTOFF set on the instance to 2 / 3 / left at "
        "10 (a third each; with 10, 30% of the corpora get 12-16 documents sharing one word), and after 60% of the "
        "first query rounds (35% of the later ones) the SAME one-word read (search / one-id phrase / glob with a "
        "single match / apply of an atom, glob or word+stop-word phrase) on the most frequent word is issued, "
        "followed by 1-2 other reads, then again (measured quick seed 0, of 1200 corpora: same one-word read repeated "
        "on an unchanged corpus 807 on a dict posting + 226 on a stored IFBTree posting, of these 78 cosine; a scored "
        "query on a word beyond the cut-off 326, beyond 10 documents 52). 30% of the Okapi corpora run on an index whose K1 "
        "and / or B (the documented BM25 free parameters; K1 from {0.5, 2.0, 3.75, 1.2}, B from {0, 0.25, 0.5, 0.75, "
        "1}) is overridden on a subclass, a sub-subclass, the instance, or the instance of a subclass saying "
        "something else - always with the pure-Python loop (impl python, or textpy = TextIndex over it), cfg k1 / "
        "cfg b to the model (measured quick seed 0: 235 of 711 Okapi corpora, subclass 57 / sub-subclass 53 / "
        "instance 59 / instance-of-subclass 66; 232 of them scored a document with tf > 1 and len != mean, 99 a "
        "positive query_weight). A corpus is non-trivial if a scored "
        "document has tf > 1 for a query word and len != mean")
LEVEL_TEXT = ("Lean 4 theorems over the reals: for every document table and every list of query word ids the "
              "modelled search / search_glob / search_phrase of OkapiIndex and CosineIndex (per-term maps, "
              "OOV removal, combination through the proved mass_weightedUnion/-Intersection) return exactly "
              "the documents containing a query word (resp. the phrase) with the docstring's BM25 resp. "
              "cosine sum; query_weight equals its formula; the running total-length counter equals the "
              "table's total after every history, so all statistics are functions of the current table; "
              "tied to hypatia by a numerical differential run (rel. tol. 2e-6) against the C-backed and the "
              "pure-Python OkapiIndex, CosineIndex, TextIndex.apply and okascore.score")
LEVEL_NOTE = ("proof for the formulas over the real numbers only: IEEE rounding, libm's log/sqrt, the 32-bit "
              "floats IF buckets store, and the C compiler are outside what Lean states and are covered "
              "numerically by the tolerance comparison; the lexicon is a table-driven stub (word -> ids is "
              "C15); parse trees are executed by the model of C14's `exec` without a closed-form "
              "specification here (that is C20); trusted: Lean kernel, sampled correspondence, harness")
TECHNIQUE = ("Lean 4 proof (refinement of table-derived statistics, induction over histories and term lists, "
             "reuse of the C17 sum theorems) + numerical differential correspondence incl. C extension rebuild")
