"""C09  Index state survives ZODB commit/reopen and is rolled back by abort."""
import os
import shutil

from lib import core
from lib.core import exc_name, idset

ID = "C09"
AUDIT_IMPORTS = ["HypatiaProofs.Properties.C09", "HypatiaProofs.Properties.C09Index"]
THEOREMS = ["Hyp.Persist." + t for t in (
    "c09_refinement", "c09_commit_reopen", "c09_abort_restores", "c09_rollback_restores", "c09_evict_invisible",
    "c09_undisciplined_lost", "c09_undisciplined_survives_abort", "c09_hypatia_blocks_disciplined",
    "c09_blocks_compose",
    # derived from the object-level index models (Properties/C09Index.lean)
    "c09_steps_are_the_log_gained", "c09_field_op_disciplined", "c09_keyword_op_disciplined",
    "c09_facet_op_disciplined",
    "c09_text_op_disciplined", "c09_text_wordinfo_calls_disciplined", "c09_modelled_disciplined",
    "c09_index_histories_refine", "c09_index_commit_reopen", "c09_add_wordinfo_slip_lost",
    "c09_mass_add_slip_lost")]
CASES = {"quick": 400, "thorough": 5000}
BUDGET_S = {"quick": 45, "thorough": 780}
BATCH = 10
RULE = ("histories of 4-30 catalog operations (index/reindex/unindex/reset on a catalog with field, keyword, "
        "facet, Okapi-text and cosine-text indexes; small tree_threshold and DICT_CUTOFF so containers switch "
        "representation) in a real FileStorage, with commit, savepoint, rollback, abort, cacheMinimize and "
        "close-and-reopen at random points and a discriminator that raises at a chosen index position inside "
        "Catalog.index_doc (always followed by abort or rollback); at each `check` the complete observable state "
        "(enumeration, counts, document_repr, a query battery incl. text scores) of the stored catalog is "
        "compared with an in-memory catalog that performed exactly the operations the transaction-log model "
        "says survive. non-trivial = the history contains an abort/rollback that discards work and a reopen, "
        "and at least two different observations")
LEVEL_TEXT = ("Lean 4: a cell-store model of ZODB's commit/abort/savepoint/rollback/eviction (only registered "
              "objects are written or invalidated) with the theorem that, when every in-place mutation of a "
              "plain container is followed by a notifying write in the same operation, memory and disk are the "
              "states of the surviving operations (refinement of the transaction-log specification). That "
              "hypatia's operations are such blocks is proved from the object-level models of the field, keyword, "
              "facet and text index (the heaps of persistent objects C19 uses): each operation's block is the "
              "list of mutation steps the model operation logs - in-place changes of a dict stored inside the "
              "_wordinfo bucket are plain steps, everything else notifies - and every index_doc / reindex_doc / "
              "unindex_doc of all four index types is disciplined from any state (c09_*_op_disciplined), so the "
              "refinement holds for every history of modelled operations (c09_index_histories_refine); the two "
              "seeded slips (_add_wordinfo without re-assignment, _mass_add_wordinfo flagging the tree root) are "
              "proved undisciplined and to lose the update on commit+reopen. The runtime half - pickling, "
              "FileStorage, cache, that the real methods do the steps the model logs - is checked by running the "
              "real catalog in a FileStorage against an in-memory catalog on the surviving operations")
LEVEL_NOTE = ("partial: the theorem is about the dirty-tracking abstraction and the object-level models; that the "
              "real methods perform the modelled steps is established by the correspondence runs (C09 histories; "
              "C19 two-connection runs tie the models' write sets to real commits); ZODB, persistent, "
              "transaction, BTrees are trusted third-party code that is only sampled")
TECHNIQUE = "Lean 4 refinement proof for the persistence abstraction + differential run on a real FileStorage"

FACETS = ["a", "a:b", "a:b:c", "d", "d:e", "f"]
KWS = ["k0", "k1", "k2", "k3", "k4"]
WORDS = ["apple", "berry", "cherry", "date", "elder", "fig", "grape", "hazel", "iris", "jade"]
NINDEX = 5
ATTRS = ["f", "k", "c", "t", "u"]


class Boom(Exception):
    pass


class Disc(object):
    """picklable callable discriminator; raises when the document asks index `pos` to fail"""

    def __init__(self, attr, pos):
        self.attr = attr
        self.pos = pos

    def __call__(self, obj, default):
        if getattr(obj, "fail_at", None) == self.pos:
            raise Boom(self.pos)
        return getattr(obj, self.attr, default)


class Doc(object):
    pass


ALL = ("i0", "i1", "i2", "i3", "i4")


def make_catalog(cutoff=2, present=ALL, thr=2):
    from hypatia.catalog import Catalog
    from hypatia.field import FieldIndex
    from hypatia.keyword import KeywordIndex
    from hypatia.facet import FacetIndex
    from hypatia.text import TextIndex
    from hypatia.text.cosineindex import CosineIndex
    from hypatia.text.lexicon import Lexicon, Splitter, CaseNormalizer, StopWordRemover
    cat = Catalog()
    if "i0" in present:
        cat["i0"] = FieldIndex(Disc("f", 0))
    if "i1" in present:
        kw = KeywordIndex(Disc("k", 1))
        kw.tree_threshold = thr
        cat["i1"] = kw
    if "i2" in present:
        cat["i2"] = FacetIndex(Disc("c", 2), FACETS)
    if "i3" in present:
        t = TextIndex(Disc("t", 3))
        t.index.DICT_CUTOFF = cutoff
        cat["i3"] = t
    if "i4" in present:
        lex = Lexicon(Splitter(), CaseNormalizer(), StopWordRemover())
        u = TextIndex(Disc("u", 4), lexicon=lex, index=CosineIndex(lex))
        u.index.DICT_CUTOFF = cutoff
        cat["i4"] = u
    return cat


def make_doc(spec):
    """spec = [f|-, kwmask|-, facetidx|-, textseed|-, textseed|-]"""
    o = Doc()
    f, k, c, t, u = spec[:5]
    if f != "-":
        o.f = f
    if k != "-":
        o.k = [KWS[i] for i in range(len(KWS)) if (k >> i) & 1]
    if c != "-":
        o.c = [FACETS[c % len(FACETS)]] + ([FACETS[(c // 7) % len(FACETS)]] if c >= 7 else [])
    for name, x in (("t", t), ("u", u)):
        if x != "-":
            if 2000 <= x < 2100:
                # same two words, different counts: a re-index that changes a term frequency but no word set
                setattr(o, name, " ".join([WORDS[(x // 5) % len(WORDS)]] * (x % 5 + 1)) + " apple")
                continue
            if x >= 1000:
                # filler document: x-1000 distinct words, enough to spread a text index's word map and the
                # lexicon over several BTree buckets (a change that marks only the tree's root then loses data)
                setattr(o, name, " ".join("w%03d" % j for j in range(x - 1000)) + " apple")
                continue
            n = x % 6
            text = " ".join(WORDS[(x // 6 + j * (1 + x % 3)) % len(WORDS)] for j in range(n))
            if x >= 100:
                # ordinary words plus two of the filler vocabulary (postings of OLD words get new members)
                text += " w%03d w%03d" % (x % 80, (x * 7) % 80)
            setattr(o, name, text)
    return o


def apply_op(cat, c, fail=None):
    op = c[2]
    if op == "index":
        d = make_doc(c[4:9])
        if fail is not None:
            d.fail_at = fail
        cat.index_doc(c[3], d)
    elif op == "reindex":
        d = make_doc(c[4:9])
        if fail is not None:
            d.fail_at = fail
        cat.reindex_doc(c[3], d)
    elif op == "unindex":
        cat.unindex_doc(c[3])
    elif op == "reset":
        cat.reset()
    elif op == "setindex":
        # Catalog.__setitem__ in a later transaction: the index stored under this name is replaced by a
        # fresh, empty one of the same kind (its contents are gone) - the catalog object itself changes
        name = c[3]
        if name in cat:
            fresh = make_catalog(c[4], [name], c[5])[name]
            cat[name] = fresh
    else:
        raise ValueError(c)


def fmtscore(x):
    return "%.5g" % x


def observe(cat, ids):
    out = []
    for name in ALL:
        if name not in cat:
            continue
        ix = cat[name]
        part = [name, "indexed=" + idset(ix.indexed()), "ni=" + idset(ix.not_indexed()),
                "docids=" + idset(ix.docids()), "ic=%d" % ix.indexed_count(), "nic=%d" % ix.not_indexed_count(),
                "dc=%d" % ix.docids_count(), "wc=%d" % ix.word_count()]
        part.append("repr=" + "|".join("%s" % (ix.document_repr(d, "-"),) for d in ids))
        if name == "i0":
            for q in (2, 5):
                part.append("eq%d=%s" % (q, idset(ix.applyEq(q))))
            part.append("eqs=" + "/".join(idset(ix.applyEq(v)) for v in range(8)))
            part.append("ge3=" + idset(ix.applyGe(3)))
            part.append("ne2=" + idset(ix.applyNotEq(2)))
        elif name == "i1":
            part.append("any=" + idset(ix.applyAny(["k0", "k3"])))
            part.append("all=" + idset(ix.applyAll(["k1", "k2"])))
            part.append("ne=" + idset(ix.applyNotEq("k1")))
            part.append("eqs=" + "/".join(idset(ix.applyEq(k)) for k in KWS))
        elif name == "i2":
            part.append("eqa=" + idset(ix.applyEq("a")))
            part.append("eqs=" + "/".join(idset(ix.applyEq(f)) for f in FACETS))
            part.append("counts=" + repr(sorted(ix.counts(list(ix.indexed())).items())))
        else:
            for q in ("apple", "berry OR fig", '"cherry date"', "grape -apple", "haz*", "date", "elder", "iris OR jade",
                      "w000 OR w001 OR w002 OR w003", "w01* OR w07*", "w04? OR w05?", "w02* OR w03* OR w06*"):
                r = ix.apply(q)
                part.append("%s=%s" % (q.replace(" ", "_"),
                                       " ".join("%d:%s" % (d, fmtscore(s)) for d, s in sorted(r.items()))))
        out.append(" ".join(part))
    return " ;; ".join(out)


def gen(rng, tier, idx):
    ids = list(range(rng.randrange(2, 7)))
    cmds = []
    n = rng.randrange(4, 30 if tier == "quick" else 60)
    nsave = 0
    pending = 0
    k = 0

    shared = rng.random() < 0.35
    cutoff = rng.choice([2, 2, 10])
    seeds = [rng.randrange(60) for _ in range(2)]
    bigvocab = rng.random() < 0.3
    if bigvocab:
        # a filler document with 80-140 distinct words, committed before anything else happens
        nfill = rng.choice([80, 100, 140])
        cmds += [["op", k, "index", ids[-1], 0, 1, 0, 1000 + nfill, 1000 + nfill], ["commit"]]
        k += 1
        seeds = [100 + rng.randrange(400) for _ in range(3)]

    hotw = rng.randrange(10)

    def docspec():
        if rng.random() < 0.15:
            # term-frequency-only changes on one hot word (counts 1..5)
            return [rng.randrange(3), rng.choice([1, 3, 7]), rng.choice([0, 1]), 2000 + hotw * 5 + rng.randrange(5),
                    2000 + hotw * 5 + rng.randrange(5)]
        if bigvocab and rng.random() < 0.7:
            return [rng.randrange(3), rng.choice([1, 3, 7]), rng.choice([0, 1]), rng.choice(seeds),
                    100 + rng.randrange(400)]
        if shared:
            return [rng.randrange(3), rng.choice([1, 3, 3, 7]), rng.choice([0, 1]), rng.choice(seeds),
                    rng.choice(seeds)]
        return [rng.choice(["-", rng.randrange(8)]) if rng.random() < 0.25 else rng.randrange(8),
                rng.choice(["-", 0]) if rng.random() < 0.2 else rng.randrange(1, 32),
                "-" if rng.random() < 0.2 else rng.randrange(40),
                "-" if rng.random() < 0.15 else rng.randrange(60),
                "-" if rng.random() < 0.15 else rng.randrange(60)]
    for _ in range(n):
        r = rng.random()
        if r < 0.55:
            op = rng.choice(["index", "index", "reindex", "unindex", "reset"] if rng.random() < 0.1 else
                            ["index", "index", "index", "reindex", "unindex"])
            if rng.random() < 0.04:
                op = "setindex"
            d = rng.choice(ids)
            if op == "setindex":
                cmds.append(["op", k, "setindex", rng.choice(ALL), cutoff, 2])
            elif op in ("index", "reindex"):
                cmds.append(["op", k, op, d] + docspec())
            elif op == "unindex":
                cmds.append(["op", k, "unindex", d])
            else:
                cmds.append(["op", k, "reset"])
            k += 1
            pending += 1
            if rng.random() < 0.15:
                cmds += [["commit"], ["reopen"], ["check"]]
                nsave = 0
                pending = 0
        elif r < 0.62:
            cmds.append(["failop", k, rng.choice(["index", "reindex"]), rng.choice(ids)] + docspec() +
                        [rng.randrange(NINDEX)])
            k += 1
            if nsave and rng.random() < 0.4:
                j = rng.randrange(nsave)
                cmds.append(["rollback", j])
                nsave = j + 1
            else:
                cmds.append(["abort"])
                nsave = 0
                pending = 0
            cmds.append(["check"])
        elif r < 0.72:
            cmds.append(["commit"])
            nsave = 0
            pending = 0
        elif r < 0.78:
            cmds.append(["abort"])
            nsave = 0
            pending = 0
            cmds.append(["check"])
        elif r < 0.85:
            cmds.append(["savepoint"])
            nsave += 1
        elif r < 0.9 and nsave:
            j = rng.randrange(nsave)
            cmds.append(["rollback", j])
            nsave = j + 1
            cmds.append(["check"])
        elif r < 0.95:
            cmds.append(["evict"])
            if rng.random() < 0.5:
                cmds.append(["check"])
        else:
            cmds.append(["reopen"])
            nsave = 0
            pending = 0
            cmds.append(["check"])
    cmds.append(["check"])
    cmds.append(["commit"])
    cmds.append(["reopen"])
    cmds.append(["check"])
    return {"session": "persist", "cfg": [["cfg", "ids", len(ids)], ["cfg", "cutoff", cutoff]],
            "cmds": cmds}


class Stored(object):
    def __init__(self, path, cutoff=2):
        import transaction
        from ZODB import DB
        from ZODB.FileStorage import FileStorage
        self.path = path
        self.FileStorage, self.DB = FileStorage, DB
        self.tm = transaction.TransactionManager()
        self.storage = FileStorage(path)
        self.db = DB(self.storage)
        self.conn = self.db.open(self.tm)
        self.conn.root()["cat"] = make_catalog(cutoff)
        self.tm.commit()
        self.saves = []

    @property
    def cat(self):
        return self.conn.root()["cat"]

    def reopen(self):
        self.tm.abort()
        self.conn.close()
        self.db.close()
        self.storage = self.FileStorage(self.path)
        self.db = self.DB(self.storage)
        self.conn = self.db.open(self.tm)
        self.saves = []

    def close(self):
        try:
            self.tm.abort()
            self.conn.close()
            self.db.close()
        except Exception:
            pass


_COUNTER = [0]


def impl_run(hyp, case):
    _COUNTER[0] += 1
    d = core.scratch_dir() / ("zodb_%d_%d" % (os.getpid(), _COUNTER[0]))
    d.mkdir(parents=True, exist_ok=True)
    st = Stored(str(d / "Data.fs"), case["cfg"][1][2])
    ids = list(range(case["cfg"][0][2]))
    out = []
    try:
        for c in case["cmds"]:
            try:
                op = c[0]
                if op == "op":
                    apply_op(st.cat, c)
                    out.append("ok")
                elif op == "failop":
                    try:
                        apply_op(st.cat, c[:-1], fail=c[-1])
                        out.append("no-exception")
                    except Boom:
                        out.append("ok")
                elif op == "commit":
                    st.tm.commit()
                    st.saves = []
                    out.append("ok")
                elif op == "abort":
                    st.tm.abort()
                    st.saves = []
                    out.append("ok")
                elif op == "savepoint":
                    st.saves.append(st.tm.savepoint())
                    out.append("ok")
                elif op == "rollback":
                    st.saves[c[1]].rollback()
                    st.saves = st.saves[:c[1] + 1]
                    out.append("ok")
                elif op == "evict":
                    st.conn.cacheMinimize()
                    out.append("ok")
                elif op == "reopen":
                    st.reopen()
                    out.append("ok")
                elif op == "check":
                    out.append(observe(st.cat, ids))
                else:
                    raise ValueError(c)
            except Boom:
                out.append("err Boom")
            except Exception as e:
                out.append(exc_name(e))
    finally:
        st.close()
        shutil.rmtree(d, ignore_errors=True)
    return out


def post_model(hyp, case, mouts, iouts=None):
    """`eff k1 k2 ...` -> observation of an in-memory catalog that performed exactly those operations"""
    ops = {c[1]: c for c in case["cmds"] if c[0] == "op"}
    ids = list(range(case["cfg"][0][2]))
    res = []
    cache = {}
    for m in mouts:
        if m.startswith("eff"):
            ks = tuple(int(x) for x in m.split()[1:])
            if ks not in cache:
                cat = make_catalog(case["cfg"][1][2])
                try:
                    for k in ks:
                        apply_op(cat, ops[k])
                    cache[ks] = observe(cat, ids)
                except Exception as e:
                    cache[ks] = exc_name(e)
            res.append(cache[ks])
        else:
            res.append(m)
    return res


def nontrivial(case, outs):
    obs = {o for c, o in zip(case["cmds"], outs) if c[0] == "check"}
    kinds = {c[0] for c in case["cmds"]}
    return len(obs) >= 2 and ("abort" in kinds or "rollback" in kinds)


def features(case, outs):
    f = []
    for c, o in zip(case["cmds"], outs):
        f.append("cmd:" + c[0] + (":" + c[2] if c[0] in ("op", "failop") else ""))
        if c[0] == "failop":
            f.append("fail-at-index:%d" % c[-1])
        if isinstance(o, str) and o.startswith("err"):
            f.append(o)
    return f
