"""C10  Query-expression strings parse to exactly the query they spell.

Commands of a case (session `cqe`; the catalog names are cfg lines):

  toast <seed> <spelling>   real `ast.parse(spell(s))`, serialised   ==  Lean `Sx.toAst s`
                            (validates the printer and the assumption about CPython's grammar)
  tree <spelling>           the tree built by hand with the query classes (constructors, bottom-up),
                            rendered node by node by the harness' own strict renderer  ==  `embed (Sx.tree s)`
  rt <seed> <spelling>      parse_query(spell(s), optimize_query=False) against the hand-built tree: the
                            renderer's verdict (`same`/`differ`) and hypatia's own `==`/`!=`  ==  model
  parse <src>               parse_query(src) on the real catalog; the model gets the REAL ast.parse tree of src
                            (or `synerr <Class>` when ast.parse itself raised); exception class or rendered result;
                            the specification's answer is the tree of the spelling the AST is, else `reject`
  exec <names> <src>        every leaf of the parsed query executed on spy indexes (subclasses of the real
                            FieldIndex that record the applyX argument): the substituted constants / NameError
  run <names> <src>         parsed.execute(optimize=False, names=names) on a small real catalog (field, keyword,
                            text indexes with documents)  ==  the MODEL's resolved tree rebuilt as constant query
                            objects and executed without names
  rerun spy|real <opt> <r> <names>{r} <src>
                            ONE parsed query object (parse_query with its default optimisation when opt=1, with
                            optimize_query=False when opt=0) executed r = 2..3 times in a row with DIFFERENT names
                            mappings, on spy indexes (every leaf's substituted constants) or on the real catalog (ids);
                            each execution's answer == the model's substitution of THAT execution's names into the tree
                            as it was before the first execution (c10_subst_pure), and the object renders the same
                            afterwards (`unchanged`).  opt=0: the model parses the real AST itself; opt=1: the model gets
                            the implementation's optimised tree as rendered before the first execution (the optimiser
                            is C05's subject)
  qeq <obj> <obj>           hypatia's `==` / `!=` on two hand-built trees  ==  weq  ==  structEq
  subst <names> <obj>       Comparator._get_value observed through Eq(spy, value).execute(names=...)

Known finding: D11 (bare value expressions / improper operands are returned, not rejected).  It is mirrored by the
model, not by the specification answer (`reject`), so it shows up as I == M != S and is classified.  Found here and
since repaired in /repo (fix D21, 32c60f3): names nested in a tuple/list bound of a range were not substituted; the
old witnesses are regression cases that must pass (witnesses()).

Mutation sanity check (GUIDE step 7): 16 semantic mutations of hypatia/query/__init__.py, each in a scratch copy
(VERIF_REPO=/var/tmp/mut_cqe_N, deleted afterwards), all 16 reported VIOLATION with a concrete replay:
  M1  5-child Compare takes end_exclusive from op1 (needs a range with different flags)   caught (exec/parse)
  M2  BoolOp.__init__ stops promoting same-class operands (needs nested same-op)           caught (parse: or 2 or 2 ..)
  M3  process_NotIn forgets .negate() for any()/all()                                      caught (parse: any vs notany)
  M4  _get_value does not descend into tuples (needs a name inside a tuple)                caught (subst)
  M5  Comparator.__eq__ ignores the class                                                  caught (qeq: AttributeError / true)
  M6  process_BitOr returns And                                                            caught (parse)
  M7  process_List does not wrap names (ast.Name left inside lists)                        caught (exec/parse)
  M8  any()/all() swapped in process_Call                                                  caught (parse)
  M9  several statements: the first is taken instead of ValueError                         caught (first a drift on the exception
      class, then the neighbourhood search found `q; 0` accepted)
  M10 _Range.__eq__ ignores end_exclusive                                                  caught (qeq)
  M11 process_LtE builds Lt                                                                caught (parse/exec)
  M12 unhandled node types are skipped (None) instead of ValueError                        caught (`{}` -> None accepted)
  M13 BoolOp.__eq__ compares only the operand count                                        caught (qeq)
  M14 containment takes the index from the left operand                                    caught (parse `a in b`)
  M15 5-child Compare accepts Gt/Ge chains                                                 caught (`a < k > 5` accepted as InRange)
  M16 Name.__eq__ is True for any two Names                                                caught (qeq)
After fix D21 (range bounds through _get_value) the range-related ones were rerun (M1, M4, M10, M11, M15: caught) plus
  M17 fix D21 reverted for the end bound only                                              caught (regression witness)
  M18 start bound resolved from the end bound's value                                      caught (regression witness)
Seeded change missed before `rerun` existed, now caught (witnesses + generated cases, e.g. `a == x or a == y` on the real
catalog answers {1} | {1} instead of {1} | {4 5}, object CHANGED):
  M19 _get_value resolves the Names of a list IN PLACE (value[i] = resolved; return value), so a retained query
      object keeps the first execution's bindings                                          caught (rerun spy/real, opt 0/1)
Seeded change C10_F (process_Call reads only the LAST component of a dotted callee: `a in x.any([1, 2])`,
`a not in builtins.all([1])`, `a in x.y.any([1])` accepted) was missed by token-level mutation; the AST-level near
misses (near_miss: one node replaced by a neighbouring construct of the expression grammar, printed by ast.unparse)
and the fixed call-shape product (callee shape x argument shape x context, extra) catch it.  Further mutations of the
same class (accepting a neighbour of the grammar), each VIOLATION on quick seed 0 (M20-M22 were also caught by the
token-level mutations alone, M23 was missed by them):
  M20 process_Starred returns its child (`a in any(*[1, 2])`, `a == [*x]` accepted)          caught (parse)
  M21 process_Invert = process_Not (`~(a == 1)` accepted)                                   caught (parse)
  M22 process_Subscript returns the value (`a[0] == 1` accepted as `a == 1`)                caught (parse)
  M23 keyword arguments of any()/all() ignored (`a in any([1], x=2)` accepted)              caught (parse)
Round 4.  `names` is "a mapping": every names mapping of exec / run / rerun / subst / cq is handed over as one of dict
(15%), defaultdict(int / list / lambda), Counter, dict subclass with __missing__, ChainMap, ChainMap over a defaultdict,
MappingProxyType, a bare collections.abc.Mapping, OrderedDict, UserDict (7.5-8% each; hash of the command, the model sees
the bindings): an unbound name is a NameError for all of them and the caller's mapping has the same keys afterwards
(else NAMES-MUTATED).  CatalogQuery stream (6% of the cases = 476 per quick run, session commands
  cqset <name> <kind> <v>   catalog[name] = a new index (80% same kind, other docids/contents; 20% another kind)
  cqdel <name>              del catalog[name]           (model: cfg delindex)
  cqindex <docid> <v>       catalog.index_doc
  cq q|c <names> <src>      ONE CatalogQuery object (.query / __call__) answers the expression string; the model
                            resolves the names in what a fresh parse_query of the string gives on the catalog of THAT
                            moment (or parses itself against that moment's names when the fresh parse raises); the tree is
                            executed on a reference catalog that went through the same changes):
the same 1-2 strings before and after 2-5 changes of what their index names denote; measured quick seed 0: 2661 cq
answers, 1624 changes (replace same kind 904, other kind 150, delete 439, index_doc 131), the answer to the same string
changed after 978 of them.  Seeded C10_G (names[name] in try/except KeyError) and C10_H (CatalogQuery caches the parsed
tree per string) were missed before and are caught now.  Further mutations of these classes (VERIF_REPO=/var/tmp/mut_s6/
<X>, deleted afterwards), VIOLATION on quick seed 0:
  D  _get_value: `result = names.get(name); if result is None: raise NameError` (a name bound to None; names=None)  caught
  E  CatalogQuery.__init__ snapshots dict(catalog) and parses against the snapshot (replace / delete / re-add)      caught
"""
import ast
import copy
import io
import json
import math
import random
import re
import sys
import tokenize
import warnings
import zlib

from lib.core import exc_name, idset

warnings.simplefilter("ignore")

ID = "C10"
AUDIT_IMPORTS = ["HypatiaProofs.Properties.C10"]
THEOREMS = ["Hyp.Cqe." + t for t in (
    "c10_single_expression", "c10_spelling_parses", "c10_flat_trees_have_spellings", "c10_unknown_index_rejected",
    "c10_recogniser", "c10_only_spellings_parse_to_queries", "c10_walk_iff_spelling", "c10_spec_answer",
    "c10_outside_language_rejected", "c10_outside_language_partial", "c10_d11_top_level", "c10_d11_not_value",
    "c10_d11_query_as_value", "c10_subst", "c10_subst_error_iff", "c10_leaf_resolution",
    "c10_constant_values_unchanged", "c10_range_subst", "c10_range_error_iff", "c10_d21_regression",
    "c10_subst_pure",
    "c10_eq_is_structural",
    "c10_structEq_refl", "c10_eq_only_on_fragment", "c10_parsed_equals_hand_built", "c10_embeds_in_query_algebra",
    # composition with C04: executing the parsed object = the specification of the substituted hand-built tree
    "c10_resolution_is_substitution", "c10_parse_substitute_execute")]
CASES = {"quick": 8000, "thorough": 300000}
BUDGET_S = {"quick": 40, "thorough": 700}
BATCH = 40
RULE = "filled below"
TRUSTED = ["CPython's ast.parse is third-party: the model starts from the tree the real ast.parse returns "
           "(serialised by the harness); the assumption that a spelling has the AST `Sx.toAst` is re-validated "
           "on every run (command toast)"]
ASSUMPTIONS = ["expressions nested deeper than the interpreter's recursion limit are outside the generators "
               "(CPython / the recursive visit raise RecursionError or MemoryError there, which is a rejection)",
               "float NaN cannot be written as a literal and is not represented in the model's values"]

CAT_NAMES = ["a", "b", "k", "t", "x.y", "any"]
KIND = {"a": "field", "b": "field", "k": "keyword", "t": "text", "x.y": "field", "any": "text"}
CMPS = ["eq", "noteq", "gt", "ge", "lt", "le", "any", "notany", "all", "notall", "contains", "notcontains"]
CLASSNAME = {"eq": "Eq", "noteq": "NotEq", "gt": "Gt", "ge": "Ge", "lt": "Lt", "le": "Le", "any": "Any",
             "notany": "NotAny", "all": "All", "notall": "NotAll", "contains": "Contains",
             "notcontains": "NotContains"}
NAME_OF_CLASS = {v: k for k, v in CLASSNAME.items()}
WORDS = ["apple", "berry", "cherry", "date", "elder", "fig"]
DOCS = [  # docid, a, b, k, t, x.y
    (1, 1, 5, ["k0", "k1"], "apple berry", 3),
    (2, 3, 5, ["k1"], "berry cherry date", 4),
    (3, 5, 2, ["k2", "k3"], "apple", 4),
    (4, 7, 0, ["k0"], "elder fig apple", 9),
    (5, 9, 9, ["k1", "k2", "k3"], "date", 0),
    (6, 3, 1, ["k4"], "fig fig berry", 7),
]


# ---------------------------------------------------------------------------- tokens
def hx(s):
    return ".".join("%x" % ord(c) for c in s)


def unhx(t):
    return "".join(chr(int(x, 16)) for x in t.split(".")) if t else ""


def ftok(x):
    if x != x:
        return "nan"
    sign = "-" if math.copysign(1.0, x) < 0 else "+"
    if math.isinf(x):
        return sign + "inf"
    n, d = abs(x).as_integer_ratio()
    if n == 0:
        return sign + "0p0"
    e = -(d.bit_length() - 1)
    while n % 2 == 0:
        n //= 2
        e += 1
    return "%s%dp%d" % (sign, n, e)


def funtok(t):
    neg = t[0] == "-"
    body = t[1:]
    if body == "inf":
        v = math.inf
    else:
        m, e = body.split("p")
        v = math.ldexp(int(m), int(e))
    return -v if neg else v


def ctok(v):
    if v is None:
        return "none"
    if v is True:
        return "true"
    if v is False:
        return "false"
    if v is Ellipsis:
        return "ell"
    t = type(v)
    if t is int:
        return "i:%d" % v
    if t is float:
        return "f:" + ftok(v)
    if t is complex:
        return "c:%s,%s" % (ftok(v.real), ftok(v.imag))
    if t is str:
        return "s:" + hx(v)
    if t is bytes:
        return "b:" + ".".join("%x" % b for b in v)
    return None


def cparse(t):
    if t == "none":
        return None
    if t == "true":
        return True
    if t == "false":
        return False
    if t == "ell":
        return Ellipsis
    if t.startswith("i:"):
        return int(t[2:])
    if t.startswith("f:"):
        return funtok(t[2:])
    if t.startswith("c:"):
        a, b = t[2:].split(",")
        return complex(funtok(a), funtok(b))
    if t.startswith("s:"):
        return unhx(t[2:])
    if t.startswith("b:"):
        return bytes(int(x, 16) for x in t[2:].split(".")) if t[2:] else b""
    raise ValueError(t)


# ---------------------------------------------------------------------------- spellings (Sx / SV)
def sv_tokens(v):
    k = v[0]
    if k == "C":
        return ["C", ctok(v[1])]
    if k in "-+":
        return [k] + sv_tokens(v[1])
    if k == "D":
        return ["D", len(v[1])] + [hx(p) for p in v[1]]
    out = [k, len(v[1])]
    for x in v[1]:
        out += sv_tokens(x)
    return out


def sx_tokens(s):
    k = s[0]
    if k == "cmp":
        return ["cmp", s[1], len(s[2])] + [hx(p) for p in s[2]] + sv_tokens(s[3])
    if k == "range":
        return ["range", len(s[1])] + [hx(p) for p in s[1]] + sv_tokens(s[2]) + sv_tokens(s[3]) + \
            [1 if s[4] else 0, 1 if s[5] else 0]
    if k == "kw":
        out = ["kw", s[1], len(s[2])]
        for c in s[2]:
            out += sx_tokens(c)
        return out
    if k == "amp":
        return ["amp", s[1]] + sx_tokens(s[2]) + sx_tokens(s[3])
    return ["not"] + sx_tokens(s[1])


def p_dotted(toks, i):
    k = int(toks[i])
    return [unhx(t) for t in toks[i + 1:i + 1 + k]], i + 1 + k


def p_sv(toks, i):
    t = toks[i]
    if t == "C":
        return ("C", cparse(toks[i + 1])), i + 2
    if t in ("-", "+"):
        v, j = p_sv(toks, i + 1)
        return (t, v), j
    if t == "D":
        d, j = p_dotted(toks, i + 1)
        return ("D", d), j
    n = int(toks[i + 1])
    j = i + 2
    xs = []
    for _ in range(n):
        x, j = p_sv(toks, j)
        xs.append(x)
    return (t, xs), j


def p_sx(toks, i):
    t = toks[i]
    if t == "cmp":
        d, j = p_dotted(toks, i + 2)
        v, j = p_sv(toks, j)
        return ("cmp", toks[i + 1], d, v), j
    if t == "range":
        d, j = p_dotted(toks, i + 1)
        s, j = p_sv(toks, j)
        e, j = p_sv(toks, j)
        return ("range", d, s, e, bool(int(toks[j])), bool(int(toks[j + 1]))), j + 2
    if t == "kw":
        n = int(toks[i + 2])
        j = i + 3
        xs = []
        for _ in range(n):
            x, j = p_sx(toks, j)
            xs.append(x)
        return ("kw", toks[i + 1], xs), j
    if t == "amp":
        a, j = p_sx(toks, i + 2)
        b, j = p_sx(toks, j)
        return ("amp", toks[i + 1], a, b), j
    if t == "not":
        x, j = p_sx(toks, i + 1)
        return ("not", x), j
    raise ValueError(toks[i:i + 3])


def sx_of(toks):
    toks = [str(t) for t in toks]
    s, j = p_sx(toks, 0)
    assert j == len(toks), (j, toks)
    return s


# --- printing a spelling -----------------------------------------------------
def sp(rng):
    r = rng.random()
    return " " if r < 0.8 else ("" if r < 0.9 else "  ")


def spell_const(v, rng):
    t = type(v)
    if t is int and not isinstance(v, bool):
        r = rng.random()
        if r < 0.06:
            return hex(v)
        if r < 0.1 and v >= 1000:
            return "{:_}".format(v)
        if r < 0.12:
            return bin(v)
        return repr(v)
    if t is str:
        r = rng.random()
        if r < 0.2:
            return json.dumps(v, ensure_ascii=False)
        if r < 0.3 and len(v) >= 2:
            i = rng.randrange(1, len(v))
            return repr(v[:i]) + " " + repr(v[i:])
        if r < 0.34:
            return "u" + repr(v)
        return repr(v)
    if v is Ellipsis:
        return "..."
    return repr(v)          # None True False float complex bytes


def spell_sv(v, rng):
    k = v[0]
    if k == "C":
        return spell_const(v[1], rng)
    if k in "-+":
        inner = spell_sv(v[1], rng)
        r = rng.random()
        if r < 0.1:
            inner = "(" + inner + ")"
        elif r < 0.2 or inner[:1] == k:
            inner = " " + inner
        return k + inner
    if k == "D":
        return ".".join(v[1]) if rng.random() < 0.9 else " . ".join(v[1])
    parts = [spell_sv(x, rng) for x in v[1]]
    sep = "," + sp(rng)
    if k == "L":
        return "[" + sep.join(parts) + ("," if parts and rng.random() < 0.1 else "") + "]"
    if len(parts) == 1:
        return "(" + parts[0] + ",)"
    return "(" + sep.join(parts) + ("," if parts and rng.random() < 0.1 else "") + ")"


OPSYM = {"eq": "==", "noteq": "!=", "lt": "<", "le": "<=", "gt": ">", "ge": ">="}


def spell(s, rng, need=0):
    k = s[0]
    if k == "cmp":
        c, idx, v = s[1], ".".join(s[2]), spell_sv(s[3], rng)
        a, b = sp(rng) or " ", sp(rng) or " "
        if c in OPSYM:
            a2, b2 = (a, b) if rng.random() < 0.85 else ("", "")
            out = idx + a2 + OPSYM[c] + b2 + v
        elif c == "contains":
            out = v + " in " + idx
        elif c == "notcontains":
            out = v + " not in " + idx
        else:
            fn = "any" if c in ("any", "notany") else "all"
            neg = " not in " if c.startswith("not") else " in "
            out = idx + neg + fn + ("(" if rng.random() < 0.9 else " (") + v + ")"
        p = 4
    elif k == "range":
        out = "%s %s %s %s %s" % (spell_sv(s[2], rng), "<" if s[4] else "<=", ".".join(s[1]),
                                  "<" if s[5] else "<=", spell_sv(s[3], rng))
        p = 4
    elif k == "kw":
        p = 2 if s[1] == "and" else 1
        out = (" %s " % s[1]).join(spell(c, rng, p + 1) for c in s[2])
    elif k == "amp":
        p = 6 if s[1] == "and" else 5
        out = spell(s[2], rng, p) + sp(rng) + ("&" if s[1] == "and" else "|") + sp(rng) + spell(s[3], rng, p + 1)
    else:
        p = 3
        inner = spell(s[1], rng, 3)
        out = ("not " if not inner.startswith("(") or rng.random() < 0.7 else "not") + inner
    if p < need or rng.random() < 0.12:
        r = rng.random()
        if r < 0.05:
            out = "(\n " + out + "\n)"
        elif r < 0.1:
            out = "((" + out + "))"
        else:
            out = "(" + out + ")"
    return out


# ---------------------------------------------------------------------------- ast serialiser
UN = {"Not": "not", "USub": "usub", "UAdd": "uadd", "Invert": "invert"}
CMPOP = {"Eq": "eq", "NotEq": "noteq", "Lt": "lt", "LtE": "lte", "Gt": "gt", "GtE": "gte", "Is": "is",
         "IsNot": "isnot", "In": "in", "NotIn": "notin"}


def ser(n):
    t = type(n).__name__
    if t == "BoolOp":
        out = ["B", "and" if isinstance(n.op, ast.And) else "or", len(n.values)]
        for v in n.values:
            out += ser(v)
        return out
    if t == "UnaryOp":
        return ["1", UN[type(n.op).__name__]] + ser(n.operand)
    if t == "BinOp":
        o = type(n.op).__name__
        o = "bitand" if o == "BitAnd" else "bitor" if o == "BitOr" else "x:" + o
        return ["2", o] + ser(n.left) + ser(n.right)
    if t == "Compare":
        if len(n.ops) != len(n.comparators):
            raise AssertionError("Compare with %d ops and %d comparators" % (len(n.ops), len(n.comparators)))
        out = ["M", len(n.ops)] + ser(n.left)
        for o, c in zip(n.ops, n.comparators):
            out += [CMPOP[type(o).__name__]] + ser(c)
        return out
    if t == "Call":
        kids = list(n.args) + list(n.keywords)
        out = ["K", len(kids)] + ser(n.func)
        for k in kids:
            out += ser(k)
        return out
    load = isinstance(getattr(n, "ctx", None), ast.Load)
    if t == "Name" and load:
        return ["N", hx(n.id)]
    if t == "Attribute" and load:
        return ["A", hx(n.attr)] + ser(n.value)
    if t == "Constant":
        c = ctok(n.value)
        if c is None:
            raise AssertionError("constant of type %s" % type(n.value).__name__)
        return ["C", c]
    if t in ("List", "Tuple") and load:
        out = ["L" if t == "List" else "U", len(n.elts)]
        for e in n.elts:
            out += ser(e)
        return out
    kids = list(ast.iter_child_nodes(n))
    out = ["O", t, len(kids)]
    for k in kids:
        out += ser(k)
    return out


def module_tokens(src):
    """model command tail for a source string: the REAL ast.parse result, or the class ast.parse raised"""
    try:
        body = ast.parse(src).body
    except Exception as e:
        return None, type(e).__name__
    out = [len(body)]
    for st in body:
        if isinstance(st, ast.Expr):
            out += ["E"] + ser(st.value)
        else:
            out += ["S", type(st).__name__]
    return out, None


# ---------------------------------------------------------------------------- implementation side
class Doc(object):
    pass


# ---------------------------------------------------------------------------- names mappings
# `names` is "a mapping": besides plain dicts the executions get mappings that fabricate a value on item access for a
# missing key (defaultdict, Counter, dict subclass with __missing__, ChainMap over a defaultdict), read-only views and
# a bare collections.abc.Mapping.  Which one is decided by a hash of the command, so the model (which sees the
# bindings) needs no change.  An unbound name is a NameError for all of them, and the caller's mapping has the same
# keys afterwards (else the answer gets the suffix NAMES-MUTATED).
MAPKINDS = ("dict", "dict", "defaultdict-int", "defaultdict-list", "defaultdict-str", "counter", "dict-missing",
            "chainmap", "chainmap-defaultdict", "proxy", "abc-mapping", "ordered", "userdict")


def names_kind(toks, k):
    return MAPKINDS[zlib.crc32((" ".join(map(str, toks)) + "#%d" % k).encode()) % len(MAPKINDS)]


class _MissingDict(dict):
    def __missing__(self, key):
        return 3


def wrap_names(kind, d):
    """-> (mapping handed to execute(), the dict-like objects whose key sets must not change)"""
    import collections
    import collections.abc
    import types
    if kind == "defaultdict-int":
        m = collections.defaultdict(int, d)
    elif kind == "defaultdict-list":
        m = collections.defaultdict(list, d)
    elif kind == "defaultdict-str":
        m = collections.defaultdict(lambda: "apple", d)
    elif kind == "counter":
        m = collections.Counter()
        dict.update(m, d)
    elif kind == "dict-missing":
        m = _MissingDict(d)
    elif kind == "chainmap":
        inner = dict(d)
        return collections.ChainMap({}, inner), [inner]
    elif kind == "chainmap-defaultdict":
        inner = collections.defaultdict(int, d)
        m = collections.ChainMap({}, inner)
        return m, [m, inner]
    elif kind == "proxy":
        inner = dict(d)
        return types.MappingProxyType(inner), [inner]
    elif kind == "abc-mapping":
        inner = dict(d)

        class RO(collections.abc.Mapping):
            def __getitem__(self, key):
                return inner[key]

            def __iter__(self):
                return iter(inner)

            def __len__(self):
                return len(inner)
        return RO(), [inner]
    elif kind == "ordered":
        m = collections.OrderedDict(d)
    elif kind == "userdict":
        m = collections.UserDict(d)
    else:
        m = dict(d)
    return m, [m]


# ---------------------------------------------------------------------------- the CatalogQuery stream
class CqWorld(object):
    """a private catalog whose entries change while ONE CatalogQuery object keeps answering (commands cqset / cqdel /
    cqindex / cq).  Built the same way twice: once for the implementation's CatalogQuery, once as the reference on
    which the model's resolved trees are executed."""

    def __init__(self):
        from hypatia.catalog import Catalog, CatalogQuery
        self.cat = Catalog()
        for name in CAT_NAMES:
            self.cat[name] = self.make(name, KIND[name], 0)
        self.cq = CatalogQuery(self.cat)
        self.extra = []

    @staticmethod
    def doc(row):
        docid, a, b, k, t, xy = row
        d = Doc()
        d.f_a, d.f_b, d.f_k, d.f_t, d.f_x_y, d.f_any = a, b, k, t, xy, t
        return d

    def make(self, name, kind, variant):
        """a new index for `name`: variant 0 = the standard documents; variant v = docids shifted by 10 v, contents
        rotated by v (every answer differs from the one of another variant)"""
        from hypatia.field import FieldIndex
        from hypatia.keyword import KeywordIndex
        from hypatia.text import TextIndex
        attr = "f_" + name.replace(".", "_")
        if kind == "field" and KIND[name] != "field":
            attr = "f_a"
        elif kind == "keyword" and KIND[name] != "keyword":
            attr = "f_k"
        elif kind == "text" and KIND[name] not in ("text",):
            attr = "f_t"
        ix = {"field": FieldIndex, "keyword": KeywordIndex, "text": TextIndex}[kind](attr)
        for i, row in enumerate(DOCS):
            src = DOCS[(i + variant) % len(DOCS)]
            ix.index_doc(row[0] + 10 * variant, self.doc((row[0],) + tuple(src[1:])))
        for docid, v in getattr(self, "extra", []):
            ix.index_doc(docid, self.doc((docid,) + tuple(DOCS[v % len(DOCS)][1:])))
        return ix

    def step(self, toks):
        op = toks[0]
        if op == "cqset":
            self.cat[unhx(toks[1])] = self.make(unhx(toks[1]), toks[2], int(toks[3]))
        elif op == "cqdel":
            del self.cat[unhx(toks[1])]
        elif op == "cqindex":
            self.extra.append((int(toks[1]), int(toks[2])))
            self.cat.index_doc(int(toks[1]), self.doc((int(toks[1]),) + tuple(DOCS[int(toks[2]) % len(DOCS)][1:])))
        else:
            raise ValueError(toks)
        return "ok"


class Impl(object):
    def __init__(self):
        from hypatia.catalog import Catalog
        from hypatia.field import FieldIndex
        from hypatia.keyword import KeywordIndex
        from hypatia.text import TextIndex
        from hypatia import query as Q
        self.Q = Q
        self.cat = Catalog()
        for name in CAT_NAMES:
            kind = KIND[name]
            attr = "f_" + name.replace(".", "_")
            if kind == "field":
                ix = FieldIndex(attr)
            elif kind == "keyword":
                ix = KeywordIndex(attr)
            else:
                ix = TextIndex(attr)
            self.cat[name] = ix
        for docid, a, b, k, t, xy in DOCS:
            d = Doc()
            d.f_a, d.f_b, d.f_k, d.f_t, d.f_x_y, d.f_any = a, b, k, t, xy, t
            self.cat.index_doc(docid, d)

        class Spy(FieldIndex):
            def __init__(self, name):
                FieldIndex.__init__(self, name)
                self.log = []

            def applyInRange(self, start, end, excludemin=False, excludemax=False):
                self.log.append(("range", start, end, excludemin, excludemax))
                return self.family.IF.Set()

            applyNotInRange = applyInRange

        def mk(m):
            def f(self, value):
                self.log.append((m, value))
                return self.family.IF.Set()
            return f
        for m in CLASSNAME.values():
            setattr(Spy, "apply" + m, mk(m))
        self.spycat = Catalog()
        for name in CAT_NAMES:
            self.spycat[name] = Spy("s")
        self.last_pre = {}
        self.cur = 0
        self.world = None
        self.watch = []
        self.names_of = {}
        for c in (self.cat, self.spycat):
            for name in CAT_NAMES:
                self.names_of[id(c[name])] = name

    # --- the independent, strictly typed renderer ---------------------------
    def render(self, o):
        Q = self.Q
        t = type(o)
        c = ctok(o) if t in (type(None), bool, int, float, complex, str, bytes, type(Ellipsis)) else None
        if c is not None:
            return [c]
        if t is list or t is tuple:
            out = ["L" if t is list else "T", len(o)]
            for x in o:
                out += self.render(x)
            return out
        if t is Q.Name:
            return ["n:" + hx(o.name)]
        if t is ast.Name:
            return ["N:" + hx(o.id)]
        if t in (Q.InRange, Q.NotInRange):
            return ["range", 1 if t is Q.NotInRange else 0, hx(self.index_name(o.index))] + self.render(o._start) + \
                self.render(o._end) + [1 if o.start_exclusive is True else 0 if o.start_exclusive is False else "?",
                                       1 if o.end_exclusive is True else 0 if o.end_exclusive is False else "?"]
        if t.__name__ in NAME_OF_CLASS and t is getattr(Q, t.__name__):
            return ["cmp", NAME_OF_CLASS[t.__name__], hx(self.index_name(o.index))] + self.render(o._value)
        if t is Q.And or t is Q.Or:
            out = ["and" if t is Q.And else "or", len(o.queries)]
            for k in o.queries:
                out += self.render(k)
            return out
        if t is Q.Not:
            return ["not"] + self.render(o.query)
        if callable(o) and t.__name__ == "function":
            return ["<function>"]
        return ["?" + t.__name__]

    def index_name(self, ix):
        return self.names_of.get(id(ix), "?unknown-index")

    def show(self, o):
        return " ".join(map(str, self.render(o)))

    # --- building by hand ----------------------------------------------------
    def build_sv(self, v):
        k = v[0]
        if k == "C":
            return v[1]
        if k == "-":
            return -self.build_sv(v[1])
        if k == "+":
            return +self.build_sv(v[1])
        if k == "D":
            return self.Q.Name(".".join(v[1]))
        xs = [self.build_sv(x) for x in v[1]]
        return xs if k == "L" else tuple(xs)

    def build_sx(self, s, cat):
        Q = self.Q
        k = s[0]
        if k == "cmp":
            return getattr(Q, CLASSNAME[s[1]])(cat[".".join(s[2])], self.build_sv(s[3]))
        if k == "range":
            return Q.InRange(cat[".".join(s[1])], self.build_sv(s[2]), self.build_sv(s[3]), s[4], s[5])
        if k == "kw":
            return (Q.And if s[1] == "and" else Q.Or)(*[self.build_sx(c, cat) for c in s[2]])
        if k == "amp":
            return (Q.And if s[1] == "and" else Q.Or)(self.build_sx(s[2], cat), self.build_sx(s[3], cat))
        return Q.Not(self.build_sx(s[1], cat))

    def build_w(self, toks, i, cat):
        """object tokens (driver format) -> real objects"""
        Q = self.Q
        t = toks[i]
        if t in ("L", "T"):
            n = int(toks[i + 1])
            j = i + 2
            xs = []
            for _ in range(n):
                x, j = self.build_w(toks, j, cat)
                xs.append(x)
            return (xs if t == "L" else tuple(xs)), j
        if t == "cmp":
            v, j = self.build_w(toks, i + 3, cat)
            return getattr(Q, CLASSNAME[toks[i + 1]])(cat[unhx(toks[i + 2])], v), j
        if t == "range":
            s, j = self.build_w(toks, i + 3, cat)
            e, j = self.build_w(toks, j, cat)
            cls = Q.NotInRange if toks[i + 1] == "1" else Q.InRange
            return cls(cat[unhx(toks[i + 2])], s, e, toks[j] == "1", toks[j + 1] == "1"), j + 2
        if t in ("and", "or"):
            n = int(toks[i + 1])
            j = i + 2
            xs = []
            for _ in range(n):
                x, j = self.build_w(toks, j, cat)
                xs.append(x)
            return (Q.And if t == "and" else Q.Or)(*xs), j
        if t == "not":
            x, j = self.build_w(toks, i + 1, cat)
            return Q.Not(x), j
        if t.startswith("n:"):
            return Q.Name(unhx(t[2:])), i + 1
        return cparse(t), i + 1

    def names(self, toks, i):
        if toks[i] == "nonames":
            return None, i + 1
        k = int(toks[i])
        j = i + 1
        d = {}
        for _ in range(k):
            name = unhx(toks[j])
            v, j = self.build_w(toks, j + 1, self.cat)
            d[name] = v
        kind = names_kind(toks, self.nnames)
        self.nnames += 1
        m, watched = wrap_names(kind, d)
        self.watch.append((kind, [(w, sorted(w)) for w in watched]))
        return m, j

    # --- commands -------------------------------------------------------------
    def leaves(self, q):
        kids = list(q.iter_children()) if hasattr(q, "iter_children") else []
        if isinstance(q, (self.Q.BoolOp, self.Q.Not)):
            out = []
            for k in kids:
                out += self.leaves(k)
            return out
        return [q]

    def exec_leaf(self, leaf, names):
        Q = self.Q
        for name in CAT_NAMES:
            del self.spycat[name].log[:]
        try:
            leaf.execute(optimize=False, names=names)
        except Exception as e:
            return exc_name(e)
        log = [e for name in CAT_NAMES for e in self.spycat[name].log]
        if len(log) != 1:
            return "spy-log %r" % (log,)
        e = log[0]
        if isinstance(leaf, Q._Range):
            return "ok " + " ".join(map(str, ["range", 1 if isinstance(leaf, Q.NotInRange) else 0,
                                              hx(self.index_name(leaf.index))] + self.render(e[1]) + self.render(e[2]) +
                                             [1 if e[3] else 0, 1 if e[4] else 0]))
        return "ok " + " ".join(map(str, ["cmp", NAME_OF_CLASS[type(leaf).__name__],
                                          hx(self.index_name(leaf.index))] + self.render(e[1])))

    nnames = 0

    def run(self, c):
        self.nnames = 0
        self.watch = []
        out = self.run1(c)
        for kind, watched in self.watch:
            if any(sorted(w) != keys for w, keys in watched):
                out += " NAMES-MUTATED:" + kind
        return out

    def run1(self, c):
        Q = self.Q
        op = c[0]
        toks = [str(t) for t in c]
        if op in ("cqset", "cqdel", "cqindex"):
            if self.world is None:
                self.world = CqWorld()
            try:
                return self.world.step(toks)
            except Exception as e:
                return exc_name(e)
        if op == "cq":
            # ONE CatalogQuery object answers the expression string (parse_query with its default optimisation inside)
            if self.world is None:
                self.world = CqWorld()
            names, j = self.names(toks, 2)
            # what a fresh parse_query (default optimisation, like CatalogQuery.query's own) of the string gives on
            # the catalog as it is now: the model resolves the names in THAT tree (the optimiser is C05's subject)
            for name, ix in self.world.cat.items():
                self.names_of[id(ix)] = name
            try:
                fresh = Q.parse_query(unhx(toks[j]), self.world.cat)
                if isinstance(fresh, Q.Query):
                    self.last_pre[self.cur] = self.show(fresh)
            except Exception:
                pass
            try:
                f = self.world.cq.query if toks[1] == "q" else self.world.cq
                num, ids = f(unhx(toks[j]), names=names)
                ids = list(ids)
                if num != len(ids):
                    return "len-mismatch %d %d" % (num, len(ids))
                return idset(ids)
            except Exception as e:
                return exc_name(e)
        if op == "toast":
            s = sx_of(toks[2:])
            src = spell(s, random.Random(int(toks[1])))
            try:
                body = ast.parse(src).body
                if len(body) != 1 or not isinstance(body[0], ast.Expr):
                    return "not-one-expression %r" % src
                return " ".join(map(str, ser(body[0].value)))
            except Exception as e:
                return exc_name(e) + " %r" % src
        if op == "tree":
            s = sx_of(toks[1:])
            try:
                return "ok " + self.show(self.build_sx(s, self.cat))
            except TypeError:
                return "none"               # -x / +x of a non-number cannot be built by hand either
        if op == "rt":
            s = sx_of(toks[2:])
            src = spell(s, random.Random(int(toks[1])))
            try:
                built = self.build_sx(s, self.cat)
            except TypeError:
                return "none"
            try:
                parsed = Q.parse_query(src, self.cat, optimize_query=False)
            except Exception as e:
                return exc_name(e)
            a, b = self.show(parsed), self.show(built)
            try:
                eq, ne = parsed == built, parsed != built
            except Exception as e:
                return "eq-raised " + exc_name(e)
            if (eq is not True and eq is not False) or ne is not (not eq):
                return "inconsistent eq=%r ne=%r" % (eq, ne)
            return ("same" if a == b else "differ " + a) + " eq=%d" % (1 if eq else 0)
        if op == "parse":
            try:
                return "ok " + self.show(Q.parse_query(unhx(toks[1]), self.cat, optimize_query=False))
            except Exception as e:
                return exc_name(e)
        if op == "exec":
            names, j = self.names(toks, 1)
            try:
                parsed = Q.parse_query(unhx(toks[j]), self.spycat, optimize_query=False)
            except Exception as e:
                return exc_name(e)
            if not isinstance(parsed, Q.Query):
                return "notquery"
            return " ; ".join(self.exec_leaf(l, names) if hasattr(l, "execute") else "err AttributeError"
                              for l in self.leaves(parsed))
        if op == "run":
            names, j = self.names(toks, 1)
            try:
                parsed = Q.parse_query(unhx(toks[j]), self.cat, optimize_query=False)
                if not isinstance(parsed, Q.Query):
                    return "notquery"
                return idset(parsed.execute(optimize=False, names=names).ids)
            except Exception as e:
                return exc_name(e)
        if op == "rerun":
            spy, opt, r = toks[1] == "spy", toks[2] == "1", int(toks[3])
            j = 4
            rounds = []
            for _ in range(r):
                names, j = self.names(toks, j)
                rounds.append(names)
            cat = self.spycat if spy else self.cat
            try:
                parsed = Q.parse_query(unhx(toks[j]), cat) if opt else \
                    Q.parse_query(unhx(toks[j]), cat, optimize_query=False)
            except Exception as e:
                return exc_name(e)
            if not isinstance(parsed, Q.Query):
                return "notquery"
            pre = self.show(parsed)
            self.last_pre[self.cur] = pre
            outs = []
            for names in rounds:
                if spy:
                    outs.append(" ; ".join(self.exec_leaf(l, names) if hasattr(l, "execute") else "err AttributeError"
                                           for l in self.leaves(parsed)))
                else:
                    try:
                        outs.append(idset(parsed.execute(optimize=False, names=names).ids))
                    except Exception as e:
                        outs.append(exc_name(e))
            post = self.show(parsed)
            return " | ".join(outs) + " || " + ("unchanged" if post == pre else "CHANGED " + post)
        if op == "qeq":
            a, j = self.build_w(toks, 1, self.cat)
            b, j = self.build_w(toks, j, self.cat)
            try:
                eq, ne = a == b, a != b
            except Exception as e:
                return "eq-raised " + exc_name(e)
            if (eq is not True and eq is not False) or ne is not (not eq):
                return "inconsistent eq=%r ne=%r" % (eq, ne)
            return "true" if eq else "false"
        if op == "subst":
            names, j = self.names(toks, 1)
            v, j = self.build_w(toks, j, self.cat)
            spy = self.spycat["a"]
            del spy.log[:]
            try:
                Q.Eq(spy, v).execute(optimize=False, names=names)
            except Exception as e:
                return exc_name(e)
            return "ok " + self.show(spy.log[0][1])
        raise ValueError(c)


_IMPL = {}


def impl_for(hyp):
    if id(hyp) not in _IMPL:
        _IMPL.clear()
        _IMPL[id(hyp)] = Impl()
    return _IMPL[id(hyp)]


def impl_run(hyp, case):
    im = impl_for(hyp)
    im.last_pre = {}
    im.world = None
    out = []
    for i, c in enumerate(case["cmds"]):
        im.cur = i
        out.append(im.run(c))
    return out


def model_cmd(c):
    op = c[0]
    if op in ("toast", "rt"):
        return [op] + list(c[2:])
    if op == "parse":
        m, err = module_tokens(unhx(str(c[1])))
        return ["synerr", err] if m is None else ["parse"] + m
    if op == "rerun":
        if str(c[2]) == "1":
            return ["cfg", "deferred"]          # answered in post_model from the optimised tree (see docstring)
        m, err = module_tokens(unhx(str(c[-1])))
        if m is None:
            return ["synerr", err]
        return ["rerun", c[1]] + list(c[3:-1]) + m
    if op in ("exec", "run"):
        m, err = module_tokens(unhx(str(c[-1])))
        if m is None:
            return ["synerr", err]
        return ["exec" if op == "exec" else "resolve"] + list(c[1:-1]) + m
    if op == "cq":
        return ["cfg", "deferred"]              # answered in post_model (see there)
    if op == "cqset":
        return ["cfg", "index", c[1]]
    if op == "cqdel":
        return ["cfg", "delindex", c[1]]
    if op == "cqindex":
        return ["cfg", "noop"]
    return c


def _real_rounds(im, m):
    """`ok <tree>` / `err X` per execution -> rebuilt as constant query objects on the real catalog and executed"""
    body, sep, tail = m.partition(" || ")
    outs = []
    for part in body.split(" | "):
        if part.startswith("ok "):
            try:
                q, j = im.build_w(part.split(" ")[1:], 0, im.cat)
                part = idset(q.execute(optimize=False).ids)
            except Exception as e:
                part = exc_name(e)
        outs.append(part)
    return " | ".join(outs) + sep + tail


def post_model(hyp, case, mouts, iouts):
    """`run` / `rerun real`: the model's resolved tree is rebuilt as constant query objects on the real catalog and
    executed; `rerun` with opt=1: the model is asked now, with the optimised tree the implementation showed BEFORE
    its first execution"""
    from lib import core
    im = impl_for(hyp)
    out = list(mouts)
    deferred = []
    for i, c in enumerate(case["cmds"]):
        if c[0] == "rerun" and str(c[2]) == "1":
            pre = im.last_pre.get(i)
            if pre is None:           # the implementation did not get a query object: the model parses itself
                m, err = module_tokens(unhx(str(c[-1])))
                line = ["synerr", err] if m is None else ["rerun", c[1]] + list(c[3:-1]) + m
            else:
                line = ["reruntree", c[1]] + list(c[3:-1]) + pre.split(" ")
            deferred.append((i, " ".join(map(str, line))))
    if deferred:
        head = ["session " + case["session"]] + [" ".join(map(str, x)) for x in case.get("cfg", [])]
        res = core.run_model(head + [l for _, l in deferred])[len(head):]
        for (i, _), r in zip(deferred, res):
            out[i] = r
    if any(c[0] == "cq" for c in case["cmds"]):
        # CatalogQuery stream: the model is asked again with the whole stream, each `cq` as the resolution of its
        # names in the freshly parsed (optimised) tree of that moment, or - when the fresh parse_query raised - as the
        # model's own parse against the catalog names of that moment
        head = ["session " + case["session"]] + [" ".join(map(str, x)) for x in case.get("cfg", [])]
        lines, where = [], []
        for i, c in enumerate(case["cmds"]):
            if c[0] == "cq":
                pre = im.last_pre.get(i)
                if pre is None:
                    m, err = module_tokens(unhx(str(c[-1])))
                    line = ["synerr", err] if m is None else ["resolve"] + list(c[2:-1]) + m
                else:
                    line = ["reruntree", "real", 1] + list(c[2:-1]) + pre.split(" ")
            elif c[0] in ("cqset", "cqdel", "cqindex"):
                line = model_cmd(c)
            else:
                continue
            lines.append(" ".join(map(str, line)))
            where.append(i)
        res = core.run_model(head + lines)[len(head):]
        for i, r in zip(where, res):
            if case["cmds"][i][0] == "cq":
                m, sep, spec = r.partition(" ## ")
                out[i] = m.split(" || ")[0] + sep + spec
    ref = None
    for i, c in enumerate(case["cmds"]):
        if c[0] in ("cqset", "cqdel", "cqindex", "cq"):
            # the reference catalog goes through the same changes; the model's resolved tree is rebuilt as constant
            # query objects over the reference catalog AS IT IS at this point of the history and executed
            if ref is None:
                ref = CqWorld()
            if c[0] != "cq":
                try:
                    ref.step([str(t) for t in c])
                except Exception:
                    pass            # the implementation's own answer to this command is compared with "ok"
                continue
            m, sep, spec = out[i].partition(" ## ")
            if m.startswith("ok "):
                try:
                    q, j = im.build_w(m.split(" ")[1:], 0, ref.cat)
                    m = idset(q.execute(optimize=False).ids)
                except Exception as e:
                    m = exc_name(e)
            out[i] = m + sep + spec
    for i, c in enumerate(case["cmds"]):
        if c[0] == "run":
            m, sep, spec = out[i].partition(" ## ")
            if m.startswith("ok "):
                try:
                    q, j = im.build_w(m.split(" ")[1:], 0, im.cat)
                    m = idset(q.execute(optimize=False).ids)
                except Exception as e:
                    m = exc_name(e)
            out[i] = m + sep + spec
        elif c[0] == "rerun" and c[1] == "real":
            m, sep, spec = out[i].partition(" ## ")
            out[i] = _real_rounds(im, m) + sep + spec
    return out


def same(a, b):
    if b == "reject":
        return a.startswith("err ")
    return a == b


# ---------------------------------------------------------------------------- generators
NAMES = ["x", "y", "z", "foo", "bar", "a", "any", "all", "_p", "é", "k", "Name"]
STRS = ["", "foo", "apple", "berry", "k0", "k1", "k2", "a b", "café", "it's", 'say "hi"', "back\\slash", "new\nline",
        "tab\t", "中文", "\U0001f600", "x" * 40, "\x00", "\x7f"]
BYTES = [b"", b"ab", b"\x00\xff", b"it's", b'q"']
INTS = [0, 1, 2, 3, 5, 7, 9, 10, 16, 255, 1000, 12345, 2 ** 31, 2 ** 63, 2 ** 64 + 1, 10 ** 30]
FLOATS = [0.0, 1.0, 1.5, 0.1, 2.5e-7, 1e300, 5e-324, 3.0, 1e16, 2.0 ** 53 + 2, 123.456]


def gen_const(rng):
    r = rng.random()
    if r < 0.36:
        return rng.choice(INTS)
    if r < 0.52:
        return rng.choice(FLOATS)
    if r < 0.72:
        return rng.choice(STRS)
    if r < 0.78:
        return rng.choice(BYTES)
    if r < 0.88:
        return rng.choice([True, False])
    if r < 0.95:
        return None
    if r < 0.98:
        return rng.choice([2j, 0j, 1.5j])
    return Ellipsis


def gen_dotted(rng, pool=NAMES):
    if rng.random() < 0.08:
        return [rng.choice(pool)] + [rng.choice(["q", "foo", "any", "y"]) for _ in range(rng.randrange(1, 3))]
    return [rng.choice(pool)]


def gen_sv(rng, depth=2, wild=0.03):
    r = rng.random()
    if r < 0.5:
        return ("C", gen_const(rng))
    if r < 0.64:
        # negative numbers: -int, -float, rarely -bool, --x, +x, and (wild) - of a non-number
        inner = ("C", rng.choice(INTS + FLOATS))
        q = rng.random()
        if q < 0.1:
            inner = ("C", rng.choice([True, False, 2j]))
        elif q < 0.18:
            inner = (rng.choice("-+"), inner)
        elif q < 0.18 + wild:
            inner = rng.choice([("C", "s"), ("C", None), ("D", ["x"]), ("L", []), ("C", b"b")])
        return ("-" if rng.random() < 0.85 else "+", inner)
    if r < 0.8:
        return ("D", gen_dotted(rng))
    if depth <= 0:
        return ("C", gen_const(rng))
    n = rng.choice([0, 1, 1, 2, 2, 3, 4])
    return (rng.choice("LT"), [gen_sv(rng, depth - 1, wild) for _ in range(n)])


def gen_typed_sv(rng, kind, listy):
    """a value an index of this kind can execute; names are bound by gen_names"""
    def one():
        r = rng.random()
        if r < 0.3:
            return ("D", [rng.choice(["x", "y", "z", "foo"])])
        if kind == "field":
            return ("C", rng.randrange(10)) if rng.random() < 0.85 else ("-", ("C", rng.randrange(1, 4)))
        if kind == "keyword":
            return ("C", "k%d" % rng.randrange(6))
        return ("C", rng.choice(WORDS))
    if listy:
        if rng.random() < 0.12:
            return ("D", [rng.choice(["lst", "tup"])])
        return (rng.choice("LT"), [one() for _ in range(rng.choice([0, 1, 2, 2, 3]))])
    return one()


def gen_leaf(rng, typed):
    idx = rng.choice(CAT_NAMES) if rng.random() < 0.97 else rng.choice(["zz", "a.b", "b.q"])
    kind = KIND.get(idx, "field")
    if typed:
        pool = {"field": ["eq", "noteq", "gt", "ge", "lt", "le", "any", "notany", "range", "range"],
                "keyword": ["eq", "noteq", "any", "notany", "all", "notall"],
                "text": ["contains", "notcontains", "eq", "noteq"]}[kind]
        c = rng.choice(pool)
        if c == "range":
            return ("range", idx.split("."), gen_typed_sv(rng, kind, False), gen_typed_sv(rng, kind, False),
                    rng.random() < 0.5, rng.random() < 0.5)
        return ("cmp", c, idx.split("."), gen_typed_sv(rng, kind, c in ("any", "notany", "all", "notall")))
    if rng.random() < 0.18:
        return ("range", idx.split("."), gen_sv(rng), gen_sv(rng), rng.random() < 0.5, rng.random() < 0.5)
    return ("cmp", rng.choice(CMPS), idx.split("."), gen_sv(rng))


def gen_sx(rng, depth, typed):
    r = rng.random()
    if depth <= 0 or r < 0.3:
        return gen_leaf(rng, typed)
    if r < 0.42:
        return ("not", gen_sx(rng, depth - 1, typed))
    k = rng.choice(["and", "or"])
    if r < 0.8:
        n = rng.choice([2, 2, 2, 3, 3, 4])
        return ("kw", k, [gen_sx(rng, depth - 1, typed) for _ in range(n)])
    return ("amp", k, gen_sx(rng, depth - 1, typed), gen_sx(rng, depth - 1, typed))


RN = ["x", "y", "z", "foo"]


def gen_named_sx(rng, typed):
    """spellings whose comparator values hold >= 2 distinct Names, in the shapes that end up as ONE list-valued
    comparator: `a == x or a == y` (-> Any), `a != x and a != y` (-> NotAny), `k == x and k == y` (-> All),
    `a in any([x, y])`, tuple-valued and nested-list values, ranges and `a > x and a < y` (-> InRange)"""
    def nm():
        return ("D", [rng.choice(RN)])

    def names2(n):
        pool = rng.sample(RN, min(n, len(RN)))
        return [("D", [p]) for p in pool]

    def const(kind):
        return gen_typed_sv(rng, kind, False)
    idx = rng.choice(["a", "b", "k"] if typed else ["a", "b", "k", "t", "x.y"])
    kind = KIND[idx]
    d = idx.split(".")
    r = rng.random()
    n = rng.choice([2, 2, 3, 4])
    if r < 0.2:
        vals = names2(n) + ([const(kind)] if rng.random() < 0.4 else [])
        rng.shuffle(vals)
        core = ("kw", "or", [("cmp", "eq", d, v) for v in vals])
    elif r < 0.35:
        vals = names2(n) + ([const(kind)] if rng.random() < 0.4 else [])
        core = ("kw", "and", [("cmp", "noteq", d, v) for v in vals])
    elif r < 0.45:
        core = ("kw", rng.choice(["and", "or"]), [("cmp", rng.choice(["eq", "noteq"]), d, v) for v in names2(n)])
    elif r < 0.75:
        vals = names2(n) + [const(kind) for _ in range(rng.choice([0, 0, 1]))]
        rng.shuffle(vals)
        q = rng.random()
        if q < 0.2:                       # nested list / tuple members
            vals[0] = (rng.choice("LT"), [vals[0], nm(), const(kind)])
        elif q < 0.3:
            vals.append(("L", [("T", [nm(), ("L", [nm()])])]))
        c = rng.choice(["any", "notany"] if kind == "field" and typed else ["any", "notany", "all", "notall"])
        core = ("cmp", c, d, (rng.choice("LT"), vals))
    elif r < 0.85:
        x, y = names2(2)
        if rng.random() < 0.5:
            core = ("range", d, x, y, rng.random() < 0.5, rng.random() < 0.5)
        else:
            core = ("kw", "and", [("cmp", rng.choice(["gt", "ge"]), d, x), ("cmp", rng.choice(["lt", "le"]), d, y)])
    else:
        x, y = names2(2)
        core = ("range", d, ("T", [x, const(kind)]), ("T", [y, ("L", [nm()])]), False, True) if not typed else \
            ("cmp", "eq", d, x)
    q = rng.random()
    if q < 0.25:
        return ("kw", rng.choice(["and", "or"]), [gen_leaf(rng, typed), core] if core[0] != "kw" or rng.random() < 0.5
                else [core, gen_leaf(rng, typed)])
    if q < 0.35:
        return ("not", core)
    if q < 0.45:
        return ("amp", rng.choice(["and", "or"]), core, gen_named_sx(rng, typed) if rng.random() < 0.3 else gen_leaf(rng, typed))
    return core


def sx_has_name(s):
    if isinstance(s, tuple):
        if s and s[0] == "D" and len(s) == 2 and isinstance(s[1], list) and s[1] and s[1][0] in RN:
            return True
        return any(sx_has_name(x) for x in s[1:])
    if isinstance(s, list):
        return any(sx_has_name(x) for x in s)
    return False


def gen_rounds(rng, typed, spy):
    """2-3 DIFFERENT names mappings; for the real catalog every name is bound (And/Or evaluate lazily)"""
    r = rng.choice([2, 2, 3])
    out = [r]
    used = []
    for _ in range(r):
        for _ in range(20):
            seedv = [rng.randrange(10) for _ in RN]
            if seedv not in used:
                break
        used.append(seedv)
        d = []
        for n, v in zip(RN, seedv):
            if spy and rng.random() < 0.12:
                continue                        # unbound in this execution only
            if typed:
                val = [ctok(rng.choice([v, v, "k%d" % (v % 6), WORDS[v % len(WORDS)]]))]
            else:
                val = [ctok(v)] if rng.random() < 0.6 else gen_wval(rng, 1)
            d.append((n, val))
        d.append(("lst", ["L", 2, ctok(seedv[0]), ctok(seedv[1])]))
        d.append(("tup", ["T", 2, ctok("k%d" % (seedv[2] % 6)), ctok("k%d" % (seedv[3] % 6))]))
        if spy and rng.random() < 0.03:
            out += ["nonames"]
            continue
        out += [len(d)]
        for n, v in d:
            out += [hx(n)] + v
    return out


def rerun_cmds(rng, src, typed):
    cmds = []
    for opt in (0, 1):
        if rng.random() < 0.85:
            cmds.append(["rerun", "spy", opt] + gen_rounds(rng, typed, True) + [hx(src)])
        if typed and rng.random() < 0.7:
            cmds.append(["rerun", "real", opt] + gen_rounds(rng, True, False) + [hx(src)])
    return cmds


def w_of_const(v):
    return [ctok(v)]


def gen_wval(rng, depth=2):
    """object tokens of a value (for names bindings, qeq, subst)"""
    r = rng.random()
    if r < 0.55:
        return [ctok(gen_const(rng))]
    if r < 0.75:
        return ["n:" + hx(rng.choice(NAMES))]
    if depth <= 0:
        return [ctok(rng.choice(INTS))]
    n = rng.choice([0, 1, 2, 2, 3])
    out = [rng.choice("LT"), n]
    for _ in range(n):
        out += gen_wval(rng, depth - 1)
    return out


def gen_names(rng, typed, drop=0.25, nonames=0.04):
    if rng.random() < nonames:
        return ["nonames"]
    d = []
    for n in ["x", "y", "z", "foo", "bar", "a", "any", "_p", "é"]:
        if rng.random() < drop:
            continue
        if typed:
            v = [ctok(rng.choice([rng.randrange(10), rng.randrange(10), "k%d" % rng.randrange(6), rng.choice(WORDS)]))]
        else:
            v = gen_wval(rng, 1)
        d.append((n, v))
    if typed:
        d.append(("lst", ["L", 2, ctok(rng.randrange(10)), ctok(rng.randrange(10))]))
        d.append(("tup", ["T", 2, ctok("k1"), ctok("k2")]))
    out = [len(d)]
    for n, v in d:
        out += [hx(n)] + v
    return out


MUT_POOL = ["==", "!=", "<", "<=", ">", ">=", "in", "not", "and", "or", "&", "|", "(", ")", "[", "]", ",", "is", "^",
            "+", "-", "~", "any", "all", "1", "a", "b", "zz", ";", "=", "\n", ".", "lambda", ":", "if", "else", "for",
            "*", "**", "{", "}", "f''", "...", "None", ":=", "1j", "x", "'s'", "a.b", "foo(", "await", "yield", "@", "%",
            "//", "<<", "not in", "is not", "\\", "#", " ", "\t"]


def tokens_of(src):
    try:
        return [t.string for t in tokenize.generate_tokens(io.StringIO(src).readline)
                if t.type not in (tokenize.ENDMARKER, tokenize.NEWLINE, tokenize.NL) and t.string != ""]
    except Exception:
        return src.split(" ")


CLS_CMP = ["==", "!=", "<", "<=", ">", ">=", "in", "not in", "is", "is not"]
CLS_BOOL = ["and", "or", "&", "|", "^", "+", "-", "*", "@", "//", "<<", "if x else"]
CLS_NAME = CAT_NAMES + ["zz", "x", "y", "foo", "all", "a.b", "any.x", "x.y.z", "None", "True", "__debug__"]
CLS_LIT = ["1", "-1", "+1", "- -1", "-x", "~1", "1.5", "-0.0", "1e999", "'s'", "'a' 'b'", "None", "True", "-True",
           "[1]", "[x, [y]]", "(x,)", "()", "(1, 2)", "1j", "-1j", "...", "b'x'", "f'{x}'", "f''", "{1}", "{}", "{1: 2}",
           "x[0]", "x[0:1]", "(lambda: 1)", "(x if y else z)", "[*x]", "(yield)", "(x := 1)", "[i for i in x]",
           "(i for i in x)", "any([1])", "all(x)", "any(1, 2)", "any()", "any(x=1)", "any(*x)", "foo(1)", "any.x([1])",
           "(any)([1])", "(1).foo", "x.y", "(a == 1)", "(not x)", "(a == 1).foo", "-'s'", "-None", "-[1]", "not 1",
           "(await x)", "x @ y", "x ** 2", "1 + 2"]
WRAPS = ["not %s", "not (%s)", "%s and 1", "1 or %s", "%s,", "[%s]", "(%s).foo", "(%s).x == 1", "any(%s)",
         "a in any(%s)", "a not in all(%s)", "%s if a else b", "%s; %s", "%s\n%s", "x = %s", "-(%s)", "~(%s)", "+(%s)",
         "a == (%s)", "(%s) == 1", "1 < (%s) < 2", "(%s) & (%s)", "(%s) | 1", "1 & (%s)", "(%s) ^ (a == 1)",
         "(%s) + (a == 1)", " %s", "%s ", "\t%s", "(%s", "%s)", "%s #c", "lambda: %s", "(%s) is None", "not not %s",
         "(%s) and (%s) or not (%s)", "[%s for x in y]", "(%s)()", "{%s}", "*%s", "%s = 1", "del %s", "assert %s",
         "return %s", "(%s) in a", "(%s) in any([1])", "a < (%s)", "%s\n", "\n%s", "%s\n\n", "(\n%s\n)", "%s \\\n"]


def token_class(t):
    if t in ("==", "!=", "<", "<=", ">", ">=", "in", "is"):
        return "cmp"
    if t in ("and", "or", "&", "|"):
        return "bool"
    if t in ("not", "(", ")", "[", "]", ",", ".", "-", "+"):
        return None
    if t[:1].isalpha() or t[:1] == "_":
        return "name"
    return "lit"


def mutate(rng, src):
    r0 = rng.random()
    if r0 < 0.2:
        w = rng.choice(WRAPS)
        return w.replace("%s", src)
    toks = tokens_of(src)
    if r0 < 0.55:
        # class-preserving replacement: the string mostly stays syntactically valid
        idxs = [i for i, t in enumerate(toks) if token_class(t)]
        for _ in range(rng.choice([1, 1, 2])):
            if not idxs:
                break
            i = rng.choice(idxs)
            c = token_class(toks[i])
            if c is not None:
                toks[i] = rng.choice({"cmp": CLS_CMP, "bool": CLS_BOOL, "name": CLS_NAME, "lit": CLS_LIT}[c])
        return " ".join(toks)
    for _ in range(rng.choice([1, 1, 1, 2, 2, 3])):
        r = rng.random()
        if r < 0.25 and toks:
            del toks[rng.randrange(len(toks))]
        elif r < 0.4 and toks:
            i = rng.randrange(len(toks))
            toks.insert(i, toks[i])
        elif r < 0.55 and len(toks) > 1:
            i = rng.randrange(len(toks) - 1)
            toks[i], toks[i + 1] = toks[i + 1], toks[i]
        elif r < 0.65 and len(toks) > 1:
            i, j = rng.randrange(len(toks)), rng.randrange(len(toks))
            toks[i], toks[j] = toks[j], toks[i]
        elif r < 0.85 and toks:
            toks[rng.randrange(len(toks))] = rng.choice(MUT_POOL)
        else:
            toks.insert(rng.randrange(len(toks) + 1), rng.choice(MUT_POOL))
    sep = " " if rng.random() < 0.9 else ""
    return sep.join(toks)


# ---------------------------------------------------------------------------- near misses built on the AST
# A spelling is parsed, one or two nodes are replaced by a neighbouring construct of Python's expression grammar
# (everything ast.parse accepts around the language), and the tree is printed again with ast.unparse.  The text
# stays syntactically valid, so the walk itself - not the tokenizer - has to reject it.
class _Fill(ast.NodeTransformer):
    def __init__(self, holes):
        self.holes = holes

    def visit_Name(self, node):
        if node.id in self.holes:
            return copy.deepcopy(self.holes[node.id])
        return node


def tpl(s, **holes):
    """expression template: every Name called like a hole is replaced by (a copy of) that node"""
    return _Fill(holes).visit(ast.parse(s, mode="eval").body)


# callee shapes around `any` / `all` (F = the function's own name)
CALLEE_TPL = ["x.F", "a.F", "k.F", "builtins.F", "tags.F", "x.y.F", "x.y.z.F", "any.F", "all.F", "F.F", "F.x", "F.x.F",
              "x().F", "(1).F", "'s'.F", "x[0].F", "[].F", "F[0]", "F()", "F(x)", "(lambda: F)", "(lambda v: F(v))",
              "(F if x else F)", "(F or F)", "F.__call__", "(F, F)", "[F][0]", "-F", "F @ x", "(f := F)", "(await F)",
              "x.F.y", "F.real"]
NEAR_FUNCS = ["Any", "ANY", "any_", "_any", "some", "none", "all_", "All", "notany", "len", "set", "list", "sorted",
              "foo", "anyall", "a", "k", "x", "any1", "аny"]          # the last one starts with a Cyrillic letter
CALL_ARGS = ["F()", "F(V, V)", "F(V, 1)", "F(values=V)", "F(V, x=1)", "F(x=1)", "F(*V)", "F(*x)", "F(V, *x)", "F(**x)",
             "F(V, **x)", "F(*x, **y)", "F(V,)", "F(*V, *V)", "F(v for v in V)", "F(V)(V)", "F(F(V))", "F(V).x", "F(V)[0]"]
NAME_TPL = ["H.q", "H.q.r", "H.any", "H.all", "H.real.imag", "H[0]", "H[0:1]", "H[x]", "H['q']", "H()", "H(1)", "-H", "+H",
            "~H", "(H,)", "[H]", "(H if x else H)", "(lambda: H)", "(h := H)", "H @ H", "H + 1", "(await H)", "H.q()",
            "(H or H)", "f'{H}'", "(not H)"]
OTHER_NAMES = ["zz", "None", "True", "__debug__", "b.q", "a.b", "A", "any", "all", "x.y.z", "x", "y.x"]
VALUE_TPL = ["{H}", "{H: H}", "{1: H}", "{}", "[H for i in x]", "[i for i in H]", "{H for i in x}", "{i: H for i in x}",
             "(H for i in x)", "[i for i in x if H]", "[i async for i in H]", "(lambda: H)", "(lambda x, *y, z=1, **w: H)",
             "(H if x else y)", "(x if H else y)", "(x if y else H)", "(v := H)", "f'{H}'", "f'a{H!r:>{x}}b'", "f''",
             "H[0]", "H[0:1]", "H[::2]", "H[0, 1]", "x[H]", "[*H]", "(*H,)", "[H, *x]", "{**H}", "(await H)", "(yield H)",
             "(yield)", "(yield from H)", "H + 1", "1 - H", "H ** 2", "H @ x", "H % 2", "H // 2", "H / 2", "H << 1",
             "H >> 1", "H ^ 1", "H & 1", "H | 1", "~H", "not H", "- H", "+ H", "- - H", "H < 2", "H is None",
             "H is not None", "H in x", "H not in x", "H == H", "(H and 1)", "(H or x)", "int(H)", "x.y(H)", "H.real",
             "H.x.y", "H()", "(H, x.y.z)", "[x.y, H]", "[[H]]", "(H,)", "[H]", "((H, H), [H])", "any(H)", "all([H])",
             "x.any(H)", "b'x' if H else u'y'", "...", "1_0", "0x1f", "1e999", "-1j", "None", "x.y", "x . y", "__debug__"]
QUERY_TPL = ["(lambda: H)", "(H if x else y)", "(H if H else H)", "(x if H else H)", "(v := H)", "H[0]", "H.x", "H()",
             "(await H)", "(yield H)", "(H,)", "[H]", "{H}", "[*H]", "~H", "-H", "+H", "not H", "not not H", "H == 1",
             "a == H", "a != H", "H in a", "a in H", "H in any([1])", "a in any(H)", "a in any([H])", "a not in all(H)",
             "H < a < 2", "1 < H < 2", "1 < a < H", "H is None", "H is not H", "H + H", "H ^ H", "H - H", "H @ H",
             "H and 1", "x or H", "H and x.y", "H or None", "H and any([1])", "H & 1", "1 | H", "H & x", "H | (a, 1)",
             "[H for i in x]", "f'{H}'", "any(H)", "x.any(H)", "H < H", "H == H", "H if a == 1 else H", "H and not 1",
             "(H) & (not 1)", "H or a", "a and H", "H & a", "H | a.b"]
BINOPS = ["+", "-", "*", "@", "/", "//", "%", "**", "<<", ">>", "^", "&", "|"]
CMP_SRC = ["==", "!=", "<", "<=", ">", ">=", "is", "is not", "in", "not in"]
CMPNODE = {"==": ast.Eq, "!=": ast.NotEq, "<": ast.Lt, "<=": ast.LtE, ">": ast.Gt, ">=": ast.GtE, "is": ast.Is,
           "is not": ast.IsNot, "in": ast.In, "not in": ast.NotIn}
UNNODE = [ast.Invert, ast.Not, ast.UAdd, ast.USub]


def _binop(op, l, r):
    return tpl("L %s R" % op, L=l, R=r)


def nm_call(rng, n):
    fn = n.func.id if isinstance(n.func, ast.Name) else rng.choice(["any", "all"])
    arg = n.args[0] if n.args else ast.List(elts=[ast.Constant(1)], ctx=ast.Load())
    r = rng.random()
    out = copy.deepcopy(n)
    if r < 0.45:
        out.func = tpl(rng.choice(CALLEE_TPL).replace("F", fn))
    elif r < 0.75:
        out = tpl(rng.choice(CALL_ARGS).replace("F", "FN__").replace("V", "VAL__"), FN__=n.func, VAL__=arg)
    elif r < 0.88:
        out.func = ast.Name(rng.choice(NEAR_FUNCS), ast.Load())
    else:
        out = tpl(rng.choice(CALL_ARGS).replace("F", "FN__").replace("V", "VAL__"),
                  FN__=tpl(rng.choice(CALLEE_TPL).replace("F", fn)), VAL__=arg)
    return out


def nm_name(rng, n):
    if rng.random() < 0.25:
        return ast.parse(rng.choice(OTHER_NAMES), mode="eval").body
    return tpl(rng.choice(NAME_TPL), H=n)


def nm_compare(rng, n):
    out = copy.deepcopy(n)
    r = rng.random()
    if r < 0.35:
        out.ops[rng.randrange(len(out.ops))] = CMPNODE[rng.choice(CMP_SRC)]()
    elif r < 0.6:
        extra = rng.choice([ast.Constant(rng.choice([0, 1, 2, "s", None])), ast.Name(rng.choice(["a", "b", "x"]), ast.Load()),
                            copy.deepcopy(out.comparators[-1]), copy.deepcopy(out.left)])
        if rng.random() < 0.6:
            out.ops.append(CMPNODE[rng.choice(CMP_SRC)]())
            out.comparators.append(extra)
        else:
            out.ops.insert(0, CMPNODE[rng.choice(CMP_SRC)]())
            out.comparators.insert(0, out.left)
            out.left = extra
    elif r < 0.75:
        out.left, out.comparators[0] = out.comparators[0], out.left
    elif r < 0.9:
        ops = rng.choice([[">", ">"], [">=", ">"], ["<", ">"], [">", "<="], ["==", "<"], ["<", "!="], ["in", "<"],
                          ["<", "in"], ["is", "is"], ["<", "<", "<"], ["<=", "<", "<=", "<"]])
        vals = [out.left] + out.comparators
        while len(vals) < len(ops) + 1:
            vals.append(copy.deepcopy(rng.choice(vals)))
        out.left, out.comparators, out.ops = vals[0], vals[1:len(ops) + 1], [CMPNODE[o]() for o in ops]
    else:
        out.ops = [CMPNODE[rng.choice(CMP_SRC)]() for _ in out.ops]
    return out


def nm_boolop(rng, n):
    r = rng.random()
    vals = n.values
    if r < 0.35:
        op = rng.choice(BINOPS)
        out = vals[0]
        for v in vals[1:]:
            out = _binop(op, out, v)
        return out
    if r < 0.45:
        return tpl("A if B else C", A=vals[0], B=vals[1], C=vals[-1])
    if r < 0.6:
        return ast.Compare(left=copy.deepcopy(vals[0]), ops=[CMPNODE[rng.choice(CMP_SRC)]() for _ in vals[1:]],
                           comparators=[copy.deepcopy(v) for v in vals[1:]])
    out = copy.deepcopy(n)
    if r < 0.9:
        extra = ast.parse(rng.choice(["1", "x", "x.y", "None", "any([1])", "a.any([1])", "[a == 1]", "(a == 1,)", "not 1",
                                      "a", "''", "a == 1 if x else b == 2", "lambda: a == 1", "a < 1 < 2", "-1",
                                      "a.b == 1", "a() == 1", "a[0] == 1", "a == 1 is True"]), mode="eval").body
        out.values.insert(rng.randrange(len(out.values) + 1), extra)
    else:
        out.op = ast.Or() if isinstance(out.op, ast.And) else ast.And()
    return out


def nm_binop(rng, n):
    r = rng.random()
    if r < 0.6:
        return _binop(rng.choice(BINOPS), n.left, n.right)
    if r < 0.8:
        side = ast.parse(rng.choice(["1", "x", "a", "any([1])", "[a == 1]", "not 1", "None", "x.y"]), mode="eval").body
        return _binop("&" if isinstance(n.op, ast.BitAnd) else "|", *((side, n.right) if rng.random() < 0.5 else (n.left, side)))
    return tpl(rng.choice(["L and R", "L or R", "L if R else L", "L < R", "(L, R)"]), L=n.left, R=n.right)


def nm_unary(rng, n):
    out = copy.deepcopy(n)
    r = rng.random()
    if r < 0.5:
        out.op = rng.choice(UNNODE)()
    elif r < 0.8:
        out = ast.UnaryOp(op=rng.choice(UNNODE)(), operand=out)
    else:
        out.operand = tpl(rng.choice(VALUE_TPL), H=out.operand)
    return out


def nm_value(rng, n):
    if isinstance(n, (ast.List, ast.Tuple)) and rng.random() < 0.3:
        elts = [copy.deepcopy(e) for e in n.elts]
        r = rng.random()
        if r < 0.3:
            return ast.Set(elts=elts or [ast.Constant(1)])
        if r < 0.6 and elts:
            i = rng.randrange(len(elts))
            elts[i] = ast.Starred(value=elts[i], ctx=ast.Load())
        else:
            elts.insert(rng.randrange(len(elts) + 1), tpl(rng.choice(VALUE_TPL), H=ast.Constant(1)))
        return type(n)(elts=elts, ctx=ast.Load())
    return tpl(rng.choice(VALUE_TPL), H=n)


def nm_query(rng, n):
    return tpl(rng.choice(QUERY_TPL), H=n)


def _slots(tree):
    out = []
    for p in ast.walk(tree):
        for f, v in ast.iter_fields(p):
            if isinstance(v, ast.expr):
                out.append((p, f, None, v))
            elif isinstance(v, list):
                for i, x in enumerate(v):
                    if isinstance(x, ast.expr):
                        out.append((p, f, i, x))
    return out


def _kinds(p, f, n):
    if isinstance(n, ast.Call):
        return ["call", "call", "call", "value"]
    if isinstance(n, (ast.Name, ast.Attribute)):
        if isinstance(p, ast.Attribute) or (isinstance(p, ast.Call) and f == "func"):
            return []                                   # inner part of a dotted name / a callee: handled from above
        return ["name"]
    if isinstance(n, ast.Compare):
        return ["compare", "query"]
    if isinstance(n, ast.BoolOp):
        return ["boolop", "query"]
    if isinstance(n, ast.BinOp):
        return ["binop", "query"]
    if isinstance(n, ast.UnaryOp):
        return ["unary"] + (["query"] if isinstance(n.op, ast.Not) else ["value"])
    if isinstance(n, (ast.Constant, ast.List, ast.Tuple)):
        return ["value"]
    return []


NM = {"call": nm_call, "name": nm_name, "compare": nm_compare, "boolop": nm_boolop, "binop": nm_binop,
      "unary": nm_unary, "value": nm_value, "query": nm_query}


def near_miss(rng, src, kind=None):
    """src with 1-2 nodes replaced by neighbouring constructs; None when src is not an expression"""
    try:
        tree = ast.parse(src.strip(), mode="eval")
    except Exception:
        return None
    for _ in range(rng.choice([1, 1, 1, 2])):
        bykind = {}
        for p, f, i, n in _slots(tree):
            for k in _kinds(p, f, n):
                bykind.setdefault(k, []).append((p, f, i, n))
        if not bykind:
            break
        k = kind if kind in bykind else rng.choice(sorted(bykind))
        kind = None
        p, f, i, n = rng.choice(bykind[k])
        try:
            new = NM[k](rng, n)
        except SyntaxError:
            continue
        if i is None:
            setattr(p, f, new)
        else:
            getattr(p, f)[i] = new
    try:
        return ast.unparse(ast.fix_missing_locations(tree))
    except Exception:
        return None


def nm_features(src):
    """which neighbouring constructs a source string contains (measured on the real AST)"""
    try:
        tree = ast.parse(src)
    except Exception:
        return []
    f = set()
    for n in ast.walk(tree):
        t = type(n).__name__
        if t == "Call":
            fn = n.func
            if isinstance(fn, ast.Attribute):
                last = fn.attr in ("any", "all")
                depth = 0
                while isinstance(fn, ast.Attribute):
                    fn, depth = fn.value, depth + 1
                f.add("nm:callee-dotted%s%s%s" % ("-ending-any/all" if last else "", "-depth>=2" if depth >= 2 else "",
                                                  "" if isinstance(fn, ast.Name) else "-on-nonname"))
            elif not isinstance(fn, ast.Name):
                f.add("nm:callee-" + type(fn).__name__)
            elif fn.id not in ("any", "all"):
                f.add("nm:callee-other-name")
            if n.keywords:
                f.add("nm:call-keyword" if any(k.arg for k in n.keywords) else "nm:call-**kwargs")
            if any(isinstance(a, ast.Starred) for a in n.args):
                f.add("nm:call-starred-arg")
            if isinstance(fn, ast.Name) and fn.id in ("any", "all") and not n.keywords and len(n.args) != 1:
                f.add("nm:any/all-%d-args" % min(len(n.args), 2))
        elif t == "Compare":
            if len(n.ops) >= 3:
                f.add("nm:compare-chain>=3")
            if any(isinstance(o, (ast.Is, ast.IsNot)) for o in n.ops):
                f.add("nm:compare-is")
            if len(n.ops) == 2 and not all(isinstance(o, (ast.Lt, ast.LtE)) for o in n.ops):
                f.add("nm:range-with-other-ops")
            for side in [n.left] + n.comparators:
                if isinstance(side, ast.Attribute) and isinstance(side.value, ast.Attribute):
                    f.add("nm:chained-attribute-operand")
        elif t == "BinOp" and not isinstance(n.op, (ast.BitAnd, ast.BitOr)):
            f.add("nm:binop-" + type(n.op).__name__)
        elif t == "UnaryOp" and isinstance(n.op, ast.Invert):
            f.add("nm:unary-invert")
        elif t in ("Subscript", "Lambda", "IfExp", "NamedExpr", "Starred", "Set", "Dict", "JoinedStr", "Await", "Yield",
                   "YieldFrom", "ListComp", "SetComp", "DictComp", "GeneratorExp", "Slice"):
            f.add("nm:" + t)
    return sorted(f)


def call_shape_product():
    """every callee shape x argument shape x context around any()/all(): a fixed, exhaustive neighbourhood of
    process_Call (about 2300 strings); all of them go through `parse`"""
    out = []
    ctxs = ["a in %s", "a not in %s", "%s", "a == %s", "%s in a", "not %s", "k in %s and a == 1", "x.y in %s"]
    for fn in ("any", "all"):
        callees = ["F"] + CALLEE_TPL + NEAR_FUNCS[:6]
        for ci, cal in enumerate(callees):
            cal = cal.replace("F", fn)
            for ai, args in enumerate(["([1, 2])", "()", "([1], [2])", "(values=[1])", "(*[1])", "(**x)", "([1], x=1)",
                                       "((x, 'k1'))", "(x)"]):
                for xi, ctx in enumerate(ctxs):
                    if (ci + ai + xi) % 3 == 0 or ai == 0:      # all contexts for the one-argument call, a third else
                        out.append(ctx % ((cal if re.fullmatch(r"[\w.]+", cal) else "(" + cal + ")") + args))
    return out


def flat_w(rng, depth, allow_not):
    """object tokens of a constructed (flat) query tree, as nested python lists: for qeq"""
    r = rng.random()
    if depth <= 0 or r < 0.4:
        idx = rng.choice(CAT_NAMES)
        if rng.random() < 0.25:
            return ["range", rng.randrange(2), idx, gen_wval(rng, 1), gen_wval(rng, 1), rng.randrange(2), rng.randrange(2)]
        return ["cmp", rng.choice(CMPS), idx, gen_wval(rng, 2)]
    if allow_not and r < 0.47:
        return ["not", flat_w(rng, depth - 1, allow_not)]
    k = "and" if r < 0.75 else "or"
    kids = []
    for _ in range(rng.choice([1, 2, 2, 3])):
        c = flat_w(rng, depth - 1, allow_not)
        if c[0] == k:
            kids += c[1]
        else:
            kids.append(c)
    return [k, kids]


PYEQ_CLASSES = [[1, True, 1.0, 1 + 0j], [0, False, 0.0, -0.0, 0j], [2, 2.0], [2 ** 53 + 2, 2.0 ** 53 + 2],
                [2 ** 64 + 1, float(2 ** 64)], ["", b""], ["ab", b"ab"], [None, False, 0], [(), []]]


def perturb_val(rng, v):
    """a value equal in Python's sense but of another type, or a nearby unequal one"""
    if v[0] in ("L", "T"):
        r = rng.random()
        if r < 0.3:
            return [("T" if v[0] == "L" else "L")] + v[1:]
        return v
    if v[0].startswith("n:"):
        return rng.choice([v, ["n:" + hx("other")], [ctok(unhx(v[0][2:]))]])
    try:
        c = cparse(v[0])
    except Exception:
        return v
    for cls in PYEQ_CLASSES:
        for m in cls:
            if type(m) is type(c) and m == c and ctok(m) == v[0]:
                return [ctok(rng.choice(cls))]
    if type(c) is int:
        return [ctok(rng.choice([c, float(c), c + 1, -c, bool(c) if c in (0, 1) else c]))]
    if type(c) is float and c == int(c) and abs(c) < 1e300:
        return [ctok(rng.choice([int(c), c, c + 0.5]))]
    return v


def perturb(rng, t):
    t = json.loads(json.dumps(t))
    r = rng.random()
    if t[0] == "cmp":
        if r < 0.4:
            t[3] = perturb_val(rng, t[3])
        elif r < 0.55:
            t[1] = rng.choice(CMPS)
        elif r < 0.7:
            t[2] = rng.choice(CAT_NAMES)
        elif r < 0.8:
            return ["range", 0, t[2], t[3], t[3], 0, 0]
        return t
    if t[0] == "range":
        j = rng.choice([1, 2, 3, 4, 5, 6])
        if j in (1, 5, 6):
            t[j] = 1 - t[j] if r < 0.7 else t[j]
        elif j == 2:
            t[2] = rng.choice(CAT_NAMES)
        else:
            t[j] = perturb_val(rng, t[j])
        return t
    if t[0] == "not":
        return t if r < 0.5 else ["not", perturb(rng, t[1])]
    kids = t[1]
    if r < 0.5 and kids:
        i = rng.randrange(len(kids))
        c = perturb(rng, kids[i])
        if c[0] == t[0]:
            return t
        kids[i] = c
    elif r < 0.6 and len(kids) > 1:
        del kids[rng.randrange(len(kids))]
    elif r < 0.7 and len(kids) > 1:
        rng.shuffle(kids)
    elif r < 0.8:
        t[0] = "or" if t[0] == "and" else "and"
        t[1] = [c for k in kids for c in (k[1] if k[0] == t[0] else [k])]
    elif r < 0.88 and kids:
        kids.append(kids[0])
    return t


def w_tokens(t):
    if t[0] == "cmp":
        return ["cmp", t[1], hx(t[2])] + t[3]
    if t[0] == "range":
        return ["range", t[1], hx(t[2])] + t[3] + t[4] + [t[5], t[6]]
    if t[0] == "not":
        return ["not"] + w_tokens(t[1])
    out = [t[0], len(t[1])]
    for k in t[1]:
        out += w_tokens(k)
    return out


def cfg_lines():
    return [["cfg", "index", hx(n)] for n in CAT_NAMES]


def make_case(cmds):
    return {"session": "cqe", "cfg": cfg_lines(), "cmds": cmds}


CQ_SHARE = 0.06


def gen_cq(rng):
    """ONE CatalogQuery object answers the same expression string(s) before and after what an index name denotes
    changes: catalog[name] = another index (80% of the same kind, other documents), del catalog[name], the name added
    again, a document indexed through the catalog.  Every answer is the model's resolved tree of THAT moment's catalog
    executed on a reference catalog that went through the same changes (a fresh parse, in effect)."""
    s = gen_named_sx(rng, True) if rng.random() < 0.5 else gen_sx(rng, rng.choice([0, 1, 1, 2]), True)
    srcs = [spell(s, random.Random(rng.randrange(1 << 30)))]
    if rng.random() < 0.4:
        srcs.append(spell(gen_named_sx(rng, True), random.Random(rng.randrange(1 << 30))))
    used = [n for n in CAT_NAMES if any(re.search(r"(?<![\w.])" + re.escape(n) + r"(?![\w.(])", x) for x in srcs)]
    def gen_cq_names():
        if rng.random() < 0.35:
            return gen_names(rng, True, drop=0.0, nonames=0.0)
        # every name an int (lst / tup: ints): field comparisons run instead of raising TypeError on str < int
        d = [(n, [ctok(rng.randrange(10))]) for n in ["x", "y", "z", "foo", "bar", "a", "any", "_p", "é"]]
        d.append(("lst", ["L", 2, ctok(rng.randrange(10)), ctok(rng.randrange(10))]))
        d.append(("tup", ["T", 2, ctok(rng.randrange(10)), ctok(rng.randrange(10))]))
        out = [len(d)]
        for n, v in d:
            out += [hx(n)] + v
        return out
    names = gen_cq_names()
    cmds = []

    def ask():
        for x in srcs:
            if x is srcs[0] or rng.random() < 0.7:
                cmds.append(["cq", rng.choice(["q", "c"])] + names + [hx(x)])
    ask()
    present = set(CAT_NAMES)
    variant = 0
    for step in range(rng.randrange(2, 6)):
        n = rng.choice(used) if used and rng.random() < 0.85 else rng.choice(CAT_NAMES)
        r = rng.random()
        if n in present and r < 0.3:
            cmds.append(["cqdel", hx(n)])
            present.discard(n)
        elif r < 0.9 or n not in present:
            variant += 1
            kind = KIND[n] if rng.random() < 0.8 else rng.choice(["field", "keyword", "text"])
            cmds.append(["cqset", hx(n), kind, variant])
            present.add(n)
        else:
            cmds.append(["cqindex", 100 + step, rng.randrange(6)])
        if rng.random() < 0.15:
            names = gen_cq_names()
        ask()
    return make_case(cmds)


def gen(rng, tier, idx):
    if rng.random() < CQ_SHARE:
        return gen_cq(rng)
    typed = rng.random() < 0.45
    s = gen_sx(rng, rng.choice([0, 1, 2, 2, 3]), typed)
    st = sx_tokens(s)
    seed1, seed2 = rng.randrange(1 << 30), rng.randrange(1 << 30)
    src = spell(s, random.Random(seed2))
    cmds = [["toast", seed1] + st, ["tree"] + st, ["rt", seed1] + st, ["parse", hx(src)]]
    if "zz" in src or "a.b" in src or "b.q" in src:      # unknown index: nothing to build by hand
        cmds = [cmds[0], cmds[3]]
    names = gen_names(rng, typed)
    cmds.append(["exec"] + names + [hx(src)])
    if typed:
        cmds.append(["run"] + gen_names(rng, True, drop=0.0, nonames=0.0) + [hx(src)])      # every name bound: And/Or evaluate
        # lazily, so with an unbound name the whole-query outcome depends on the documents (exec covers NameError)
    known = not ("zz" in src or "a.b" in src or "b.q" in src)
    if known and rng.random() < 0.35 and sx_has_name(s):
        cmds += rerun_cmds(rng, src, typed)[:2]
    if rng.random() < 0.6:
        # a retained query object executed again with other names
        t2 = rng.random() < 0.5
        s2 = gen_named_sx(rng, t2)
        cmds += rerun_cmds(rng, spell(s2, random.Random(rng.randrange(1 << 30))), t2)
    for _ in range(rng.choice([2, 3, 4])):
        m = mutate(rng, src)
        if m:
            cmds.append(["parse", hx(m)])
            if rng.random() < 0.25:
                cmds.append(["exec"] + names + [hx(m)])
    # near misses on the AST: a neighbouring construct of Python's expression grammar in place of one node of the
    # spelling (or of a fresh small type-correct spelling, where nothing else can be the reason for a rejection)
    for _ in range(rng.choice([2, 3, 3, 4])):
        base_src = src if rng.random() < 0.6 else spell(gen_sx(rng, rng.choice([0, 0, 1]), True), rng)
        if rng.random() < 0.25:
            base_src = spell(("cmp", rng.choice(["any", "notany", "all", "notall"]), [rng.choice(["a", "b", "k"])],
                              gen_typed_sv(rng, "keyword", True)), rng)
        m = near_miss(rng, base_src)
        if m:
            cmds.append(["parse", hx(m)])
            if rng.random() < 0.25:
                cmds.append(["exec"] + names + [hx(m)])
    for _ in range(2):
        a = flat_w(rng, rng.choice([0, 1, 2]), rng.random() < 0.25)
        b = a if rng.random() < 0.15 else perturb(rng, a)
        if rng.random() < 0.3:
            b = perturb(rng, b)
        cmds.append(["qeq"] + w_tokens(a) + w_tokens(b))
    cmds.append(["subst"] + gen_names(rng, False, drop=0.3) + gen_wval(rng, 3))
    return make_case(cmds)


# ---------------------------------------------------------------------------- classification, witnesses
def classify(case, i, impl, model, spec):
    """the model mirrors D11, the specification answer does not: the implementation may agree with the model
    (known finding reproduces) or with the specification (it was repaired); anything else is unlisted"""
    c = case["cmds"][i]
    if c[0] == "parse" and spec == "reject" and model.startswith("ok"):
        if impl == model or impl.startswith("err "):
            return "D11"
    if c[0] in ("exec", "run", "rerun", "cq") and spec == "reject" and not model.startswith("err "):
        return "D11"        # the parsed object is not a query tree over values; `parse` on the same text compares it
    return None


D11_SRC = ["a", "1", "a == 1,", "not 1", "a.foo", "[1, 2]", "any([1])", "not 1 and a == 1", "a == (b == 1)",
           "a in any(b == 1)", "a == any([1])", "a == (not b)", "a == [b == 1]"]


def witnesses():
    out = [("D11", make_case([["parse", hx(s)]])) for s in D11_SRC]
    nm = [2, hx("x"), "i:1", hx("y"), "i:2"]
    # regression (fix D21): names nested in range bounds are substituted; on a real index the query now runs
    out.append(("regression-D21", make_case([["exec"] + nm + [hx("(x, 1) <= a <= (y, 2)")],
                                             ["exec"] + nm + [hx("[x] < b < 5")],
                                             ["exec", 1, hx("x"), "i:1", hx("(x, [y]) <= a <= 2")],
                                             ["run"] + nm + [hx("(x, 1) <= a <= (y, 2)")]])))
    two = [2, 2, hx("x"), "i:1", hx("y"), "i:2", 2, hx("x"), "i:7", hx("y"), "i:9"]
    for src in ["a in any([x, y])", "a == x or a == y", "a != x and a != y", "k == x and k == y",
                "a in any((x, [y, 1]))", "not (a == x or a == y)", "(x, [y]) <= a <= (y, 2)", "a > x and a < y"]:
        out.append(("regression-retained-object", make_case(
            [["rerun", "spy", 0] + two + [hx(src)], ["rerun", "spy", 1] + two + [hx(src)],
             ["rerun", "real", 0] + two + [hx(src)], ["rerun", "real", 1] + two + [hx(src)]])))
    return out


def d11_kind(impl):
    t = impl.split(" ")
    if t[1] in ("cmp", "range", "and", "or", "not"):
        if "<function>" in t:
            return "d11:function-in-value-position"
        return "d11:improper-operand-inside-query"
    return "d11:top-level-" + ("name" if t[1].startswith("N:") else "function" if t[1] == "<function>" else "value")


def nontrivial(case, outs):
    ok = any(c[0] == "parse" and (o.startswith("ok and") or o.startswith("ok or")) for c, o in zip(case["cmds"], outs))
    bad = any(c[0] == "parse" and o.startswith("err") for c, o in zip(case["cmds"], outs))
    if case["cmds"] and case["cmds"][0][0] == "cq":
        return len({o for c, o in zip(case["cmds"], outs) if c[0] == "cq"}) >= 2
    return ok and bad


def features(case, outs):
    f = []
    cmds = case["cmds"]
    first_parse = True
    phase = "initial"
    prev_answer = {}
    if cmds and cmds[0][0] == "cq":
        f.append("stream:catalogquery")
    for c, o in zip(cmds, outs):
        op = c[0]
        npos = {"exec": 1, "run": 1, "subst": 1, "cq": 2, "rerun": 4}.get(op)
        if npos is not None and str(c[npos]) != "nonames":
            f.append("names-mapping:" + names_kind(c, 0))
        if op in ("cqset", "cqdel", "cqindex"):
            phase = {"cqdel": "after-del", "cqindex": "after-index_doc"}.get(op) or (
                "after-replace-same-kind" if c[2] == KIND[unhx(str(c[1]))] else "after-replace-other-kind")
            f.append("cq-step:" + phase)
        elif op == "cq":
            f.append("cq:%s:%s" % (phase, o if o.startswith("err") else "empty" if o == "{}" else "ids"))
            if c[-1] in prev_answer and phase != "initial":
                f.append("cq:%s:%s" % (phase, "answer-changed" if prev_answer[c[-1]] != o else "answer-same"))
            prev_answer[c[-1]] = o
        if op == "parse":
            kind = "spelled" if first_parse else "mutated"
            first_parse = False
            if o.startswith("ok"):
                head = o.split(" ")[1]
                f.append("parse-%s:ok-%s" % (kind, head if head in ("cmp", "range", "and", "or", "not") else "nonquery"))
                if kind == "mutated" and (head not in ("cmp", "range", "and", "or", "not") or "<function>" in o
                                          or " N:" in o):
                    f.append(d11_kind(o))
                toks = o.split(" ")
                for t in toks:
                    if t in CMPS:
                        f.append("node:" + t)
                    elif t[:2] in ("i:", "f:", "c:", "s:", "b:", "n:", "N:") and kind == "spelled":
                        f.append("literal:" + t[:1] + ("-neg" if t[:3] in ("i:-", "f:-") else ""))
                    elif t in ("none", "true", "false", "ell", "L", "T") and kind == "spelled":
                        f.append("literal:" + t)
            else:
                f.append("parse-%s:%s" % (kind, o))
            if kind == "mutated":
                for k in nm_features(unhx(str(c[1]))):
                    f.append(k)
                    f.append(k + (":accepted" if o.startswith("ok") else ":rejected"))
        elif op == "rt":
            f.append("rt:" + o.split(" differ")[0][:20])
        elif op == "exec":
            f.append("exec:" + ("notquery" if o == "notquery" else "err-parse" if o.startswith("err") and " ; " not in o
                                and not o.startswith("err NameError") else
                                "nameerror" if "err NameError" in o else "typeerror-nonames" if "err TypeError" in o
                                else "all-bound"))
        elif op == "run":
            f.append("run:" + (o if o.startswith("err") else "empty" if o == "{}" else "ids"))
        elif op == "rerun":
            tag = "rerun-%s-opt%s:" % (c[1], c[2])
            if " || " not in o:
                f.append(tag + (o if len(o) < 24 else o[:24]))
            else:
                body, tail = o.split(" || ", 1)
                rounds = body.split(" | ")
                f.append(tag + ("rounds-differ" if len(set(rounds)) > 1 else "rounds-equal"))
                f.append(tag + tail.split(" ")[0])
                if c[1] == "spy" and any((" L " in r or " T " in r) for r in rounds):
                    f.append(tag + "list-or-tuple-value")
                if "err NameError" in body:
                    f.append(tag + "nameerror-in-some-round")
        elif op == "qeq":
            f.append("qeq:" + o)
        elif op == "subst":
            f.append("subst:" + (o if o.startswith("err") else "ok"))
        elif op == "tree":
            f.append("tree:" + ("none" if o == "none" else "ok"))
    s = None
    try:
        s = sx_of([str(t) for t in cmds[1][1:]]) if cmds and cmds[1][0] == "tree" else None
    except Exception:
        pass
    if s is not None:
        def walk(x, parent):
            f.append("sx:" + x[0] + ("-" + x[1] if x[0] in ("kw", "amp") else ""))
            if x[0] == "kw":
                for c in x[2]:
                    if c[0] in ("kw", "amp") and c[1] == x[1]:
                        f.append("flatten:%s-under-kw" % c[0])
                    walk(c, x)
            elif x[0] == "amp":
                for c in (x[2], x[3]):
                    if c[0] in ("kw", "amp") and c[1] == x[1]:
                        f.append("flatten:%s-under-amp" % c[0])
                    walk(c, x)
            elif x[0] == "not":
                walk(x[1], x)
        walk(s, None)
    return f


def neighbourhood(rng, case):
    """variants of a diverging parse command: looks for an input where the implementation's answer also
    contradicts the specification (e.g. accepts text outside the language), not only the model's exception class"""
    cmds = [c for c in case["cmds"] if c[0] == "parse"]
    if not cmds:
        return case
    src = unhx(str(rng.choice(cmds)[1]))
    r = rng.random()
    good = lambda: spell(gen_sx(rng, rng.choice([0, 1]), True), rng)
    if r < 0.3:
        out = mutate(rng, src)
    elif r < 0.6:
        # keep the shape, use names the catalog knows and valid operands
        toks = tokens_of(src)
        for i, t in enumerate(toks):
            if token_class(t) == "name" and t not in ("any", "all") and rng.random() < 0.8:
                toks[i] = rng.choice(["a", "b", "k", "t"])
        out = " ".join(toks)
    elif r < 0.8:
        parts = [p for p in src.replace("\n", ";").split(";")]
        out = "; ".join(good() if rng.random() < 0.7 else p for p in parts)
    else:
        out = rng.choice(WRAPS).replace("%s", good())
    return make_case([["parse", hx(out)]]) if out else case


NEIGHBOURHOOD_TRIES = 400


def shrink_more(case, fails):
    """keep one command; for parse commands shrink the source string"""
    cmds = case["cmds"]
    if len(cmds) != 1 or cmds[0][0] != "parse":
        return case
    src = unhx(str(cmds[0][1]))
    best = case
    changed = True
    while changed and src:
        changed = False
        for size in (max(1, len(src) // 2), max(1, len(src) // 4), 1):
            i = 0
            while i < len(src):
                cand = src[:i] + src[i + size:]
                c2 = make_case([["parse", hx(cand)]]) if cand else None
                if c2 is not None and cand != src and fails(c2):
                    src, best, changed = cand, c2, True
                else:
                    i += size
    return best


# ---------------------------------------------------------------------------- exhaustive small strings
ALPHABET = ["a", "b", "==", "<", "1", "x", "and", "or", "not", "in", "any", "(", ")", "[", "]", ",", "&", "|", "-", "."]


def _chunk(args):
    from lib import core
    srcs = args
    case = make_case([["parse", hx(s)] for s in srcs])
    iouts, outs = core.evaluate(sys.modules[__name__], core._HYP, case)
    bad = core.bad_outcomes(outs)
    feats = {}
    for o in iouts:
        k = "exh:" + (o if o.startswith("err") else "ok-" + ("query" if o.split(" ")[1] in ("cmp", "range", "and", "or", "not")
                                                              else "nonquery"))
        feats[k] = feats.get(k, 0) + 1
    return [srcs[o.idx] for o in bad][:3], len(srcs), feats


def doc_examples(hyp):
    """the spellings the class docstrings document (`CQE equivalent: ...`), with `index` renamed to `a`"""
    import re
    from hypatia import query as Q
    out = []
    for cname in list(CLASSNAME.values()) + ["InRange", "NotInRange"]:
        m = re.search(r"CQE equivalent:\s*(.*(?:\n\s{10,}\S.*)*)", getattr(Q, cname).__doc__ or "")
        if not m:
            continue
        for line in m.group(1).split("\n"):
            e = line.strip()
            repaired = e.count("'") % 2 == 1          # the Le docstring lacks the closing quote
            if repaired:
                e += "'"
            out.append((cname, re.sub(r"\bindex\b", "a", e), repaired))
    return out


def extra(hyp, tier, seed):
    from concurrent.futures import ProcessPoolExecutor
    from itertools import product
    import multiprocessing
    from lib import core
    docfails, docviol, docfeats, ndoc = [], [], {}, 0
    im = impl_for(hyp)
    for cname, e, repaired in doc_examples(hyp):
        ndoc += 1
        case = make_case([["parse", hx(e)]])
        iouts, outs = core.evaluate(sys.modules[__name__], hyp, case)
        if core.bad_outcomes(outs):
            docfails.append(case)
        try:
            got = type(im.Q.parse_query(e, im.cat)).__name__          # as documented: default optimisation
        except Exception as ex:
            got = exc_name(ex)
        k = "doc-example:%s:%s%s" % (cname, "ok" if got == cname else "GOT-" + got, "-quote-repaired" if repaired else "")
        docfeats[k] = docfeats.get(k, 0) + 1
        if got != cname:
            docviol.append(({"property": ID, "verdict": "failing-input", "origin": "documented spelling",
                             "case": case, "commands": core.case_lines(case),
                             "explanation": "the docstring of %s documents the spelling %r, which parses to %s"
                                            % (cname, e, got)}, ""))
    # the fixed neighbourhood of process_Call
    shapes = call_shape_product()
    for i in range(0, len(shapes), 60):
        case = make_case([["parse", hx(x)] for x in shapes[i:i + 60]])
        iouts, outs = core.evaluate(sys.modules[__name__], hyp, case)
        ndoc += len(case["cmds"])
        for o in core.bad_outcomes(outs):
            if len(docfails) < 3:
                docfails.append(make_case([case["cmds"][o.idx]]))
        for c, o in zip(case["cmds"], iouts):
            k = "call-shape:" + ("accepted" if o.startswith("ok") else o)
            docfeats[k] = docfeats.get(k, 0) + 1
    maxlen = 4 if tier == "quick" else 5
    alpha = ALPHABET[:13] + ["&", "-"] if tier == "quick" else ALPHABET[:18]
    srcs = []
    for n in range(1, maxlen + 1):
        for combo in product(alpha, repeat=n):
            srcs.append(" ".join(combo))
    chunks = [srcs[i:i + 500] for i in range(0, len(srcs), 500)]
    ctx = multiprocessing.get_context("fork")
    with ProcessPoolExecutor(max_workers=core.NCPU, mp_context=ctx) as ex:
        res = list(ex.map(_chunk, chunks))
    fails, feats, n = list(docfails), dict(docfeats), ndoc
    feats["exhaustive-token-strings<=%d-over-%d-tokens" % (maxlen, len(alpha))] = len(srcs)
    for bad, k, f in res:
        n += k
        for key, v in f.items():
            feats[key] = feats.get(key, 0) + v
        for s in bad:
            if len(fails) < 3:
                fails.append(make_case([["parse", hx(s)]]))
    return {"evaluations": n, "features": feats, "failures": fails, "violations": docviol}


RULE = ("each case = one generated spelling s (12 comparators, ranges, and/or/not, &/|, nesting to depth 3, values: "
        "int/float/str/bytes/bool/None/complex/Ellipsis, -x/+x, dotted names, nested lists/tuples; 45% of the cases "
        "type-appropriate for a real catalog) printed with random parenthesisation/white space/literal styles; "
        "commands: toast (real ast.parse vs Lean toAst), tree (hand-built vs Sx.tree), rt (parse_query vs hand-built "
        "by the harness' renderer and by hypatia's ==), parse, exec with random names on spy indexes, run on a real "
        "catalog (names mappings of 12 types incl. defaultdict / Counter / __missing__ / ChainMap / proxy / abc Mapping, "
        "unchanged afterwards), 6% of the cases a CatalogQuery stream (ONE CatalogQuery object answers the same 1-2 "
        "strings before and after catalog[name] = another index / del catalog[name] / re-adding / index_doc), "
        "rerun (ONE parsed object - default optimisation and optimize_query=False - executed 2-3 times with "
        "different names on spy indexes and the real catalog; 60% of the cases add a spelling with >= 2 distinct Names in "
        "one comparator: a == x or a == y, a != x and a != y, any/all of lists/tuples/nested lists, ranges), "
        "2-4 token-level mutations (delete/duplicate/swap/replace/insert) of the string through the real "
        "ast.parse and both walks, 2-4 near misses built on the AST (one or two nodes of the spelling, or of a fresh "
        "small type-correct spelling, replaced by a neighbouring construct of Python's expression grammar and "
        "printed by ast.unparse - the text stays syntactically valid, the walk has to reject it: callee shapes "
        "around any/all (x.any, builtins.all, x.y.any, any.x, any(), any[0], (lambda: any), ...), keyword / ** / "
        "starred / 0 / 2 arguments, near-miss function names, index names extended to attribute chains, subscripts, "
        "calls, operators (is / is not, chains of 3+, ranges with > >= == in), BoolOp -> arithmetic or bit BinOp / "
        "IfExp / Compare, other unary operators, values and query nodes replaced by or wrapped in Set, Dict, "
        "comprehensions, lambda, IfExp, walrus, f-string, subscript, slice, starred, await, yield, arithmetic; "
        "measured quick seed 0, of 48 166 mutated parse commands: dotted callee ending in any/all 561 (151 of depth "
        ">= 2, 258 on a non-name; all rejected), keyword 208, ** 214, starred argument 384, any/all with 0 / 2 "
        "arguments 183 / 216, other callee name 1181, Subscript 1487, Lambda 645, IfExp 1283, comprehensions 756, "
        "Invert 687, arithmetic/shift/xor BinOp 3051, is/is not 2006, chains of 3+ 441, range with other operators "
        "3003, chained-attribute operand 1043), 2 qeq pairs (tree vs perturbed copy incl. Python-equal constants of other types), "
        "1 subst; extra: the 16 spellings documented in the class docstrings parse to the documenting class; the "
        "call-shape product (40 callee shapes x 9 argument shapes x 8 contexts around any/all, 2346 strings); every "
        "string of <= 4 (thorough 5) tokens over a 15 (18) token alphabet; non-trivial = the case has an accepted "
        "And/Or tree and a rejected string")
LEVEL_TEXT = ("Lean 4 theorems for all ASTs / all spellings / all trees / all names mappings: the walk of the AST of "
              "every spelling returns exactly the hand-built tree; conversely every AST whose walk returns a query "
              "tree over proper values is the AST of a spelling with that tree (nothing outside the language maps "
              "to a query, up to known finding D11 which is the explicit hypothesis); substitution of names through "
              "nested lists/tuples with NameError; the four __eq__ methods compute structural identity")
LEVEL_NOTE = ("trusted: Lean kernel, CPython's own ast.parse (the model starts from its output; the AST of a spelling "
              "is re-validated against the real parser on every run), the hand model's faithfulness as sampled, the "
              "harness")
TECHNIQUE = ("Lean 4: mutual structural recursion over a Python-AST datatype, recogniser/inverse for the converse + "
             "differential correspondence (generated spellings, token mutations, exhaustive short strings)")
