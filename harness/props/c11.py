"""C11  A ResultSet's length, iteration, first/one/all and chained sorts agree.

A case is a session over 1-3 real FieldIndexes and numbered ResultSet objects: result sets are created
from lists / tuples / sets / BTrees sets / generators / list iterators (with or without a resolver, now
and then with a wrong `numids`) or by executing a query; then random interleavings of first / one / len /
iteration / all / partial iteration (islice), 1-3 chained sorts with random flags, and intersect with a
collection, a generator or another (possibly sorted, i.e. generator-backed) result set.  The same lines go
to the compiled Lean model (session `resultset`).

Compared per command: the implementation's answer I, the model's M (exact: also tie order, the ids of
Unsortable and which call raises), and the specification's S, computed from the *sequence the result set
denotes* where the property determines the answer (first = head, one by length, len = length when
consistent, all/iter = the sequence through the resolver, intersect = filter, sort = C07's relation on
the denoted sequence incl. `stable=1` for the second and later sorts of a chain).

`sort src dst …` performs `src.sort(…)` twice on the implementation: the first result is drained to
show its content, the second one is stored in `dst` untouched (a one-shot result cannot be looked at
without consuming it); `src.ids` has been materialised by the first call, so both calls see the same ids.

Mutation sanity check (GUIDE step 7): scratch copies /var/tmp/mut_rs_N, one semantic mutation of
hypatia/util/__init__.py each, `VERIF_REPO=/var/tmp/mut_rs_N check.py C11` (quick, seed 0), copies deleted
afterwards; all six gave VIOLATION with a shrunk replay - see MUTATIONS below.
"""
import itertools

from lib.core import exc_name, idset
from props.c07 import admissible

ID = "C11"
AUDIT_IMPORTS = ["HypatiaProofs.Properties.C11", "HypatiaProofs.Properties.C11Obj"]
THEOREMS = ["Hyp.RSet." + t for t in (
    "c11_first", "c11_peeks_do_not_consume", "c11_first_idempotent", "c11_one", "c11_len_iter_all",
    "c11_resolver", "c11_no_resolver", "c11_query_result", "c11_iteration_consumes_only_streams",
    "c11_sort_len", "c11_chained_sort", "c11_chained_sort_keeps_first_order", "c11_sort_marks_stable",
    "c11_default_sort_raises", "c11_intersect", "c11_intersect_resultset")] + \
    ["Hyp.RSet.Obj." + t for t in (      # kept all()/iter() objects (Properties/C11Obj.lean)
        "c11_kept_object_misses_the_id_first_found", "c11_top_object_yields_the_stream", "c11_d25_witness",
        "c11_consume_top", "c11_consume_lower")]
CASES = {"quick": 8000, "thorough": 200000}
BUDGET_S = {"quick": 40, "thorough": 700}
BATCH = 40
RULE = ("each case: 1-3 FieldIndexes over docids 0..11 (1-5 distinct values, so ties are the rule; 70% of the "
        "indexes have a value for every id, the others leave ids unknown or value-less), 1-3 initial result "
        "sets (list/tuple/set/frozenset/BTrees Set/generator/list iterator; resolver none or one of two; "
        "5% wrong numids; or index.<cmp>(c).execute(resolver=..)), then 10-30 operations: first/one (resolve "
        "True/False/default), len, iter, all, islice(iter), sort (60% on the latest sort result = chains of "
        "1-3 sorts; reverse, limit in {None,1,2,n-1,n,n+1,100,0}, sort_type default or any of the six, "
        "raise_unsortable 70% True), intersect with another result set (also generator-backed sorted ones) "
        "or a collection/generator. Resolvers: the same two functions as lambda / def / bound method / "
        "functools.partial / callable instances whose truth value is False (__bool__, __len__ == 0) / a memoising "
        "dict subclass with __call__ (60% of the resolver-carrying result sets; quick seed 0: 1375-1459 result sets "
        "of each kind, 2944 first() and 74 one() answers resolved by a falsy callable). Mode big (1 case in 100, "
        "measured 80 of 8001): 300/600/1023/1024/1025/1100/1500/2048/3000 documents, first key a permutation / "
        "reversed docid order / random, second key with 2-5 distinct values (ties), some ids value-less or unknown, "
        "the result set a query result or a list/tuple/IF set/generator of (nearly) all ids in random order, then "
        "chains of 2-3 sorts with limits 1..25, size/k +-1 for k in 4..64, size/2, size+-1 or none, both directions "
        "(quick seed 0: 22 second sorts over >= 1024 ids with limit <= size/16, 13 with a larger limit, 21 over "
        "300-1023 ids), and direct sorts of shuffled collections with sort_type stable/timsort. "
        "Resolvers raising KeyError for ids d % m == k: 25% of the resolver-carrying result sets (quick seed 0: "
        "2825 result sets; first() raised 1180 times, 1160 later first() on such a result, 2130 loops ended by "
        "KeyError). 8% of the operations: keep all()/iter() (hall/hiter), call other methods, loop afterwards "
        "(hdrain/htake) - quick seed 0: 16094 kept objects looped over, 4399 of a one-shot ids (resolver 1753), "
        "between taking and looping: first/one/len only 38%, a sort 14%, consuming calls 18%, nothing 19%, an earlier loop over the same object 12%; 4%: 2-3 "
        "sorted results of one index read alternately. "
        "non-trivial = a chained sort with a tie was observed and some first() "
        "was called on a generator-backed result set before it was iterated")
LEVEL_TEXT = ("Lean 4 theorems for both id representations (collection / one-shot stream) and every resolver: "
              "first = head and leaves the receiver unchanged, any interleaving of first/one/len consumes "
              "nothing, one by length, all/iteration = the sequence through the resolver, len = number of ids "
              "= min(count, limit) after a sort of all-sortable ids (via C07), a second sort is the stable sort "
              "of the first order by the second key, intersect = filter in order (argument result set still "
              "iterable), default-flag sort with an unsortable id raises Unsortable in the call or at the end of "
              "iteration; object level (the iterator objects behind a one-shot ids): an all()/iter() object taken before a "
              "successful first() yields afterwards the sequence without its first id, the object a _resolve_all "
              "generator binds when its loop starts yields all of it (finding D25 with witness); tied to "
              "hypatia.util.ResultSet over real FieldIndexes by a differential run incl. resolvers that raise and "
              "kept all()/iter() objects")
LEVEL_NOTE = ("trusted: Lean kernel (propext, Quot.sound, Classical.choice); C07's trusted base for the sort "
              "underneath; generators/itertools.chain/islice as modelled (a generator that raised is closed); "
              "TextIndex.sort (list result, relevance) is covered by C20, only FieldIndex sorts here; sampled "
              "correspondence; the harness")
TECHNIQUE = "Lean 4 proof by case analysis on the id representation + C07 + differential correspondence"
TRUSTED = ["props/c07.py `admissible` (tie order free unless the sort is stable) for the content of a sort"]
MUTATIONS = """
  1 first(): re-chaining dropped (`self.ids = itertools.chain(..)` removed) - the element is lost      caught
  2 sort(): result not marked STABLE (`sort_type=STABLE` -> `sort_type=None`): a chained sort may use a
    non-stable algorithm - needs a tie in the second key and a first order that differs from docid order   caught
  3 sort(): `numids = min(numids, limit)` -> `numids = limit` (len too large when limit > count)        caught
  4 one(): `self.numids > 1` -> `self.numids > 2` (two results reported as NoResults)                  caught
  5 intersect(): the materialisation added by fix 539284e removed again (old D17: a generator-backed
    argument is consumed by the membership tests)                                                       caught
  6 all(): `resolver is None or not resolve` -> `resolver is None or resolve` (resolve flag inverted)    caught
Size- and object-kind-dependent changes (builder wt_strong4; scratch copies /var/tmp/mut_s4_*, deleted afterwards):
  seeded C11_E  FieldIndex.timsort_* hand over to n-best for >= 1024 ids and limit <= len/16 (chained sort loses
                the first order among ties)                                       MISSED before mode big, now caught
  seeded C11_F  first(): `if resolve and self.resolver` (a falsy callable resolver is skipped)
                                                          MISSED before the resolver kinds, now caught
  M11a sort(): the result is marked STABLE only when numids < 1000 (a third party's chained sort of a big result
       may pick n-best / forward scan)                                                                     caught
  M11b all(): `resolver is None` -> `not resolver`                                                         caught
Exceptions from the resolver, kept all()/iter() objects, sorted results in flight (builder wt_strong7):
  resolvers that RAISE KeyError for every id d with d % m == k (25% of the resolver-carrying result sets); the
  session goes on after the exception (first/one: nothing consumed; all/iter/take: the loop of `_resolve_all` ends
  at that id, which a one-shot `ids` has lost).  `hall s h r` / `hiter s h` only TAKE `docs = rs.all(resolve)` /
  `it = iter(rs)`, other methods are called (first/one/len 58%, sort, take, iter, intersect, a second kept object),
  then `hdrain h` / `htake h k` run the loop.  The driver models the iterator OBJECTS (HypatiaModel/ResultSetObj.lean:
  the tower of chain objects first() stacks on a one-shot ids, which object a caller holds, `_resolve_all`
  binding `self.ids` only when its body starts); the specification answers - the whole sequence - while nothing
  but first/one/len happened since the object was taken.  NOT A FINDING (stale handle, spec undetermined; DESIGN 12.2): without a resolver (or
  resolve=False) the kept object IS the one-shot iterator, a later first() takes its first id away from it
  (`ResultSet((d for d in [3,1,2]),3,None)`: `docs = rs.all(); rs.first(); list(docs) == [1, 2]`); classified only
  where the object-level model agrees with the code.  Blocks of 2-3 sorted results of one index kept unread and
  then read alternately (4% of the operations).
  seeded C11_G  first() calls the resolver before re-chaining the pulled id                  MISSED before, now caught
  seeded C11_H  all() returns a generator expression (binds iter(self.ids) at the call)     MISSED before, now caught
  seeded C18_G  scan_forward keeps one working set per index                                 caught (also before)
  M11m  __iter__ with a resolver returns map(resolver, self.ids)                                         caught
"""

POOL = list(range(12))
STYPES = ["none", "stable", "optimal", "fwscan", "nbest", "timsort"]
COLL_KINDS = ["list", "list", "tuple", "pyset", "frozenset", "ifset"]
STREAM_KINDS = ["gen", "iter"]
RESOLVERS = ["none", "none", "plus", "neg"]
# the same two resolver FUNCTIONS as different kinds of Python callables (token `<function>:<kind>`; the model is
# told the function only): a def, a bound method, a functools.partial, a callable instance whose truth value is
# False (`__bool__` / `__len__` == 0), and a memoising dict subclass with `__call__` (falsy until it has
# resolved something).  `resolver is None` is the only legal "no resolver" test.
RESOLVER_KINDS = ["fn", "method", "partial", "falsy", "nolen", "memo"]


def pick_resolver(rng, failing=0.25):
    r = rng.choice(RESOLVERS)
    if r != "none" and rng.random() < failing:
        # a resolver that RAISES KeyError for every id d with d % m == k (stale docids missing from the object map)
        m = rng.choice([2, 3, 3, 4])
        r += "/%d/%d" % (m, rng.randrange(m))
    if r != "none" and rng.random() < 0.6:
        return r + ":" + rng.choice(RESOLVER_KINDS)
    return r
CMPS = ["ge", "le", "gt", "lt", "eq"]


class Doc(object):
    pass


class Obj(object):
    def __init__(self, n):
        self.n = n


def iteration_order(kind, ids):
    if kind == "pyset":
        return list(set(ids))
    if kind == "frozenset":
        return list(frozenset(ids))
    if kind == "ifset":
        return sorted(set(ids))
    return list(ids)


def model_cmd(c):
    if c[0] == "new":
        return list(c[:4]) + [str(c[4]).split(":")[0]] + iteration_order(c[2], c[5:])
    if c[0] == "query":
        return list(c[:3]) + [str(c[3]).split(":")[0]] + list(c[4:])
    if c[0] == "intersect" and c[3] != "rs":
        return list(c[:4]) + iteration_order(c[3], c[4:])
    return c


# ----------------------------------------------------------------------------
# generator
# ----------------------------------------------------------------------------
def gen_index(rng, i):
    cmds = []
    nv = rng.choice([1, 2, 2, 3, 5])
    full = rng.random() < 0.7
    ids = list(POOL)
    rng.shuffle(ids)
    for d in ids:
        r = rng.random()
        if full or r < 0.7:
            cmds.append(["ix", i, "index", d, rng.randrange(nv)])
        elif r < 0.8:
            cmds.append(["ix", i, "index", d, "none"])
    for _ in range(rng.randrange(0, 4)):
        d = rng.choice(POOL)
        if full:
            cmds.append(["ix", i, "index", d, rng.randrange(nv)])
        else:
            cmds.append(rng.choice([["ix", i, "unindex", d], ["ix", i, "index", d, "none"],
                                    ["ix", i, "index", d, rng.randrange(nv)]]))
    if rng.random() < 0.03:
        cmds.append(["ix", i, "reset"])
    return cmds


def gen_new(rng, slot):
    kind = rng.choice(COLL_KINDS + STREAM_KINDS + STREAM_KINDS)
    k = rng.choice([0, 1, 2, 3, 5, 8, 8, 10, 12, 12])
    ids = rng.sample(POOL + [20, 21], min(k, len(POOL) + 2))
    num = "auto" if rng.random() < 0.95 else rng.choice([0, 1, 2, len(ids) + 1])
    return ["new", slot, kind, num, pick_resolver(rng)] + ids


HANDLE_P = 0.08       # per operation: a block "keep all()/iter(), call other methods, loop over it afterwards"
INFLIGHT_P = 0.04     # per operation: a block of 2-3 sorted results read alternately
BIG_EVERY = 100      # one case in BIG_EVERY is a large chained sort (see gen_big)
BIG_SIZES = [300, 600, 1023, 1024, 1025, 1100, 1500, 1500, 2048, 3000]


def gen_big(rng):
    """Large result sets (300-3000 ids; sizes around 1024 and the usual size/limit breakpoints of an index's sort
    heuristics): a first sort by a key whose order has nothing to do with docid order, then a second (and now and
    then a third) sort by a key with 2-5 distinct values under a limit anywhere between 1 and the size - the second
    sort must keep the first order among equal keys whatever algorithm the index would like to use for that
    size/limit ratio.  Also direct sorts of shuffled collections with an explicit stable / timsort sort_type."""
    n = rng.choice(BIG_SIZES)
    cmds = []
    # index 0: the first key (n distinct values in random order / reversed docid order / a few duplicates)
    style = rng.choice(["perm", "reversed", "random"])
    perm = list(range(n))
    rng.shuffle(perm)
    nv = rng.choice([2, 3, 3, 5])
    holes = set(rng.sample(range(n), rng.choice([0, 0, 0, 1, 3]))) if rng.random() < 0.3 else set()
    for d in range(n):
        v0 = perm[d] if style == "perm" else n - d if style == "reversed" else rng.randrange(n)
        cmds.append(["ix", 0, "index", d, v0])
        if d not in holes:
            cmds.append(["ix", 1, "index", d, rng.randrange(nv)])
        elif rng.random() < 0.5:
            cmds.append(["ix", 1, "index", d, "none"])      # known without a value; else: unknown to index 1
    # the result set: all ids by a query, or a collection of (nearly) all ids in random order
    r = rng.random()
    if r < 0.4:
        cmds.append(["query", 0, 0, pick_resolver(rng), "ge", 0])
        m = n
    else:
        m = n if r < 0.7 else rng.randrange(max(1, n - 100), n + 1)
        ids = rng.sample(range(n), m)
        cmds.append(["new", 0, rng.choice(["list", "tuple", "ifset", "gen"]), "auto", pick_resolver(rng)] + ids)
    slot = 0
    nslot = 1

    def limit():
        q = rng.random()
        if q < 0.1:
            return "none"
        if q < 0.45:
            return rng.choice([1, 2, 3, 7, 10, 25])
        if q < 0.8:
            k = rng.choice([4, 8, 16, 16, 32, 64])
            return max(1, m // k + rng.choice([-1, 0, 0, 1]))
        return max(1, rng.choice([m // 2, m - 1, m, m + 1]))

    chain = [(0, rng.randrange(2), "none" if rng.random() < 0.8 else limit(), "none")]
    for _ in range(rng.choice([1, 1, 1, 2])):
        chain.append((rng.choice([1, 1, 1, 0]), rng.randrange(2), limit(),
                      "none" if rng.random() < 0.8 else rng.choice(["stable", "timsort"])))
    if rng.random() < 0.2:
        # no first sort: a shuffled collection sorted with an explicitly stable sort type
        chain = [(1, rng.randrange(2), limit(), rng.choice(["stable", "timsort"]))]
    for (i, rev, lim, st) in chain:
        dst = nslot
        nslot += 1
        cmds.append(["new", dst, "list", "auto", "none"])
        cmds.append(["sort", slot, dst, i, rev, lim, st, 1 if rng.random() < 0.8 else 0])
        if rng.random() < 0.5:
            cmds.append(["first", dst, rng.choice([0, 1])])
        slot = dst
    cmds.append(["len", slot])
    cmds.append(["first", slot, 1])
    cmds.append(["iter", slot])
    return {"session": "resultset", "cfg": [], "cmds": cmds}


def gen(rng, tier, idx):
    if idx % 1000003 % BIG_EVERY == 7:
        return gen_big(rng)
    nidx = rng.choice([1, 2, 2, 3])
    cmds = []
    for i in range(nidx):
        cmds += gen_index(rng, i)
    slots = []
    size = {}            # rough size of what a slot holds, to aim sorts at non-trivial sequences
    nslot = 0

    def fresh():
        nonlocal nslot
        nslot += 1
        return nslot - 1

    def pick(big):
        cand = [x for x in slots if size.get(x, 0) >= 3]
        return rng.choice(cand) if (big and cand) else rng.choice(slots)

    for _ in range(rng.choice([1, 2, 3])):
        s = fresh()
        if rng.random() < 0.25:
            cmds.append(["query", s, rng.randrange(nidx), pick_resolver(rng), rng.choice(CMPS), rng.randrange(3)])
            size[s] = 5
        else:
            cmds.append(gen_new(rng, s))
            size[s] = len(cmds[-1]) - 5
        slots.append(s)
    last_sorted = None
    nhandle = [0]

    def new_sort(src, i=None, st=None, rev=None, lim=None):
        dst = fresh()
        cmds.append(["new", dst, "list", "auto", "none"])      # dst exists even if the sort raises
        if lim is None:
            lim = rng.choice(["none"] * 7 + [1, 2, 3, 5, 11, 12, 13, 100, 0])
        if st is None:
            st = "none" if rng.random() < 0.6 else rng.choice(STYPES)
        cmds.append(["sort", src, dst, rng.randrange(nidx) if i is None else i,
                     rng.randrange(2) if rev is None else rev, lim, st, 1 if rng.random() < 0.7 else 0])
        slots.append(dst)
        size[dst] = size.get(src, 0) if lim in ("none", 0) else min(size.get(src, 0), lim)
        return dst

    def handle_block(s):
        """take `docs = rs.all()` / `it = iter(rs)`, call other methods, loop over the kept object afterwards"""
        if rng.random() < 0.4:
            s = new_sort(s, lim="none" if rng.random() < 0.7 else None)      # a lazily sorted result
        hs = []

        def take_handle():
            h = nhandle[0]
            nhandle[0] += 1
            cmds.append(["hall", s, h, rng.choice([0, 1, 1, 1])] if rng.random() < 0.6 else ["hiter", s, h])
            hs.append(h)
        if rng.random() < 0.25:
            cmds.append(["first", s, rng.choice([0, 1])])
        take_handle()
        for _ in range(rng.choice([0, 1, 1, 1, 2, 3])):
            q = rng.random()
            if q < 0.45:
                cmds.append(["first", s, rng.choice([0, 1, 1])])
            elif q < 0.53:
                cmds.append(["one", s, rng.choice([0, 1, 1])])
            elif q < 0.58:
                cmds.append(["len", s])
            elif q < 0.74:
                new_sort(s)
            elif q < 0.81:
                cmds.append(["take", s, rng.choice([0, 1, 2])])
            elif q < 0.85:
                cmds.append(["iter", s])
            elif q < 0.93:
                take_handle()
            else:
                dst = fresh()
                cmds.append(["new", dst, "list", "auto", "none"])
                cmds.append(["intersect", s, dst, rng.choice(COLL_KINDS)] + rng.sample(POOL + [20], rng.randrange(0, 13)))
                slots.append(dst)
        rng.shuffle(hs)
        for h in hs:
            if rng.random() < 0.25:
                cmds.append(["htake", h, rng.choice([0, 1, 2])])
                if rng.random() < 0.5:
                    cmds.append(["first", s, rng.choice([0, 1])])
            cmds.append(["hdrain", h])
        if rng.random() < 0.5:
            cmds.append(["first", s, 1])
            cmds.append(["iter", s])
        if rng.random() < 0.15:
            cmds.append(["hdrain", hs[0]])     # the same object once more

    def inflight_block():
        """2-3 sorted results of (mostly) the same index kept unread, then read alternately / one id first and the
        rest after another sort / in reverse creation order"""
        i = rng.randrange(nidx)
        ds = []
        same_src = pick(True) if rng.random() < 0.5 else None
        for k in range(rng.choice([2, 2, 3])):
            fw = rng.random() < 0.6
            d = new_sort(same_src if same_src is not None else pick(True), i=i if rng.random() < 0.85 else None,
                         st=rng.choice(["none", "none", "fwscan", "optimal"]) if fw else None,
                         rev=0 if fw else None, lim="none" if rng.random() < 0.6 else None)
            ds.append(d)
            for _ in range(rng.choice([0, 1, 1, 2])):
                g = rng.choice(ds)
                cmds.append(rng.choice([["first", g, rng.choice([0, 1])], ["take", g, rng.choice([1, 1, 2, 3])]]))
        for _ in range(rng.choice([0, 2, 4, 6])):
            g = rng.choice(ds)
            cmds.append(rng.choice([["first", g, 0], ["take", g, rng.choice([1, 2, 3])], ["take", g, 1]]))
        if rng.random() < 0.5:
            ds.reverse()
        for g in ds:
            cmds.append(["iter", g])
        return ds[-1]

    for _ in range(rng.randrange(10, 31)):
        r = rng.random()
        s = pick(rng.random() < 0.7)
        if last_sorted is not None and rng.random() < 0.3:
            s = last_sorted
        res = rng.choice([0, 1, 1])
        if r < HANDLE_P:
            handle_block(s)
            continue
        if r < HANDLE_P + INFLIGHT_P:
            last_sorted = inflight_block()
            continue
        r = (r - HANDLE_P - INFLIGHT_P) / (1 - HANDLE_P - INFLIGHT_P)
        if r < 0.20:
            cmds.append(["first", s, res])
        elif r < 0.30:
            cmds.append(["one", s, res])
        elif r < 0.40:
            cmds.append(["len", s])
        elif r < 0.47:
            cmds.append(["iter", s])
        elif r < 0.54:
            cmds.append(["all", s, res])
        elif r < 0.60:
            cmds.append(["take", s, rng.choice([0, 1, 2, 3, 20])])
        elif r < 0.82:
            src = last_sorted if (last_sorted is not None and rng.random() < 0.4) else pick(True)
            # rs.sort(a) [.sort(b) [.sort(c)]] back to back, with peeks in between now and then
            for depth in range(rng.choice([1, 1, 2, 2, 3])):
                dst = fresh()
                cmds.append(["new", dst, "list", "auto", "none"])      # dst exists even if the sort raises
                lim = rng.choice(["none"] * 7 + [1, 2, 3, 5, 11, 12, 13, 100, 0])
                st = "none" if rng.random() < 0.6 else rng.choice(STYPES)
                cmds.append(["sort", src, dst, rng.randrange(nidx), rng.randrange(2), lim, st,
                             1 if rng.random() < 0.7 else 0])
                slots.append(dst)
                size[dst] = size.get(src, 0) if lim in ("none", 0) else min(size.get(src, 0), lim)
                last_sorted = dst
                if rng.random() < 0.3:
                    cmds.append(rng.choice([["first", dst, res], ["one", dst, res], ["len", dst]]))
                src = dst
        elif r < 0.92:
            dst = fresh()
            cmds.append(["new", dst, "list", "auto", "none"])
            if rng.random() < 0.5 and len(slots) > 1:
                other = rng.choice([x for x in slots if x != s])
                cmds.append(["intersect", s, dst, "rs", other])
                size[dst] = min(size.get(s, 0), size.get(other, 0)) // 2
            else:
                kind = rng.choice(COLL_KINDS + STREAM_KINDS)
                ids = rng.sample(POOL + [20], rng.randrange(0, 13))
                cmds.append(["intersect", s, dst, kind] + ids)
                size[dst] = min(size.get(s, 0), len(ids)) // 2
            slots.append(dst)
        else:
            s2 = fresh()
            cmds.append(gen_new(rng, s2))
            size[s2] = len(cmds[-1]) - 5
            slots.append(s2)
    # look at everything at the end
    for s in slots[-4:]:
        cmds.append(["len", s])
        cmds.append(["first", s, 1])
        cmds.append(["iter", s])
    return {"session": "resultset", "cfg": [], "cmds": cmds}


# ----------------------------------------------------------------------------
# implementation side
# ----------------------------------------------------------------------------
def show(v):
    if v is None:
        return "none"
    if isinstance(v, Obj):
        return "@%d" % v.n
    return str(v)


class Impl(object):
    def __init__(self, hyp):
        import BTrees
        from hypatia.field import FieldIndex
        self.fam = BTrees.family64
        self.FieldIndex = FieldIndex
        self.idx = {}
        self.slots = {}
        self.handles = {}

    def index(self, i):
        if i not in self.idx:
            self.idx[i] = self.FieldIndex("x")
        return self.idx[i]

    def resolver(self, name):
        import functools
        fname, _, kind = str(name).partition(":")
        fname, _, stale = fname.partition("/")
        if fname == "plus":
            g = lambda d: Obj(d + 1000)
        elif fname == "neg":
            g = lambda d: Obj(-d - 1)
        else:
            return None
        f = g
        if stale:
            m, k = (int(x) for x in stale.split("/"))

            def f(d):
                if d % m == k:
                    raise KeyError(d)       # the object map no longer has this docid
                return g(d)
        if kind == "":
            return f
        if kind == "fn":
            def resolve(docid):
                return f(docid)
            return resolve
        if kind == "method":
            class Holder(object):
                def resolve(self, docid):
                    return f(docid)
            return Holder().resolve
        if kind == "partial":
            return functools.partial(lambda k, d: f(d), 0)
        if kind == "falsy":
            class Falsy(object):
                def __bool__(self):
                    return False

                def __call__(self, docid):
                    return f(docid)
            return Falsy()
        if kind == "nolen":
            class Sized(object):
                def __len__(self):
                    return 0

                def __call__(self, docid):
                    return f(docid)
            return Sized()
        if kind == "memo":
            class Memo(dict):
                def __call__(self, docid):
                    if docid not in self:
                        self[docid] = f(docid).n
                    return Obj(self[docid])
            return Memo()
        raise ValueError(name)

    def ids_object(self, kind, ids):
        ids = list(ids)
        if kind == "list":
            return ids
        if kind == "tuple":
            return tuple(ids)
        if kind == "pyset":
            return set(ids)
        if kind == "frozenset":
            return frozenset(ids)
        if kind == "ifset":
            return self.fam.IF.Set(ids)
        if kind == "gen":
            return (x for x in ids)
        if kind == "iter":
            return iter(ids)
        raise ValueError(kind)

    def drain(self, it):
        from hypatia.exc import Unsortable
        out = []
        try:
            for x in it:
                out.append(show(x))
        except Unsortable as e:
            return "[%s] err Unsortable %s" % (" ".join(out), idset(set(e.docids)))
        except Exception as e:      # the resolver's own error: the loop ends there
            return "[%s] %s" % (" ".join(out), exc_name(e))
        return "[%s] ok" % " ".join(out)

    def err(self, e):
        from hypatia.exc import Unsortable
        if isinstance(e, Unsortable):
            return "err Unsortable " + idset(set(e.docids))
        return exc_name(e)

    def execute(self, c):
        from hypatia.util import ResultSet
        from hypatia import interfaces
        from hypatia.exc import Unsortable
        op = c[0]
        if op == "ix":
            idx = self.index(c[1])
            if c[2] == "index":
                o = Doc()
                if c[4] != "none":
                    o.x = c[4]
                idx.index_doc(c[3], o)
            elif c[2] == "unindex":
                idx.unindex_doc(c[3])
            elif c[2] == "reset":
                idx.reset()
            return "ok"
        if op == "new":
            ids = list(c[5:])
            obj = self.ids_object(c[2], ids)
            if c[2] in ("pyset", "frozenset", "ifset") and list(obj) != iteration_order(c[2], ids):
                return "iteration-order-not-reproducible"
            n = len(iteration_order(c[2], ids)) if c[3] == "auto" else c[3]
            self.slots[c[1]] = ResultSet(obj, n, self.resolver(c[4]))
            return "ok"
        if op == "query":
            q = getattr(self.index(c[2]), c[4])(c[5])
            res = self.resolver(c[3])
            self.slots[c[1]] = q.execute(resolver=res) if res is not None else q.execute()
            return "ok"
        if op == "hdrain":
            return self.drain(self.handles[c[1]])
        if op == "htake":
            return self.drain(itertools.islice(self.handles[c[1]], c[2]))
        rs = self.slots[c[1]]
        if op == "hall":
            # only taken here, looped over later
            self.handles[c[2]] = rs.all(resolve=False) if not c[3] else rs.all()
            return "ok"
        if op == "hiter":
            self.handles[c[2]] = iter(rs)
            return "ok"
        try:
            if op == "first":
                return show(rs.first(resolve=bool(c[2])) if not c[2] else rs.first())
            if op == "one":
                return show(rs.one(resolve=bool(c[2])) if not c[2] else rs.one())
            if op == "len":
                return str(len(rs))
            if op == "all":
                return self.drain(rs.all(resolve=bool(c[2])))
            if op == "iter":
                return self.drain(rs)
            if op == "take":
                return self.drain(itertools.islice(iter(rs), c[2]))
            if op == "sort":
                dst, i, rev, lim, st, raise_u = c[2:8]
                kw = {}
                if rev:
                    kw["reverse"] = True
                if lim != "none":
                    kw["limit"] = lim
                if st != "none":
                    kw["sort_type"] = {"stable": interfaces.STABLE, "optimal": interfaces.OPTIMAL,
                                       "fwscan": interfaces.FWSCAN, "nbest": interfaces.NBEST,
                                       "timsort": interfaces.TIMSORT}.get(st, st)
                if not raise_u:
                    kw["raise_unsortable"] = False
                idx = self.index(i)
                probe = rs.sort(idx, **kw)
                kind = "list" if hasattr(probe.ids, "__len__") else "gen"
                content = []
                tail = "ok"
                try:
                    for x in probe.all(resolve=False):
                        content.append(show(x))
                except Unsortable as e:
                    tail = "Unsortable " + idset(set(e.docids))
                self.slots[dst] = rs.sort(idx, **kw)
                return "len=%d %s [%s] %s" % (len(probe), kind, " ".join(content), tail)
            if op == "intersect":
                dst = c[2]
                if c[3] == "rs":
                    arg = self.slots[c[4]]
                else:
                    arg = self.ids_object(c[3], c[4:])
                res = rs.intersect(arg)
                self.slots[dst] = res
                return "ok len=%d" % len(res)
        except Exception as e:
            return self.err(e)
        raise ValueError(c)


def impl_run(hyp, case):
    im = Impl(hyp)
    return [im.execute(c) for c in case["cmds"]]


# ----------------------------------------------------------------------------
# comparison, measurement
# ----------------------------------------------------------------------------
def same(a, b):
    if b == "?":
        return True
    if isinstance(b, str) and " ~ " in b and b.startswith("len="):
        la, ra = a.split(" ", 1) if " " in a else (a, "")
        lb, rb = b.split(" ", 1)
        return la == lb and admissible(ra, rb)
    return a == b


def resolver_kind(tok):
    fname, _, kind = str(tok).partition(":")
    return "none" if fname == "none" else (kind or "lambda")


def post_model(hyp, case, mouts, iouts=None):
    """kept all()/iter() objects: where the object-level model says that a handle taken BEFORE a first()/one()/
    sort() has lost ids (no resolver: the handle IS the one-shot iterator), the property is silent - it speaks
    about calls on the result set, not about stale iterator objects - so the specification's answer is
    undetermined (`?`) there and only the model's answer is compared (a difference is correspondence drift)"""
    out = []
    for c, m in zip(case["cmds"], mouts):
        if c[0] in ("hdrain", "htake") and " ## " in m:
            mm, ss = m.split(" ## ", 1)
            out.append(m if mm == ss else mm + " ## ?")
        else:
            out.append(m)
    return out


def classify(case, i, impl, model, spec):
    return None


def nontrivial(case, outs):
    sorted_slots = {}
    chained_tie = False
    first_on_stream = False
    for c, o in zip(case["cmds"], outs):
        if c[0] == "sort" and isinstance(o, str) and o.startswith("len="):
            if c[1] in sorted_slots and "[" in o and len(o[o.index("[") + 1:o.index("]")].split()) >= 3:
                chained_tie = True
            sorted_slots[c[2]] = True
        if c[0] == "first" and c[1] in sorted_slots and o not in ("none",) and not o.startswith("err"):
            first_on_stream = True
    return chained_tie and first_on_stream


def features(case, outs):
    f = []
    kinds = {}
    sorted_from = {}
    sizes = {}
    rkind = {}
    nix = sum(1 for c in case["cmds"] if c[0] == "ix")
    if nix > 200:
        f.append("mode:big")
    hslot = {}          # handle -> [slot, how taken, what happened to the slot since]
    failing = {}        # slot -> the resolver raises for some ids
    for c, o in zip(case["cmds"], outs):
        op = c[0]
        if op == "ix":
            continue
        if op in ("hall", "hiter"):
            how = "iter" if op == "hiter" else "all" if c[3] else "all(resolve=False)"
            hslot[c[2]] = [c[1], how + ("/resolver" if rkind.get(c[1], "none") != "none" and how != "all(resolve=False)"
                                         else "/ids"), kinds.get(c[1], "?"), []]
            continue
        if op in ("hdrain", "htake"):
            h = hslot.get(c[1])
            if h is not None and op == "hdrain":
                b = set(h[3])
                between = "nothing" if not b else "first/one/len-only" if b <= {"first", "one", "len"} else \
                    "a-loop-over-it-already" if "loop" in b else "sort(+peeks)" if b <= {"first", "one", "len", "sort"} \
                    else "consuming-calls"
                f.append("handle:%s/%s/between:%s" % (h[1], h[2].replace("-used", ""), between))
                f.append("handle:%s/%s" % (h[1], h[2].replace("-used", "")))
                if "KeyError" in o:
                    f.append("handle:loop-ended-by-KeyError")
                h[3].append("loop")
            continue
        for h in hslot.values():
            if h[0] == c[1] and op in ("first", "one", "len", "sort", "take", "iter", "all", "intersect"):
                h[3].append(op)
        if op in ("first", "one", "iter", "all", "take") and "KeyError" in o:
            f.append("%s/%s/raised-KeyError" % (op, kinds.get(c[1], "?")))
            failing[c[1]] = failing.get(c[1], 0) + 1
        elif op in ("first", "one", "iter", "all", "take") and failing.get(c[1]):
            f.append("%s/%s/after-a-KeyError-on-this-result" % (op, kinds.get(c[1], "?")))
        if op == "new":
            kinds[c[1]] = "stream" if c[2] in STREAM_KINDS else "coll"
            sizes[c[1]] = len(c) - 5
            rkind[c[1]] = resolver_kind(c[4])
            if len(c) > 5 or c[2] != "list":
                f.append("new:%s%s" % (c[2], "/wrong-numids" if c[3] != "auto" else ""))
                f.append("resolver:" + rkind[c[1]])
                if "/" in str(c[4]):
                    f.append("resolver:raises-for-some-ids")
            continue
        if op == "query":
            kinds[c[1]] = "coll"
            rkind[c[1]] = resolver_kind(c[3])
            f.append("query")
            f.append("resolver:" + rkind[c[1]])
            continue
        rep = kinds.get(c[1], "?")
        res = "err:" + o.split()[1] if o.startswith("err") else "ok"
        if op in ("first", "one"):
            f.append("%s/%s/%s" % (op, rep, "none" if o == "none" else "obj" if o.startswith("@") else res if
                                   res != "ok" else "id"))
            if rkind.get(c[1], "none") in ("falsy", "nolen", "memo") and c[2] and o.startswith("@"):
                f.append("%s/resolved-by-falsy-callable" % op)
        elif op in ("iter", "all", "take"):
            f.append("%s/%s/%s" % (op, rep, "Unsortable" if "Unsortable" in o else "empty" if o.startswith("[]")
                                   else "items"))
            if rep == "stream" and op != "take":
                kinds[c[1]] = "stream-used"
        elif op == "len":
            f.append("len/%s" % rep)
        elif op == "sort":
            depth = sorted_from.get(c[1], 0) + 1
            rkind[c[2]] = rkind.get(c[1], "none")
            if o.startswith("len="):
                kinds[c[2]] = "stream" if " gen " in o else "coll"
                sorted_from[c[2]] = depth
                nsrc = sizes.get(c[1], 0)
                if nsrc == 0 and nix > 200:
                    nsrc = nix // 2         # a query over the whole big index
                sizes[c[2]] = nsrc if c[5] in ("none", 0) else min(nsrc, c[5])
                if nsrc >= 1024:
                    lim = c[5]
                    f.append("sort/big(>=1024)/depth%d/%s" % (min(depth, 3), "nolimit" if lim in ("none", 0) else
                             "limit<=n/16" if 16 * lim <= nsrc else "limit>n/16"))
                elif nsrc >= 200:
                    f.append("sort/big(<1024)/depth%d" % min(depth, 3))
                f.append("sort/depth%d/%s" % (min(depth, 3), "Unsortable@iter" if "Unsortable" in o else "ok"))
                f.append("sort/st:%s" % c[6])
                if c[5] != "none":
                    f.append("sort/limit")
            else:
                f.append("sort/%s" % res)
            if rep.startswith("stream"):
                kinds[c[1]] = "coll"
        elif op == "intersect":
            arg = "rs-" + kinds.get(c[4], "?") if c[3] == "rs" else ("stream" if c[3] in STREAM_KINDS else "coll")
            f.append("intersect/%s/arg:%s/%s" % (rep, arg, res))
            if res == "ok":
                kinds[c[2]] = "coll"
                if c[3] == "rs" and kinds.get(c[4], "").startswith("stream"):
                    kinds[c[4]] = "coll"
            if rep.startswith("stream"):
                kinds[c[1]] = "stream-used"
    return f


def witnesses():
    return [("stale-handle", {"session": "resultset", "cfg": [], "cmds": [
        ["new", 0, "gen", "auto", "none", 3, 1, 2], ["hall", 0, 0, 1], ["first", 0, 1], ["hdrain", 0]]})]
