"""C12  Catalog operations fan out to every index; legacy search equals intersection.

Session `catalog` (lean/Driver/Catalog.lean).  The implementation side drives the real
`Catalog` / `CatalogQuery` over real `FieldIndex` / `KeywordIndex` / `FacetIndex` objects (public API
only); after every catalog call the same call is also made by hand on a stand-alone twin of every
index (as the specification prescribes: valid docid, stop at the first index that raises) and `obs`
reports a mismatch between an index inside the catalog and its twin.

Mutation sanity check (scratch copies of /repo/hypatia, each run with VERIF_REPO=/var/tmp/mut_cat_N, all
deleted afterwards); every one gave VIOLATION with a shrunk replay within the first ~800-2700 cases:
 1 Catalog.reindex_doc without assertint            -> `reindex sx l=w` answers ok (str docid, empty list)
 2 unordered search intersects `results[1:]` only   -> needs a first answer that is not the smallest
 3 ordered search without the empty-result bail-out -> later sort_index/unknown-name errors surface
 4 sort(): `numdocs = min(numdocs, limit)` dropped  -> num 5 instead of 3 under limit=3
 5 FieldIndex.apply dict default operator 'and'     -> dict without 'operator' over two values
 6 FieldIndex.apply: 2-tuple inside a dict = range  -> `{'query': (0, 8), 'operator': 'and'}`
 7 KeywordIndex.apply default operator 'or'
 8 discriminate skips the Persistent check for callable discriminators
 9 Catalog.index_doc keeps going after a ValueError and re-raises at the end (later indexes updated)
10 FieldIndex.apply: a 2-element *list* treated as a range
11 assertint rejects bool (`type(docid) is not int`)
12 unordered search starts from results[0] and drops the last of >3 answers (needs a 4-index query)

Composed model (`st=<sort_type>` option: `searchM / queryM / callM / sortM` of HypatiaModel/CatalogSort.lean call the
C07 model of `FieldIndex.sort` itself, every sort_type; ~45 % of the sorted commands).  Mutations (mut_e2e_cN):
13 CatalogQuery.sort passes `sort_type=None` instead of the argument -> `st=other` / forced fwscan in reverse
   answer instead of ValueError                                                              caught
14 FieldIndex.nbest_descending: `heapq.nlargest(limit + 1, ...)` (one id too many)            caught
15 CatalogQuery.sort: `numdocs = limit` instead of `min(numdocs, limit)`                       caught

Result stability and None/falsy query values (builder wt_strong4).  `recheck` re-reads the (num, ids) pairs that
earlier searches handed out (the last 8 are kept) after later catalog traffic and compares them with what they
were; `clobber` empties the latest result the caller was handed and repeats the search.  Query values `N` (None),
`Z` (0 under a keyword/facet index), '' (keyword 6 / facet segment 6), empty list/tuple, dict without 'query'.
  seeded C12_E  unordered single-index search returns the index's own answer object   MISSED before, now caught
  seeded C12_F  ordered mode treats a query VALUE of None as "not queried"            MISSED before, now caught
  M12a KeywordIndex.search: 'or' over one word returns the posting itself (ordered mode aliasing that is NOT of
       the live-view shape)                                                                            caught (recheck)
  M12b unordered mode skips '' / [] / () / {} query values                                       caught
  M12c FieldIndex.apply drops None members of a query list of more than one element              caught
Provenance, not a finding (found with `recheck` on the unchanged tree; DESIGN 12.2): ordered mode, one applicable keyword/facet term, one
word under 'and', no sort index -> `ids` IS the index's posting set (see known_findings.json; witnesses()).
"""
from lib.core import exc_name, idset

ID = "C12"
AUDIT_IMPORTS = ["HypatiaProofs.Properties.C12"]
THEOREMS = ["Hyp.Catalog." + t for t in (
    "c12_fanout_call", "c12_call_exception", "c12_index_all", "c12_reindex_all", "c12_unindex_all", "c12_reset_all",
    "c12_persistent_rejected", "c12_nonint_docid_rejected", "c12_bool_docid", "c12_fanout_history",
    "c12_fanout_entry", "c12_field_history", "c12_keyword_history", "c12_facet_history", "c12_names_stable",
    "c12_setitem_name", "c12_setitem_get", "c12_search_unordered", "c12_search_ordered", "c12_interAll",
    "c12_sort_without_index", "c12_sort_num", "c12_num_eq_min", "c12_call_eq_query", "c12_field_legacy",
    "c12_keyword_legacy", "c12_facet_legacy", "c12_search_meaning_unordered", "c12_search_meaning_ordered",
    # composed with C07 (the sort index's own FieldIndex.sort), C04 (query objects over the catalog's index models)
    # and C11 (ResultSet.sort)
    "c12_search_is_set_then_sort", "c12_sort_composed", "c12_sort_composed_errors",
    "c12_sort_composed_without_index", "c12_search_sorted_unordered", "c12_search_sorted_ordered",
    "c12_query_sorted", "c12_catalog_is_model_catalog", "c12_resultset_sort_composed")]
CASES = {"quick": 8000, "thorough": 300000}
BUDGET_S = {"quick": 45, "thorough": 800}
RULE = ("catalogs of 1-5 indexes (field, keyword, facet; attribute-name and callable discriminators, several "
        "indexes may read the same attribute; 3% of the steps store a new index or replace one under an existing "
        "name via __setitem__ and read its __name__), histories of 5-45 (thorough: up to 150) catalog calls "
        "index/reindex/unindex/reset over docids 0..9 with documents whose attributes are present, missing, "
        "Persistent, Broken or a str under a keyword index, 8% non-int docids (bool, str, float, None), "
        "interleaved and final observations of every index (enumeration, counts, every posting) compared with "
        "the specification's per-index document tables and with stand-alone twin indexes; legacy searches over "
        "random subsets of the indexes (unknown names included) with every argument form (value, 2-tuple, "
        "RangeValue incl. open ends, list, tuple, dict with operator or/and/absent/other, dict without 'query'), "
        "unordered and with index_query_order (permutations, subsets, duplicates, names without query, empty "
        "list), sort_index (field / keyword / unknown), limit (None, 0, -1, 1, 2, huge), reverse; "
        "CatalogQuery.query and __call__ on And(...) of comparator objects (single comparators in 32-bit "
        "catalogs: And over family32 is finding D10 of C04), CatalogQuery.sort on arbitrary id "
        "sets. 10% of the generated query forms are None / falsy values (None bare, in lists and in dicts, 0, '', "
        "empty list/tuple, dict without query: quick seed 0, 8004 cases: 3550 terms with a None/0 value alone and "
        "1649 with None inside a list, half of each in the ordered mode; 22431 empty-list/dict/'' terms). Result "
        "stability: `recheck` after 15% of the writes, before the final observations and after 1-4 extra writes at "
        "the end (45538 rechecks: 44464 stable, 1074 were live views of a stored posting set by the provenance model and are skipped), `clobber` after 5% "
        "of the searches followed by the same search and an observation (3657). "
        "non-trivial = some index becomes non-empty and a search over >= 2 indexes returns a non-empty set")
LEVEL_TEXT = ("Lean 4 proof: for every catalog (any list of field/keyword/facet indexes, arbitrary discriminator "
              "functions), every history of catalog calls and every docid, each index ends in exactly the state "
              "of the same index run stand-alone on the calls projected to it with its own discriminated "
              "values (induction over the index list and over histories); non-int docids are rejected before "
              "any index is touched; CatalogQuery.search returns (|I|, I) with I the intersection of the "
              "per-index answers in both modes, (0, {}) when empty, num = min(|I|, limit) under a sort index; "
              "the legacy argument forms of FieldIndex.apply / KeywordIndex.apply mean what the specification "
              "says over the index's document table. Tied to hypatia.catalog/util/field/keyword/facet by a "
              "differential run of the real classes against the compiled model and the specification's answer")
LEVEL_NOTE = ("trusted: Lean kernel (propext, Quot.sound, Classical.choice), BTrees set algebra as modelled, "
              "discriminate abstracted to a function Doc -> outcome, FieldIndex.sort taken at its contract "
              "(C07; compared modulo tie order: sequence of sort values), query objects' _apply taken from "
              "C04, sampled correspondence, the harness")
TECHNIQUE = "Lean 4 refinement (fan-out = per-index projection) by induction over index lists and histories + loop invariants of both search modes + differential correspondence"

VALS = [-2, 0, 1, 2, 3, 5, 8]
KWS = ["a", "b", "c", "d", "e", "é", ""]            # the empty string is a legal (falsy) keyword
SEGS = ["a", "ab", "b", "c", "é", "x", ""]           # rank 6 = '' occurs in QUERIES only (the falsy facet name '')
SEG_RANK = {s: i for i, s in enumerate(SEGS)}
FACETS = ["a", "a:b", "a:b:c", "ab", "b", "b:c", "c", "é:x"]
PATHS = FACETS + ["a:b:c:x", "a:x", "ab:c", "x", "c:a", "b:c:x"]
NAMES = ["f", "g", "k", "m", "p", "q", "h"]
BAD_IDS = ["T", "F", "s1", "f1.0", "f2.5", "N", "sx"]
FIELD_ATTRS = ["x", "y"]
KW_ATTRS = ["k", "l"]
FACET_ATTRS = ["p"]


def enc(f):
    return ":".join(str(SEG_RANK[s]) for s in f.split(":"))


def dec(tok):
    return ":".join(SEGS[int(r)] for r in str(tok).split(":"))


class Doc(object):
    pass


# --------------------------------------------------------------------------------------------
# generator
# --------------------------------------------------------------------------------------------
def gen_catalog(rng):
    n = rng.choice([1, 2, 2, 3, 3, 4, 5])
    names = rng.sample(NAMES, n)
    cfg = []
    idx = []
    for i, name in enumerate(names):
        kind = rng.choice(["field", "field", "keyword", "keyword", "facet"]) if i else rng.choice(["field", "keyword"])
        if kind == "field":
            attr = rng.choice(FIELD_ATTRS)
            extra = []
        elif kind == "keyword":
            attr = rng.choice(KW_ATTRS)
            extra = []
        else:
            attr = "p"
            extra = [enc(f) for f in rng.sample(FACETS, rng.randrange(1, 6))]
        cfg.append(["cfg", "add", name, kind, attr] + extra)
        idx.append((name, kind, attr))
    cfg.append(["cfg", "disc"] + [rng.choice(["attr", "call"]) for _ in names])
    cfg.append(["cfg", "family", rng.choice([32, 64])])
    return cfg, idx


def gen_doc(rng, vals, kws):
    toks = []
    for a in FIELD_ATTRS:
        r = rng.random()
        if r < 0.2:
            continue
        toks.append("%s=%s" % (a, "P" if r < 0.215 else "B" if r < 0.22 else "i%d" % rng.choice(vals)))
    for a in KW_ATTRS:
        r = rng.random()
        if r < 0.2:
            continue
        if r < 0.21:
            toks.append(a + "=P")
        elif r < 0.22:
            toks.append(a + "=S")
        elif r < 0.3:
            toks.append(a + "=w")
        else:
            ks = [rng.choice(kws) for _ in range(rng.randrange(1, 4))]
            toks.append(a + "=w" + ",".join(map(str, ks)))
    r = rng.random()
    if r >= 0.25:
        if r < 0.26:
            toks.append("p=P")
        elif r < 0.32:
            toks.append("p=f")
        else:
            toks.append("p=f" + ",".join(enc(rng.choice(PATHS)) for _ in range(rng.randrange(1, 3))))
    return toks


def gen_elem(rng, vals, allow_range=True):
    r = rng.random()
    c = rng.choice(vals) if rng.random() < 0.85 else rng.choice(VALS)
    if not allow_range or r < 0.7:
        return str(c)
    c2 = rng.choice(vals)
    lo, hi = (c, c2) if rng.random() < 0.85 else (max(c, c2), min(c, c2) - 1)
    if r < 0.8:
        return "%d..%d" % (lo, hi)
    if r < 0.88:
        return "%d.." % lo
    if r < 0.96:
        return "..%d" % hi
    return ".."


def gen_shape(rng, elem, in_dict):
    r = rng.random()
    if r < 0.3:
        return ["v", elem(True)]
    if r < 0.45:
        return ["p", elem(False), elem(False)]
    if r < 0.9:
        n = rng.choice([0, 1, 1, 2, 2, 3])
        return ["l"] + [elem(True) for _ in range(n)]
    n = rng.choice([0, 1, 3])
    return ["t"] + [elem(True) for _ in range(n)]


def gen_falsy_form(rng, kind, vals, kws, facets):
    """query values that are None or falsy: each of them is a query like any other (`None` under a field index =
    both ends open, under a keyword/facet index a TypeError; 0, '', [], () and {} mean what their type means)"""
    op = rng.choice(["or", "and", "none"])
    if kind == "field":
        other = str(rng.choice(vals))
        return rng.choice([
            ["v", "N"], ["v", "N"], ["l", "N"], ["l", "N", other], ["l", other, "N"], ["t", "N"], ["t", "N", other, "N"],
            ["d", op, "v", "N"], ["d", op, "l", "N", other], ["d", "and", "l", other, "N"], ["d", op, "l", "N"],
            ["v", "0"], ["l", "0"], ["d", op, "v", "0"], ["l"], ["t"], ["d", op, "l"], ["d", "none", "nq"]])
    if kind == "keyword":
        return rng.choice([
            ["v", "N"], ["v", "N"], ["v", "Z"], ["d", op, "v", "N"], ["d", op, "v", "Z"],
            ["v", "6"], ["l", "6"], ["d", op, "v", "6"], ["d", op, "l", "6", str(rng.choice(kws))],
            ["l"], ["t"], ["d", op, "l"], ["d", "none", "nq"]])
    return rng.choice([
        ["v", "N"], ["v", "N"], ["v", "Z"], ["d", op, "v", "N"], ["d", op, "v", "Z"],
        ["v", "6"], ["l", "6"], ["d", op, "v", "6"], ["d", op, "l", "6", enc(rng.choice(facets))],
        ["l"], ["t"], ["d", op, "l"], ["d", "none", "nq"]])


def gen_form(rng, kind, vals, kws, facets):
    if rng.random() < 0.1:
        return gen_falsy_form(rng, kind, vals, kws, facets)
    if kind == "field":
        def elem(rng_ok):
            return gen_elem(rng, vals, rng_ok)
    elif kind == "keyword":
        def elem(rng_ok):
            # a RangeValue handed to a keyword index is a TypeError; only as the bare argument
            return str(rng.choice(kws))
    else:
        def elem(rng_ok):
            return enc(rng.choice(facets) if rng.random() < 0.85 else rng.choice(FACETS))
    if rng.random() < 0.5:
        sh = gen_shape(rng, elem, False)
        if kind == "keyword" and sh[0] == "v" and rng.random() < 0.05:
            sh = ["v", "1..2"]
        return sh
    op = rng.choice(["or", "and", "and", "none", "none", "xor"] if rng.random() < 0.5 else ["or", "and", "none"])
    if rng.random() < 0.04:
        return ["d", op, "nq"]
    return ["d", op] + gen_shape(rng, elem, True)


def target_of(kind, attr, facets, doc):
    """what a form must mention to match the document `doc` (attr -> token value), or None"""
    v = doc.get(attr)
    if v is None or v in ("P", "B", "S"):
        return None
    if kind == "field":
        return int(v[1:]) if v[0] == "i" else None
    if kind == "keyword":
        return [int(k) for k in v[1:].split(",")] if v[0] == "w" and len(v) > 1 else None
    if v[0] != "f" or len(v) == 1:
        return None
    hits = []
    for ptok in v[1:].split(","):
        segs = dec(ptok).split(":")
        for i in range(1, len(segs) + 1):
            cand = ":".join(segs[:i])
            if cand in facets and cand not in hits:
                hits.append(cand)
    return hits or None


def gen_form_hit(rng, kind, vals, kws, facets, tgt):
    """a form that the target satisfies (every argument shape, both operators)"""
    r = rng.random()
    if kind == "field":
        v = tgt
        lo = rng.choice([x for x in vals + [v] if x <= v])
        hi = rng.choice([x for x in vals + [v] if x >= v])
        rngtok = rng.choice(["%d..%d" % (lo, hi), "%d.." % lo, "..%d" % hi, "..", "%d..%d" % (v, v), "N"])
        others = [str(rng.choice(vals)) for _ in range(rng.randrange(0, 3))]
        if r < 0.15:
            return ["v", str(v)]
        if r < 0.25:
            return ["v", rngtok]
        if r < 0.38:
            return ["p", str(lo), str(hi)]
        if r < 0.5:
            l = others + [str(v) if rng.random() < 0.7 else rngtok]
            rng.shuffle(l)
            return [rng.choice(["l", "l", "t"]) if len(l) != 2 else "l"] + l
        op = rng.choice(["or", "and", "none", "xor"])
        if op == "and":
            l = [rng.choice([str(v), rngtok, "%d..%d" % (lo, hi), "..%d" % hi, "%d.." % lo]) for _ in range(rng.randrange(1, 4))]
            if r < 0.6:
                return ["d", "and", "v", l[0]]
            if r < 0.7:
                return ["d", "and", "p", str(v), str(v)]
            return ["d", "and", "l" if len(l) == 2 or rng.random() < 0.7 else "t"] + l
        l = others + [str(v) if rng.random() < 0.7 else rngtok]
        rng.shuffle(l)
        if r < 0.6:
            return ["d", op, "v", str(v) if rng.random() < 0.6 else rngtok]
        if r < 0.7:
            return ["d", op, "p", str(v), str(rng.choice(vals))]
        return ["d", op, "l" if len(l) == 2 or rng.random() < 0.7 else "t"] + l
    toks = [str(k) for k in tgt] if kind == "keyword" else [enc(f) for f in tgt]
    pool = [str(k) for k in kws] if kind == "keyword" else [enc(f) for f in facets]
    sub = rng.sample(toks, rng.randrange(1, len(toks) + 1))
    if rng.random() < 0.3:
        sub.append(sub[0])
    mixed = sub + [rng.choice(pool) for _ in range(rng.randrange(0, 2))]
    rng.shuffle(mixed)
    if r < 0.2:
        return ["v", sub[0]]
    if r < 0.4:
        return (["p"] + sub[:2]) if len(sub) == 2 else (["l"] + sub)
    if r < 0.5:
        return ["t"] + sub if len(sub) != 2 else ["l"] + sub
    if r < 0.65:
        return ["d", rng.choice(["and", "none"]), "l"] + sub
    if r < 0.75:
        return ["d", rng.choice(["and", "none", "or"]), "v", sub[0]]
    return ["d", "or", "l" if len(mixed) == 2 or rng.random() < 0.7 else "t"] + mixed


SORT_TYPES = {"none": None, "fwscan": "fwscan", "nbest": "nbest", "timsort": "timsort", "stable": "stable",
              "optimal": "optimal", "other": "bogus"}


def gen_opts(rng, idx, queried):
    opts = []
    names = [n for n, _, _ in idx]
    if rng.random() < 0.5:
        r = rng.random()
        if r < 0.06:
            order = []
        elif r < 0.5:
            order = list(queried)
            rng.shuffle(order)
        else:
            pool = names + queried + ["zz"]
            order = [rng.choice(pool) for _ in range(rng.randrange(1, 5))]
        opts.append("order=" + (",".join(order) if order else "-"))
    opts += gen_sortopts(rng, idx)
    return opts


def gen_sortopts(rng, idx):
    opts = []
    r = rng.random()
    fields = [n for n, k, _ in idx if k == "field"]
    others = [n for n, k, _ in idx if k != "field"]
    if r < 0.45:
        if fields and rng.random() < 0.85:
            opts.append("sort=" + rng.choice(fields))
        elif others and rng.random() < 0.7:
            opts.append("sort=" + rng.choice(others))
        else:
            opts.append("sort=zz")
    if rng.random() < 0.5:
        opts.append("limit=%d" % rng.choice([1, 1, 2, 2, 3, 50, 0, -1] if rng.random() < 0.3 else [1, 2, 3, 50]))
    if rng.random() < 0.4:
        opts.append("rev=1")
    if rng.random() < 0.45:
        # answered on the model side by the composed model (C12 o C07): the sort index's own FieldIndex.sort,
        # every sort_type (forward scan in reverse / n-best without a limit / an unknown type are ValueErrors)
        opts.append("st=" + rng.choice(["none", "none", "none", "fwscan", "nbest", "timsort", "stable", "optimal",
                                        "other"]))
    return opts


def gen_search(rng, idx, vals, kws, facets_of, cur=None):
    k = rng.choice([0, 1, 1, 2, 2, 2, 3, 3, 4, 5])
    chosen = rng.sample(idx, min(k, len(idx)))
    doc = cur[rng.choice(sorted(cur))] if cur and rng.random() < 0.75 else None
    terms = []
    for name, kind, attr in chosen:
        facets = facets_of.get(name, FACETS)
        tgt = target_of(kind, attr, facets, doc) if doc is not None and rng.random() < 0.9 else None
        if tgt is not None:
            terms.append([name] + gen_form_hit(rng, kind, vals, kws, facets, tgt))
        else:
            terms.append([name] + gen_form(rng, kind, vals, kws, facets))
    if rng.random() < 0.05:
        terms.insert(rng.randrange(len(terms) + 1), ["zz", "v", "1"])
    cmd = ["search"] + gen_opts(rng, idx, [t[0] for t in terms])
    for t in terms:
        cmd += [";"] + t
    return cmd


def gen_query(rng, idx, vals, kws, facets_of, fam=64):
    # And(...) over family32 indexes raises TypeError (finding D10 of C04: Query.family is hard-wired to
    # family64); the query algebra is not C12's subject, so 32-bit catalogs get single comparators
    k = rng.choice([1, 1, 2, 2, 3]) if fam == 64 else 1
    chosen = [rng.choice(idx) for _ in range(k)]
    terms = []
    for name, kind, _ in chosen:
        if kind == "field":
            r = rng.random()
            c = rng.choice(vals)
            if r < 0.4:
                t = ["v", str(c)]
            elif r < 0.7:
                t = ["p", str(c), str(rng.choice(vals))]
            else:
                t = ["l"] + [str(rng.choice(vals)) for _ in range(rng.randrange(0, 4))]
        else:
            pool = [str(x) for x in kws] if kind == "keyword" else [enc(f) for f in facets_of.get(name, FACETS)]
            r = rng.random()
            if r < 0.4:
                t = ["v", rng.choice(pool)]
            else:
                t = ["d", "or" if r < 0.7 else "and", "l"] + [rng.choice(pool) for _ in range(rng.randrange(0, 4))]
        terms.append([name] + t)
    cmd = [rng.choice(["query", "call"])] + gen_sortopts(rng, idx)
    for t in terms:
        cmd += [";"] + t
    return cmd


def gen_sort(rng, idx):
    ids = rng.sample(range(12), rng.choice([0, 1, 3, 5, 8]))
    return ["sort"] + gen_sortopts(rng, idx) + [";"] + ids


def gen(rng, tier, idx_no):
    cfg, idx = gen_catalog(rng)
    vals = sorted(rng.sample(VALS, rng.randrange(2, 5)))
    kws = sorted(rng.sample(range(len(KWS)), rng.randrange(2, 5)))
    facets_of = {c[2]: [dec(t) for t in c[5:]] for c in cfg if c[1] == "add" and c[3] == "facet"}
    ids = list(range(rng.choice([3, 5, 8, 10])))
    fam = [c[2] for c in cfg if c[1] == "family"][0]
    maxlen = 45 if tier == "quick" or rng.random() < 0.9 else 150
    cmds = []
    cur = {}

    def some_reads(k):
        for _ in range(k):
            r = rng.random()
            if r < 0.2:
                cmds.append(["obs", rng.choice(idx)[0]])
            elif r < 0.8:
                cmds.append(gen_search(rng, idx, vals, kws, facets_of, cur))
                if rng.random() < 0.05:
                    # the caller empties the result it was handed; the same search and the indexes are unimpressed
                    cmds.append(["clobber"])
                    cmds.append(cmds[-2])
                    cmds.append(["obs", rng.choice(idx)[0]])
            elif r < 0.93:
                cmds.append(gen_query(rng, idx, vals, kws, facets_of, fam))
            else:
                cmds.append(gen_sort(rng, idx))
    for _ in range(rng.randrange(5, maxlen)):
        r = rng.random()
        d = rng.choice(ids) if rng.random() < 0.92 else rng.choice(BAD_IDS)
        if rng.random() < 0.03 and len(idx) < 6:
            # Catalog.__setitem__ in the middle of a history: a new index, or a fresh one under an old name
            name = rng.choice(NAMES)
            kind = rng.choice(["field", "keyword", "facet"])
            attr = rng.choice({"field": FIELD_ATTRS, "keyword": KW_ATTRS, "facet": FACET_ATTRS}[kind])
            extra = [enc(f) for f in rng.sample(FACETS, rng.randrange(1, 6))] if kind == "facet" else []
            cmds.append(["add", name, kind, attr] + extra)
            cmds.append(["name", name])
            pos = [i for i, t in enumerate(idx) if t[0] == name]
            if pos:
                idx[pos[0]] = (name, kind, attr)
            else:
                idx.append((name, kind, attr))
            facets_of.pop(name, None)
            if kind == "facet":
                facets_of[name] = [dec(t) for t in extra]
        if r < 0.02:
            cmds.append(["reset"])
            cur.clear()
        elif r < 0.12:
            cmds.append(["unindex", d])
            cur.pop(d, None)
        else:
            toks = gen_doc(rng, vals, kws)
            cmds.append(["index" if r < 0.75 else "reindex", d] + toks)
            if isinstance(d, int):
                cur[d] = dict(t.split("=", 1) for t in toks)      # approximately: ignores rejected calls
        if rng.random() < 0.15:
            cmds.append(["recheck"])        # results handed out earlier are what they were
        if rng.random() < 0.2:
            some_reads(rng.randrange(1, 3))
    cmds.append(["recheck"])
    for name, _, _ in idx:
        cmds.append(["obs", name])
        cmds.append(["name", name])
    cmds.append(["name", "zz"])
    some_reads(8)
    # more catalog traffic after the last searches, then look at their results again
    for _ in range(rng.randrange(1, 5)):
        d = rng.choice(ids + [10, 11])
        if cur and rng.random() < 0.4:
            d = rng.choice(sorted(cur))
            cmds.append(["unindex", d])
            cur.pop(d, None)
        else:
            toks = gen_doc(rng, vals, kws)
            cmds.append([rng.choice(["index", "reindex"]), d] + toks)
            cur[d] = dict(t.split("=", 1) for t in toks)
    cmds.append(["recheck"])
    cmds.append(["obs", rng.choice(idx)[0]])
    return {"session": "catalog", "cfg": cfg, "cmds": cmds}


# --------------------------------------------------------------------------------------------
# implementation side
# --------------------------------------------------------------------------------------------
def cfgdict(case):
    d = {"add": [], "disc": [], "family": 64}
    for c in case.get("cfg", []):
        if c[1] == "add":
            d["add"].append(c[2:])
        elif c[1] == "disc":
            d["disc"] = c[2:]
        else:
            d[c[1]] = c[2]
    return d


class Impl(object):
    def __init__(self, hyp, case):
        import BTrees
        from hypatia.catalog import Catalog, CatalogQuery
        cfg = cfgdict(case)
        self.fam = BTrees.family32 if cfg["family"] == 32 else BTrees.family64
        self.cat = Catalog(family=self.fam)
        self.q = CatalogQuery(self.cat, family=self.fam)
        self.kinds = {}
        self.twins = {}
        self.order = []
        self.kept = []
        for i, spec in enumerate(cfg["add"]):
            style = cfg["disc"][i] if i < len(cfg["disc"]) else "attr"
            self.add(spec, style)

    def mk(self, kind, attr, style, facets):
        from hypatia.field import FieldIndex
        from hypatia.keyword import KeywordIndex
        from hypatia.facet import FacetIndex
        if style == "call":
            disc = (lambda a: (lambda obj, default: getattr(obj, a, default)))(attr)
        else:
            disc = attr
        if kind == "field":
            return FieldIndex(disc, family=self.fam)
        if kind == "keyword":
            return KeywordIndex(disc, family=self.fam)
        return FacetIndex(disc, facets, family=self.fam)

    def add(self, spec, style="attr"):
        name, kind, attr = spec[0], spec[1], spec[2]
        facets = [dec(t) for t in spec[3:]]
        ix = self.mk(kind, attr, style, facets)
        self.nadd = getattr(self, "nadd", 0) + 1
        if self.nadd % 2 == 0:
            # every second index has lived in another catalog under another name before (a moved / renamed
            # index): stored under `name` it must report `name` (seeded change C12_B kept the first name)
            from hypatia.catalog import Catalog
            other = Catalog()
            other["old_" + name] = ix
            del other["old_" + name]
        self.cat[name] = ix
        self.twins[name] = self.mk(kind, attr, style, facets)
        self.kinds[name] = kind
        if name not in self.order:
            self.order.append(name)

    # ---- documents and docids
    def doc(self, toks):
        from persistent import Persistent
        from ZODB.broken import Broken

        class P(Persistent):
            pass
        o = Doc()
        for t in toks:
            a, v = t.split("=", 1)
            if v == "P":
                val = P()
            elif v == "B":
                val = Broken()
            elif v == "S":
                val = "abc"
            elif v[0] == "i":
                val = int(v[1:])
            elif v[0] == "w":
                val = [KWS[int(k)] for k in v[1:].split(",")] if len(v) > 1 else []
            else:
                val = [dec(f) for f in v[1:].split(",")] if len(v) > 1 else []
            setattr(o, a, val)
        return o

    @staticmethod
    def docid(tok):
        if isinstance(tok, int):
            return tok, True
        if tok == "T":
            return True, True
        if tok == "F":
            return False, True
        if tok == "N":
            return None, False
        if tok[0] == "f":
            return float(tok[1:]), False
        return tok[1:], False

    def twin_call(self, meth, valid, *args):
        """the same call on every stand-alone twin, as the specification prescribes"""
        if not valid:
            return
        for name in self.order:
            try:
                getattr(self.twins[name], meth)(*args)
            except Exception:
                break

    # ---- observations
    def show_key(self, kind, v):
        if kind == "field":
            return str(v)
        if kind == "keyword":
            return str(KWS.index(v))
        return enc(v)

    def sort_key(self, kind, v):
        if kind == "field":
            return v
        if kind == "keyword":
            return KWS.index(v)
        return [SEG_RANK[s] for s in v.split(":")]

    def obs_index(self, kind, idx):
        uv = sorted(idx.unique_values(), key=lambda v: self.sort_key(kind, v))
        post = " ".join("%s:%s" % (self.show_key(kind, v), idset(idx.applyEq(v))) for v in uv)
        return "indexed=%s ni=%s docids=%s ic=%d nic=%d dc=%d wc=%d post=[%s]" % (
            idset(idx.indexed()), idset(idx.not_indexed()), idset(idx.docids()), idx.indexed_count(),
            idx.not_indexed_count(), idx.docids_count(), idx.word_count(), post)

    # ---- query arguments
    def elem(self, kind, tok):
        from hypatia import RangeValue
        tok = str(tok)
        if tok == "N":
            return None
        if tok == "Z":
            return 0
        if kind == "field" or ".." in tok:
            if ".." in tok:
                lo, hi = tok.split("..")
                conv = int if kind == "field" else (lambda k: KWS[int(k)])
                return RangeValue(conv(lo) if lo else None, conv(hi) if hi else None)
            return int(tok)
        if kind == "keyword":
            return KWS[int(tok)]
        return dec(tok)

    def shape(self, kind, toks):
        tag, rest = toks[0], toks[1:]
        if tag == "v":
            return self.elem(kind, rest[0])
        if tag == "p":
            return (self.elem(kind, rest[0]), self.elem(kind, rest[1]))
        if tag == "l":
            return [self.elem(kind, t) for t in rest]
        if tag == "t":
            return tuple(self.elem(kind, t) for t in rest)
        raise ValueError(toks)

    def form(self, kind, toks):
        if toks[0] == "d":
            d = {}
            if toks[1] != "none":
                d["operator"] = toks[1]
            if toks[2] != "nq":
                d["query"] = self.shape(kind, toks[2:])
            return d
        return self.shape(kind, toks)

    def kind_of(self, name, toks):
        if name in self.kinds:
            return self.kinds[name]
        return "field"

    @staticmethod
    def groups(toks):
        out, cur = [], []
        for t in toks:
            if t == ";":
                out.append(cur)
                cur = []
            else:
                cur.append(t)
        out.append(cur)
        return out

    @staticmethod
    def opts(toks):
        o = {}
        for t in toks:
            k, v = str(t).split("=", 1)
            if k == "order":
                o["index_query_order"] = [] if v == "-" else v.split(",")
            elif k == "sort":
                o["sort_index"] = v
            elif k == "limit":
                o["limit"] = int(v)
            elif k == "rev":
                o["reverse"] = v == "1"
            elif k == "st":
                o["sort_type"] = SORT_TYPES[v]
        return o

    def show(self, res, o, base):
        """canonical form of (num, result); `base` = callable giving the unsorted id set or None"""
        from hypatia.exc import Unsortable
        import types
        n, r = res
        if not isinstance(r, (list, types.GeneratorType)):      # an id set (or the empty tuple): not sorted
            if r is None:
                return "%d None" % n
            return "%d %s" % (n, idset(r))
        out, uns = [], 0
        try:
            for d in r:
                out.append(d)
        except Unsortable:
            uns = 1
        sidx = self.cat[o["sort_index"]]
        marker = object()
        keys, bad = [], ""
        for d in out:
            rep = sidx.document_repr(d, marker)
            if rep is marker:
                bad = " INVALID-unsortable-id"
                keys.append("?")
            else:
                keys.append(rep)
        if len(set(out)) != len(out):
            bad += " INVALID-duplicate"
        b = base()
        if b is not None and not set(out) <= set(b):
            bad += " INVALID-foreign-id"
        return "%d keys=[%s] uns=%d ids=%s%s" % (n, " ".join(keys), uns, "*" if "limit" in o else idset(out), bad)

    def search(self, toks):
        from hypatia.exc import Unsortable
        g = self.groups(toks)
        o = self.opts(g[0])
        kw = {}
        for t in g[1:]:
            kw[t[0]] = self.form(self.kind_of(t[0], t[1:]), t[1:])
        allkw = dict(kw)
        allkw.update(o)
        res = self.q.search(**allkw)
        self.keep(res, o, kw)

        def base():
            k2 = dict(kw)
            if "index_query_order" in o:
                k2["index_query_order"] = o["index_query_order"]
            return self.q.search(**k2)[1]
        return self.show(res, o, base)

    # ---- result stability: what a search handed out belongs to the caller
    def alias_shape(self, o, kw):
        """'live:…' if this search hands out a stored container by the provenance model (ordered mode, exactly one applicable term, on a
        keyword/facet index, a single word under operator 'and', no sort index: apply_intersect(query, None)
        returns KeywordIndex.search's `IF.intersection(None, posting)`, which IS the posting), else a description"""
        mode = "ordered" if "index_query_order" in o else "unordered"
        names = [n for n in o["index_query_order"] if n in kw] if mode == "ordered" else list(kw)
        tag = "%s/%d/%s" % (mode, len(names), "+".join(self.kinds.get(n, "?") for n in names))
        if mode == "ordered" and len(names) == 1 and self.kinds.get(names[0]) in ("keyword", "facet") \
                and not o.get("sort_index"):
            q = kw[names[0]]
            oper = "and"
            if isinstance(q, dict):
                oper = q.get("operator", "and")
                q = q.get("query")
            words = [q] if isinstance(q, str) else list(q) if isinstance(q, (list, tuple)) else None
            if oper == "and" and words is not None and len(words) == 1:
                return "live:" + tag
        return tag

    def keep(self, res, o, kw):
        import types
        n, r = res
        if isinstance(r, (list, tuple, types.GeneratorType)) or r is None:
            return
        self.kept.append({"tag": self.alias_shape(o, kw), "obj": r, "num": n, "snap": sorted(r)})
        del self.kept[:-8]

    def recheck(self):
        bad = []
        for k in self.kept:
            if k["tag"].startswith("live:"):
                # provenance model (Alias.lean, c18_keyword_search_one_prov): a one-word 'and' search of a
                # keyword/facet index returns the STORED posting set, and ordered mode passes it through
                # (apply_intersect(query, None)); such a result is a live view by construction
                continue
            now = sorted(k["obj"])
            if now != k["snap"] or len(k["obj"]) != len(k["snap"]):
                bad.append("%s:(%d,%s)->%s" % (k["tag"], k["num"], idset(k["snap"]), idset(now)))
                k["snap"] = now         # report every change once
        return "stable" if not bad else "CHANGED " + ";".join(bad)

    def clobber(self):
        """the caller empties (or, failing that, adds to) the latest result it was handed - its own object"""
        for k in reversed(self.kept):
            if k["tag"].startswith("live:"):
                continue                # that object IS the index's posting set (provenance: stored)
            self.kept = [x for x in self.kept if x["obj"] is not k["obj"]]
            try:
                k["obj"].clear()
            except AttributeError:
                pass
            break
        return "ok"

    def qobj(self, name, toks):
        idx = self.cat[name]
        kind = self.kinds[name]
        tag = toks[0]
        if kind == "field":
            if tag == "v":
                return idx.eq(int(toks[1]))
            if tag == "p":
                return idx.inrange(int(toks[1]), int(toks[2]))
            return idx.any([int(t) for t in toks[1:]])
        conv = (lambda t: KWS[int(t)]) if kind == "keyword" else dec
        if tag == "v":
            return idx.eq(conv(toks[1]))
        vals = [conv(t) for t in toks[3:]]
        return idx.any(vals) if toks[1] == "or" else idx.all(vals)

    def query(self, toks, via_call):
        from hypatia.query import And
        from hypatia.exc import Unsortable
        g = self.groups(toks)
        o = self.opts(g[0])
        objs = [self.qobj(t[0], t[1:]) for t in g[1:]]
        qo = objs[0] if len(objs) == 1 else And(*objs)
        fn = self.q if via_call else self.q.query
        res = fn(qo, **o)
        return self.show(res, o, lambda: qo._apply(None))

    def sort(self, toks):
        from hypatia.exc import Unsortable
        g = self.groups(toks)
        o = self.opts(g[0])
        ids = self.fam.IF.Set([int(t) for t in g[1]])
        res = self.q.sort(ids, o.get("sort_index"), o.get("limit"), o.get("sort_type"), o.get("reverse", False))
        return self.show(res, o, lambda: ids)

    # ---- dispatch
    def execute(self, c):
        try:
            op = c[0]
            if op in ("index", "reindex"):
                d, valid = self.docid(c[1])
                obj = self.doc(c[2:])
                meth = "index_doc" if op == "index" else "reindex_doc"
                self.twin_call(meth, valid, d, obj)
                getattr(self.cat, meth)(d, obj)
                return "ok"
            if op == "unindex":
                d, valid = self.docid(c[1])
                self.twin_call("unindex_doc", valid, d)
                self.cat.unindex_doc(d)
                return "ok"
            if op == "reset":
                self.twin_call("reset", True)
                self.cat.reset()
                return "ok"
            if op == "add":
                self.add(c[1:])
                return "ok"
            if op == "name":
                return "name=%s" % (self.cat[c[1]].__name__,)
            if op == "obs":
                idx = self.cat[c[1]]
                kind = self.kinds[c[1]]
                a = self.obs_index(kind, idx)
                b = self.obs_index(kind, self.twins[c[1]])
                return a if a == b else "STANDALONE-MISMATCH " + a + " <> " + b
            if op == "search":
                return self.search(c[1:])
            if op == "query":
                return self.query(c[1:], False)
            if op == "call":
                return self.query(c[1:], True)
            if op == "sort":
                return self.sort(c[1:])
            if op == "recheck":
                return self.recheck()
            if op == "clobber":
                return self.clobber()
        except Exception as e:
            return exc_name(e)
        raise ValueError(c)


def impl_run(hyp, case):
    im = Impl(hyp, case)
    return [im.execute(c) for c in case["cmds"]]


def nontrivial(case, outs):
    multi = False
    for c, o in zip(case["cmds"], outs):
        if c[0] == "search" and c.count(";") >= 2 and o and not o.startswith("0 ") and not o.startswith("err"):
            multi = True
    return multi


def features(case, outs):
    f = ["indexes:%d" % len(cfgdict(case)["add"])]
    for spec in cfgdict(case)["add"]:
        f.append("kind:" + spec[1])
    for c, o in zip(case["cmds"], outs):
        op = c[0]
        if op in ("index", "reindex", "unindex"):
            kind = "int" if isinstance(c[1], int) else "bool" if c[1] in ("T", "F") else "nonint"
            f.append("%s:%s:%s" % (op, kind, o))
            for t in c[2:]:
                v = str(t).split("=", 1)[1]
                if v in ("P", "B", "S"):
                    f.append("docval:" + v)
        elif op == "reset":
            f.append("reset")
        elif op == "recheck":
            f.append("recheck:" + ("stable" if o == "stable" else "changed-live-view-shape" if "live:" in o else "changed"))
        elif op == "clobber":
            f.append("clobber")
        elif op == "add":
            f.append("setitem-midway")
        elif op == "obs":
            f.append("obs:" + ("empty" if "docids={}" in o else "nonempty"))
        elif op in ("search", "query", "call", "sort"):
            nterms = c.count(";")
            mode = "ordered" if any(str(t).startswith("order=") for t in c) else "unordered"
            srt = "sorted" if any(str(t).startswith("sort=") for t in c) else "unsorted"
            lim = "limit" if any(str(t).startswith("limit=") for t in c) else "nolimit"
            if o.startswith("err"):
                res = o
            elif o.startswith("0 "):
                res = "empty"
            else:
                res = "nonempty"
            if op == "search":
                f.append("search:%s:terms=%d:%s" % (mode, min(nterms, 4), res))
                f.append("search:%s:%s:%s" % (srt, lim, res))
            else:
                f.append("%s:%s:%s:%s" % (op, srt, lim, res))
            if "uns=1" in o:
                f.append(op + ":unsortable")
            stv = [str(t).split("=")[1] for t in c if str(t).startswith("st=")]
            if stv and srt == "sorted":
                f.append("composed:%s:st=%s:%s" % (op, stv[0], res))
            if srt == "sorted" and lim == "limit" and not o.startswith("err"):
                n = int(o.split(" ")[0])
                lim_v = [int(str(t).split("=")[1]) for t in c if str(t).startswith("limit=")][0]
                if n == lim_v:
                    f.append(op + ":num-capped-by-limit")
            i = 0
            while i < len(c):
                if c[i] == ";" and op == "search" and i + 2 < len(c):
                    tag = c[i + 2]
                    if tag == "d":
                        f.append("form:dict:%s:%s" % (c[i + 3], c[i + 4] if i + 4 < len(c) else "?"))
                        if c[i + 3] == "and" and i + 4 < len(c) and c[i + 4] in ("l", "t") and (i + 5 >= len(c) or c[i + 5] == ";"):
                            f.append("form:dict:and:empty-list")
                    else:
                        f.append("form:%s%s" % (tag, ":range" if ".." in str(c[i + 3] if i + 3 < len(c) else "") else ""))
                    j = i + 2
                    args = []
                    while j < len(c) and c[j] != ";":
                        args.append(str(c[j]))
                        j += 1
                    if "N" in args[1:] or "Z" in args[1:]:
                        f.append("form:None-or-0-value:%s:%s" % (mode, "alone" if args[1:] in (["N"], ["Z"]) or
                                                                   args[-2:] in (["v", "N"], ["v", "Z"]) else "in-list"))
                    elif args[-1] in ("l", "t", "nq") or "6" in args[1:] and args[0] != "p":
                        f.append("form:empty-list/dict/'':%s" % mode)
                i += 1
    return f


def classify(case, i, impl, model, spec):
    return None


def same(a, b):
    # `?` = the specification leaves this answer open (result aliasing): only the model's answer is compared
    if b == "?":
        return True
    return a == b


def witnesses():
    base_cfg = [["cfg", "add", "f", "field", "x"], ["cfg", "add", "k", "keyword", "k"], ["cfg", "disc", "attr", "call"],
                ["cfg", "family", 64]]
    docs = [["index", 0, "x=i3", "k=w1"], ["index", 1, "x=i5", "k=w1"], ["index", 2, "x=i8", "k=w0"],
            ["index", 3, "x=i3", "k=w0,1"]]
    return [
        # provenance, not a finding: an ordered one-word keyword search hands out the stored posting set (live view)
        ("alias-ordered-one-word", {"session": "catalog", "cfg": base_cfg, "cmds": docs + [
            ["search", "order=k", ";", "k", "v", "1"], ["search", ";", "k", "v", "1"],
            ["index", 5, "x=i1", "k=w1"], ["recheck"]]}),
        # D1 (repaired): 'and' over two postings of equal size
        ("regress-D1", {"session": "catalog", "cfg": base_cfg, "cmds": docs + [
            ["search", ";", "f", "d", "and", "l", "3", "5"], ["search", ";", "f", "d", "and", "l", "3", "3..8"]]}),
        # D16 (repaired): ordered mode, no listed index has a query
        ("regress-D16", {"session": "catalog", "cfg": base_cfg, "cmds": docs + [
            ["search", "order=k", ";", "f", "v", "3"], ["search", "order=-"], ["search", "order=f,k"]]}),
        # D18 (repaired): FieldIndex 'and' over an empty list, both modes and both positions
        ("regress-D18", {"session": "catalog", "cfg": base_cfg, "cmds": docs + [
            ["search", ";", "k", "l", "1", ";", "f", "d", "and", "l"],
            ["search", "order=k,f", ";", "k", "l", "1", ";", "f", "d", "and", "l"],
            ["search", "order=f,k", ";", "k", "l", "1", ";", "f", "d", "and", "l"],
            ["search", ";", "f", "d", "and", "t"]]}),
    ]
