"""C13  Facet index: hierarchical membership and exact facet counts.

Generator modes (measured, quick tier, seed 0, 12000 cases): small 92%, bulk 8%; the largest posting reached
65-120 docids in 5%, 121-300 in 3% of the cases (4.9% of all cases reach >= 65 docids under the class default
tree_threshold); > 120 withdrawn documents in 0.5%.

Size- / entry-point-dependent mutations tried on scratch copies (VERIF_REPO=/var/tmp/mut_strong1_<N>, deleted
afterwards), all VIOLATION with a shrunk replay, quick tier, seed 0:
  M5  counts(): the memo is keyed by the NUMBER of facets of a document when more than 128 docids are given
  M7  KeywordIndex.search(.., 'and') returns the smallest set without intersecting when it has > 80 docids
  M10 KeywordIndex.apply({'query': [..]}) defaults to operator 'or'
  M12 docids() cached on (indexed_count, not_indexed_count)
and the seeded change C13_D (posting promoted to a TreeSet at tree_threshold, the triggering docid is lost).

Builder wt_strong4: mode big (1 case in 160; measured 80 of 12000 = 0.7%): 520-2000 documents, counts() over
500+ docids as list / tuple / IF Set / IF TreeSet (own and other family) / generator / Python set / dict keys /
query result, the counted documents use only some of the facets while others are used by documents outside (96
counts calls over >= 500 ids with a live facet that has no member among them); rejected index calls (6% of the
history steps: Persistent / Broken value, raising attribute; measured per 12000 cases: 8371 on a docid with
facets, 4444 facet-less, 1078 withdrawn, 7948 unknown) followed by an observation.
  seeded C13_E  counts() bulk path for IF sets of >= 500 members reports zero counts   MISSED before, now caught
  seeded C13_F  index_doc unindexes before discriminate()                              MISSED before, now caught
  M13a counts(): sized collections (list/tuple/set) of >= 512 docids counted facet by facet, zero counts kept  caught
  M13b index_doc removes the docid from _not_indexed before discriminate()                                      caught
  M13c counts() looks at the first 1024 docids only                                                             caught
"""
import importlib

from lib import zbox
from lib.core import exc_name, idset

ID = "C13"
AUDIT_IMPORTS = ["HypatiaProofs.Properties.C13"]
THEOREMS = ["Hyp.Facet." + t for t in (
    "c13_refinement", "c13_membership", "c13_eq", "c13_any", "c13_all", "c13_docids", "c13_noteq", "c13_index_entry",
    "c13_unmatched_unknown", "c13_counts", "c13_counts_matches_spec", "c13_counts_omitted_absent", "c13_counts_unconfigured_absent")]
CASES = {"quick": 12000, "thorough": 200000}
BUDGET_S = {"quick": 34, "thorough": 660}
RULE = ("facet sets of 1-7 names from an adversarial pool (a, ab, abc, b, bc, c, a:b, a:b:c, ab:c, bc:c, "
        "non-ASCII, empty segments; contains pairs whose concatenations coincide such as {ab,c}/{a,bc}); "
        "histories of 3-40 (thorough: up to 200) index/reindex/unindex/reset/optimize/set-threshold calls over "
        "docids 0..11 plus extreme ids with path lists matching none/some/nested/duplicated facets, empty "
        "lists and withdrawn values; counts(docids, omit_facets) with known, unknown, facet-less, withdrawn and "
        "repeated ids (lists and query results) and omit lists of facets, descendants and unrelated names; "
        "Eq/NotEq/Any/NotAny/All/NotAll through index.applyX and query objects (the any/all argument as list, tuple, "
        "set, frozenset, dict keys view, generator, iterator or map - hash of the command), the inherited apply() itself "
        "(list, tuple, {'query': ..} with operator and/or/absent, bare string), counts() over the index's own "
        "docids()/indexed()/not_indexed(), the enumeration tuple (sometimes twice in a row), identical content "
        "again, unindex twice; segments also upper case, digit, blank, dotted and 40 characters long; both "
        "BTrees families. bulk mode (8% of the cases): 70-400 documents (dense or strided docid runs anywhere in "
        "the family's range, any order) so that the first facet's posting holds 65-400 docids, 60% of them under "
        "the class default tree_threshold (others 64/100/32/200/5), 12% with 121-199 withdrawn documents, 45% "
        "with a drain of that posting back to 58-66 docids (or nothing), optimize(), then a small history on a few "
        "ids and counts() over all ids. big mode (1 case in 160): 520-2000 documents, counts() over 500+ docids "
        "given as list/tuple/IF Set/IF TreeSet (either family)/generator/set/dict keys/query result where some "
        "configured facets are used only by documents outside the counted collection. 6% of the history steps are "
        "index/reindex calls that fail in discriminate() (Persistent, Broken, raising attribute) on known "
        "(with facets / facet-less / withdrawn) and unknown docids, followed by obs / counts / Eq. "
        "non-trivial = some counts answer is non-empty and the answers contain three different values")
LEVEL_TEXT = ("Lean 4 proof: for every configured facet set and every history the model of FacetIndex (with its "
              "posting representation erased) represents the table docid -> {configured facets that are a "
              "':'-prefix of a current path} (keyword refinement invariant, by induction over operations and "
              "over the prefix-expansion loops); counts() with its memo returns for every configured, "
              "non-omitted facet exactly the number of given ids listed under it and nothing else; Eq/Any/All "
              "and negations follow from the C02 theorems. Tied to hypatia/facet by a differential run of the "
              "real FacetIndex against the compiled model and the specification's answer")
LEVEL_NOTE = ("trusted: Lean kernel (propext, Quot.sound, Classical.choice), BTrees semantics as modelled, "
              "str.split(':') / ':'.join as the bijection string <-> non-empty segment list (facets are sent "
              "to the driver as ranked segment lists), sampled correspondence, the harness")
TECHNIQUE = "Lean 4 refinement invariant + loop invariants (prefix expansion, memoised counting) + differential correspondence"

SEGS = ["", "a", "ab", "abc", "b", "bc", "c", "é", "中", "x", "A", "0", " ", "a.b", "a" * 40,
        "a\x1fb", "\x1f", "a\x00b", "a,b", "a|b", "a\tb", "a\nb"]     # separators a memo key might be joined with
SEG_RANK = {s: i for i, s in enumerate(SEGS)}
FACET_POOL = ["a", "ab", "abc", "b", "bc", "c", "a:b", "a:b:c", "ab:c", "bc:c", "a:bc", "é", "é:中", "中",
              "a:b:c:x", "c:a", "", "a:", ":a", "x", "A", "0", "0:0", " ", "a.b", "a" * 40, "a:" + "a" * 40,
              "a\x1fb", "a,b", "a|b", "a\x00b", "a\tb", "a\nb", "\x1f"]
PATH_EXTRA = ["a:b:c:x:x", "a:x", "ab:x", "abc:x", "x:a", "b:c", "c:a:b", "é:中:a", "a::b", ":", "x:x", "A:a", "0:a", " : ",
              "a.b:a"]
IDS64 = list(range(12)) + [2 ** 31 - 1, -2 ** 31, 2 ** 62]
IDS32 = list(range(12)) + [2 ** 31 - 1, -2 ** 31]
QOPS = ["eq", "noteq", "any", "notany", "all", "notall"]
THRS = [1, 2, 3, 5, 64]
BULK_THRS = [64, 64, 64, 100, 32, 200, 5]
BULK_SHARE = 0.08
REJECTS = ["P", "P", "B", "R"]       # value tokens of index calls that raise: Persistent, Broken, raising discriminator
BIG_EVERY = 160                      # one case in BIG_EVERY: 520-2000 documents, counts() over 500+ docids (gen_big)
COLL_KINDS = ["list", "tuple", "ifset", "iftreeset", "gen", "pyset", "ifset-otherfamily", "keys"]


def enc(f):
    return ":".join(str(SEG_RANK[s]) for s in f.split(":"))


def dec(tok):
    return ":".join(SEGS[int(r)] for r in str(tok).split(":"))


def rank_key(f):
    return [SEG_RANK[s] for s in f.split(":")]


class Doc(object):
    pass


def gen_paths(rng, facets):
    r = rng.random()
    pool = FACET_POOL + PATH_EXTRA
    if r < 0.1:
        return []
    if len(facets) >= 2 and rng.random() < 0.25:
        # whole facet names only: documents with different facet sets whose concatenations may coincide
        return rng.sample(facets, rng.randrange(1, min(len(facets), 3) + 1))
    if r < 0.2:
        ps = [rng.choice(PATH_EXTRA) for _ in range(rng.randrange(1, 3))]            # mostly matching none
    elif r < 0.6:
        ps = [rng.choice(facets) + rng.choice(["", "", ":x", ":a:b", ":"]) for _ in range(rng.randrange(1, 4))]
    else:
        ps = [rng.choice(pool) for _ in range(rng.randrange(1, 4))]
    if rng.random() < 0.25:
        ps.append(rng.choice(ps))
    return ps


def gen_query(rng, facets, op=None):
    op = op or rng.choice(QOPS)

    def const():
        return rng.choice(facets) if rng.random() < 0.8 else rng.choice(FACET_POOL)
    if op in ("eq", "noteq"):
        return [op, enc(const())]
    k = rng.choice([0, 1, 2, 2, 3])
    ks = [const() for _ in range(k)]
    if ks and rng.random() < 0.2:
        ks.append(ks[0])
    return [op] + [enc(k) for k in ks]


def gen_counts(rng, ids, facets, kind=None):
    r = rng.random()
    if r < 0.4:
        ds = list(ids)
        rng.shuffle(ds)
        ds = ds[:rng.randrange(0, len(ds) + 1)]
    else:
        ds = [rng.choice(ids) for _ in range(rng.randrange(0, 8))]
    if rng.random() < 0.3:
        ds.append(rng.choice([77, -5, 2 ** 31 - 1]))                                # unknown ids
    r = rng.random()
    if r < 0.45:
        om = []
    elif r < 0.8:
        om = [rng.choice(facets) + rng.choice(["", "", ":x"]) for _ in range(rng.randrange(1, 3))]
    else:
        om = [rng.choice(FACET_POOL + PATH_EXTRA) for _ in range(rng.randrange(1, 3))]
    return ["counts"] + ds + ["|"] + [enc(o) for o in om]


def via(rng, q):
    # NotAll through the query object is finding D2 (a C02/C04 matter): index entry point only
    return [("q" if q[0] == "notall" else rng.choice(["q", "qx"]))] + q


def gen_apply(rng, facets):
    """the inherited KeywordIndex.apply() called directly: list / tuple / {'query': ..} (= All), operator 'or'
    (= Any), a bare string (= Eq)"""
    q = gen_query(rng, facets, rng.choice(["eq", "any", "all", "all"]))
    if q[0] == "eq":
        return ["qa", rng.choice(["s", "l"]), "eq", q[1]]
    if q[0] == "any":
        return ["qa", "do", "any"] + q[1:]
    return ["qa", rng.choice(["l", "t", "d", "da"]), "all"] + q[1:]


def gen_counts_of(rng, facets):
    """counts() fed with the index's own enumerations: docids() / indexed() / not_indexed()"""
    om = [] if rng.random() < 0.6 else [rng.choice(facets) + rng.choice(["", ":x"])]
    return ["countsd", rng.choice(["docids", "docids", "indexed", "notindexed"]), "|"] + [enc(o) for o in om]


def small_ops(rng, ids, facets, cmds, nops, thrs=THRS, allids=None, rejects=False):
    last = {}
    for _ in range(nops):
        r = rng.random()
        d = rng.choice(ids)
        if r < 0.03:
            cmds.append(["reset"])
        elif r < 0.12:
            cmds.append(["unindex", d])
            if rng.random() < 0.15:
                cmds.append(["unindex", d])                                          # once more: now unknown
        elif r < 0.22:
            cmds.append([rng.choice(["index", "reindex"]), d, "none"])
        elif r < 0.27:
            cmds.append(["optimize"])
        elif r < 0.31:
            cmds.append(["setthr", rng.choice(thrs)])
        elif r < 0.37 and d in last:
            cmds.append([rng.choice(["index", "reindex"]), d] + last[d])             # identical content again
        elif rejects and r < 0.43:
            # a call that fails in discriminate() (Persistent / Broken value: ValueError; the discriminator or the
            # attribute itself raises): the index is what it was before, whatever it knew about this docid
            if last and rng.random() < 0.7:
                d = rng.choice(sorted(last))                                          # (probably) still known
            cmds.append([rng.choice(["index", "index", "reindex"]), d, rng.choice(REJECTS)])
            k = rng.random()
            if k < 0.35:
                cmds.append(["obs"])
            elif k < 0.6:
                cmds.append(["counts", d] + rng.sample(ids, min(len(ids), 3)) + ["|"])
            elif k < 0.8:
                cmds.append(["q", "eq", enc(rng.choice(facets))])
            elif k < 0.9:
                cmds.append(gen_counts_of(rng, facets))
        else:
            ps = [enc(p) for p in gen_paths(rng, facets)]
            cmds.append([rng.choice(["index", "index", "reindex"]), d] + ps)
            last[d] = ps
        if rng.random() < 0.2:
            cmds.append(via(rng, gen_query(rng, facets)) if rng.random() < 0.85 else gen_apply(rng, facets))
        if rng.random() < 0.25:
            cmds.append(gen_counts(rng, allids if allids and rng.random() < 0.3 else ids, facets))
        if rng.random() < 0.04:
            cmds.append(gen_counts_of(rng, facets))
        if rng.random() < 0.03:
            cmds.append(["tags"])
        if rng.random() < 0.04:
            cmds.append(["obs"])
            if rng.random() < 0.3:
                cmds.append(["obs"])


def tail(rng, ids, facets, cmds):
    for op in QOPS:
        q = gen_query(rng, facets, op)
        cmds.append(via(rng, q))
    cmds.append(gen_apply(rng, facets))
    for _ in range(3):
        cmds.append(gen_counts(rng, ids, facets))
    cmds.append(["countsq"] + gen_query(rng, facets, "any")[1:] + ["|"])
    cmds.append(gen_counts_of(rng, facets))
    cmds.append(["obs"])
    cmds.append(["tags"])


def gen_history(rng, tier, ids, facets, maxlen):
    cmds = []
    small_ops(rng, ids, facets, cmds, rng.randrange(3, maxlen), rejects=True)
    tail(rng, ids, facets, cmds)
    return cmds


def gen_bulk(rng, tier, fam, facets, rejects=False):
    """size-dependent behaviour: 70-400 documents listed under 1-4 facets, the largest posting holds at least 65
    docids (tree_threshold = 64 by default, > 120 ints per set bucket), optionally > 120 withdrawn documents; then
    a `drain` that brings that posting back to 58..66 docids, an ordinary small history (optimize, threshold
    changes) on a few of the ids, counts() over all ids / query results / the index's own enumerations"""
    import importlib
    c01 = importlib.import_module("props.c01")
    n = c01.bulk_sizes(rng, tier)
    ids = c01.bulk_ids(rng, fam, n)
    hot = facets[0]
    s0 = rng.randrange(65, n + 1) if rng.random() < 0.7 else rng.randrange(65, min(n, 75) + 1)
    paths = []
    for i in range(n):
        ps = [hot + rng.choice(["", "", ":x", ":a:b"])] if i < s0 else []
        ps += [f for f in facets[1:4] if rng.random() < 0.4]
        if rng.random() < 0.1 or not ps:
            ps += gen_paths(rng, facets[1:] or facets) if i >= s0 else gen_paths(rng, facets)
        if rng.random() < 0.1 and ps:
            ps.append(ps[0])
        rng.shuffle(ps)
        paths.append([enc(p) for p in ps])
    nnone = rng.randrange(121, 200) if rng.random() < 0.12 else rng.choice([0, 0, 1, 5])
    top = 2 ** 31 if fam == 32 else 2 ** 63
    extra = [ids[-1] + 1 + i for i in range(nnone)] if ids[-1] + nnone < top else [ids[0] - 1 - i for i in range(nnone)]
    pairs = list(zip(ids, paths)) + [(d, ["none"]) for d in extra]
    order = rng.random()
    if order < 0.5:
        rng.shuffle(pairs)
    elif order < 0.65:
        pairs.reverse()
    cmds = [["index", d] + ps for d, ps in pairs]
    allids = ids + extra
    if rng.random() < 0.5:
        cmds.append(via(rng, gen_query(rng, facets)))
        cmds.append(gen_counts(rng, allids, facets))
    if rng.random() < 0.3:
        cmds.append(["optimize"])
    if rng.random() < 0.45:
        members = ids[:s0]
        members = rng.sample(members, len(members))
        for d in members[(0 if rng.random() < 0.2 else rng.randrange(58, 67)):]:     # 0: the posting goes away
            r = rng.random()
            if r < 0.5:
                cmds.append(["unindex", d])
            elif r < 0.7:
                cmds.append(["index", d, "none"])
            elif r < 0.8:
                cmds.append(["index", d])
            else:
                cmds.append([rng.choice(["index", "reindex"]), d] + [enc(p) for p in gen_paths(rng, facets[1:] or ["x"])])
        cmds.append(via(rng, gen_query(rng, facets, "eq")))
    fresh = [ids[-1] + 1000 + i for i in range(3)] if ids[-1] + 1003 < top else [ids[0] - 1000 - i for i in range(3)]
    some = sorted(set([ids[0], ids[-1]] + rng.sample(ids, 8) + fresh))
    small_ops(rng, some, facets, cmds, rng.randrange(5, 30), thrs=BULK_THRS, allids=allids, rejects=rejects)
    tail(rng, allids if rng.random() < 0.6 else some, facets, cmds)
    return cmds


def gen_big(rng, tier, fam, facets):
    """counts() over LARGE docid collections of every kind (BTrees Set / TreeSet of the index's family or of the
    other one, list, tuple, generator, Python set, dict keys, query results): 520-2000 documents, a counted subset of
    500+ docids whose documents use only some of the configured facets, while the others are used (only, or also)
    by documents OUTSIDE the counted subset - a facet without a member in the given docids is absent from the
    answer whatever way the counting is organised."""
    n = rng.choice([520, 600, 700, 800, 1000, 1000, 1500, 2000])
    if tier == "quick" and n > 1000 and rng.random() < 0.5:
        n = 700
    base = rng.choice([0, 0, -(n // 2), 2 ** 31 - 1 - n, -2 ** 31] + ([2 ** 62 - n] if fam == 64 else []))
    ids = [base + i for i in range(n)]
    uniq = []
    for f in facets:
        if f not in uniq:
            uniq.append(f)
    k_in = rng.randrange(0, len(uniq)) if len(uniq) > 1 else rng.choice([0, 1])
    f_in = uniq[:k_in]              # facets of the documents inside the counted subset
    f_out = uniq[k_in:] or uniq     # facets used by the documents outside
    m = rng.choice([500, 500, 501, 510, n - 20, n - 1, rng.randrange(500, n)])
    m = max(min(m, n - 1), 1)
    inside = set(rng.sample(ids, m)) if rng.random() < 0.5 else set(ids[:m])
    cmds = []
    order = list(ids)
    if rng.random() < 0.4:
        rng.shuffle(order)
    for d in order:
        if d in inside:
            pool = f_in
            r = rng.random()
            if not pool or r < 0.15:
                ps = [] if r < 0.07 else ["none"] if r < 0.1 else [rng.choice(PATH_EXTRA)]
            else:
                ps = [rng.choice(pool) + rng.choice(["", "", ":x"]) for _ in range(rng.choice([1, 1, 2]))]
        else:
            ps = [rng.choice(f_out) + rng.choice(["", "", ":x"]) for _ in range(rng.choice([1, 1, 2]))]
            if rng.random() < 0.3 and f_in:
                ps.append(rng.choice(f_in))
        cmds.append(["index", d] + [p if p == "none" else enc(p) for p in ps])
    sub = sorted(inside)

    def counts_over(ds):
        om = [] if rng.random() < 0.6 else [enc(rng.choice(uniq) + rng.choice(["", ":x"]))]
        ds = list(ds)
        if rng.random() < 0.5:
            rng.shuffle(ds)
        return ["countsk", rng.choice(COLL_KINDS)] + ds + ["|"] + om

    def probes():
        cmds.append(counts_over(sub))
        if rng.random() < 0.6:
            cmds.append(counts_over(sub + rng.sample(sorted(set(ids) - inside), min(n - m, rng.choice([0, 1, 5])))))
        if rng.random() < 0.4:
            cmds.append(counts_over(ids + [ids[-1] + 7 if ids[-1] + 7 < 2 ** 31 else ids[0] - 7]))
        if rng.random() < 0.5:
            cmds.append(["countsq"] + [enc(f) for f in (f_in or uniq)[:2]] + ["|"])
        if rng.random() < 0.3:
            cmds.append(gen_counts_of(rng, facets))
    probes()
    # a small history on a few ids (also: the only users of a facet go away), then the same questions again
    some = rng.sample(sub, 5) + rng.sample(sorted(set(ids) - inside), min(n - m, 5))
    small_ops(rng, some, facets, cmds, rng.randrange(3, 12), thrs=BULK_THRS, rejects=True)
    probes()
    cmds.append(["obs"])
    return cmds


def gen(rng, tier, idx):
    # 12% of the cases keep the index in a ZODB connection with commits / evictions / aborts in between
    return zbox.sprinkle(rng, gen_mem(rng, tier, idx), 0.12)


def gen_mem(rng, tier, idx):
    fam = rng.choice([32, 64])
    ids = IDS32 if fam == 32 else IDS64
    if rng.random() < 0.6:
        ids = ids[:rng.randrange(2, 9)]
    r = rng.random()
    if r < 0.25:
        facets = rng.choice([["ab", "c", "a", "bc"], ["a", "bc", "ab", "c", "abc"], ["é", "中", "é:x", "x"], ["a:b", "c", "a", "b:c"], ["a", "ab", "abc"],
                             ["a", "a:b", "a:b:c", "a:b:c:x"], ["é", "é:中", "中"],
                             ["a", "b", "a\x1fb", "c"], ["a", "b", "a,b"], ["a", "b", "a|b", "a\x00b"],
                             ["a", "b", "a\tb", "a\nb"]])
        facets = facets[:rng.randrange(2, len(facets) + 1)]
    else:
        facets = rng.sample(FACET_POOL, rng.randrange(1, 8))
    if rng.random() < 0.1:
        facets.append(facets[0])
    cfg = [["cfg", "facets"] + [enc(f) for f in facets], ["cfg", "family", fam],
           ["cfg", "disc", rng.choice(["attr", "callable"])], ["cfg", "opt", rng.randrange(2)]]
    if idx % 1000003 % BIG_EVERY == 11:
        return {"session": "facet", "cfg": cfg + [["cfg", "mode", "big"]], "cmds": gen_big(rng, tier, fam, facets)}
    if rng.random() < BULK_SHARE:
        # the class default tree_threshold (no instance attribute) in 60% of the bulk cases
        if rng.random() >= 0.6:
            cfg.append(["cfg", "thr", rng.choice(BULK_THRS)])
        return {"session": "facet", "cfg": cfg + [["cfg", "mode", "bulk"]], "cmds": gen_bulk(rng, tier, fam, facets, rejects=True)}
    maxlen = 40 if tier == "quick" or rng.random() < 0.93 else 200
    if rng.random() < 0.85:
        cfg.append(["cfg", "thr", rng.choice(THRS)])
    return {"session": "facet", "cfg": cfg, "cmds": gen_history(rng, tier, ids, facets, maxlen)}


def model_cmd(c):
    """KeywordIndex.apply() forms named by what they mean (see props/c02.py)"""
    if c[0] == "qa":
        return ["q", c[2]] + list(c[3:])
    if c[0] == "countsk":
        # counts() over a collection of the named kind: a set holds every docid once
        i = c.index("|")
        ds = list(c[2:i])
        if c[1] in ("ifset", "iftreeset", "pyset", "ifset-otherfamily", "keys"):
            ds = sorted(set(ds))
        return ["counts"] + ds + list(c[i:])
    return c


def cfgdict(case):
    return {c[1]: (c[2:] if c[1] == "facets" else c[2]) for c in case.get("cfg", [])}


class FacetImpl(object):
    def __init__(self, hyp, cfg):
        import BTrees
        from hypatia.facet import FacetIndex
        self.fam = BTrees.family32 if cfg.get("family") == 32 else BTrees.family64
        if cfg.get("disc") == "callable":
            disc = zbox.disc_x
        else:
            disc = "x"
        self.opt = bool(cfg.get("opt", 1))
        self.cfg = cfg
        flist = [dec(t) for t in cfg.get("facets", [])]
        import zlib
        shape = zlib.crc32(repr(flist).encode()) % 6
        # the configured facets arrive as any iterable: list, tuple, set, generator, iterator (seeded C13_J
        # iterated the argument twice)
        facets_arg = {0: tuple(flist), 1: set(flist), 2: (f for f in flist), 3: iter(flist)}.get(shape, flist)
        self.idx = FacetIndex(disc, facets_arg, family=self.fam)
        if "thr" in cfg:
            self.idx.tree_threshold = int(cfg["thr"])

    def doc(self, toks):
        o = Doc()
        if toks == ["none"]:
            return o
        if toks == ["P"]:
            from persistent import Persistent

            class P(Persistent):
                pass
            o.x = P()
            return o
        if toks == ["B"]:
            from ZODB.broken import Broken
            o.x = Broken()
            return o
        if toks == ["R"]:
            class Raising(object):
                @property
                def x(self):
                    raise RuntimeError("the discriminated attribute cannot be computed")
            return Raising()
        o.x = [dec(t) for t in toks]
        return o

    def collection(self, kind, ds):
        import BTrees
        if kind == "list":
            return list(ds)
        if kind == "tuple":
            return tuple(ds)
        if kind == "ifset":
            return self.fam.IF.Set(ds)
        if kind == "iftreeset":
            return self.fam.IF.TreeSet(ds)
        if kind == "ifset-otherfamily":
            other = BTrees.family64 if self.fam is BTrees.family32 else BTrees.family32
            if any(not -2 ** 31 <= d < 2 ** 31 for d in ds):
                return BTrees.family64.IF.TreeSet(ds)
            return other.IF.Set(ds)
        if kind == "gen":
            return (d for d in ds)
        if kind == "pyset":
            return set(ds)
        if kind == "keys":
            return dict.fromkeys(ds).keys()
        raise ValueError(kind)

    def query(self, via_object, q, raw=False):
        idx = self.idx
        op = q[0]
        # "an iterable of facets": list, tuple, set, frozenset, dict keys view, generator, iterator, map - decided by a
        # hash of the command (props/c01.py)
        if op in ("eq", "noteq"):
            arg = dec(q[1])
        else:
            c01 = importlib.import_module("props.c01")
            arg = c01.as_iterable(c01.shape_of([via_object] + list(q)), [dec(c) for c in q[1:]])
        if via_object:
            rs = getattr(idx, op)(arg).execute(optimize=self.opt)
            ids = list(rs.ids)
            if len(rs) != len(ids):
                return "len-mismatch %d %d" % (len(rs), len(ids))
            return idset(ids)
        name = {"eq": "applyEq", "noteq": "applyNotEq", "any": "applyAny", "notany": "applyNotAny",
                "all": "applyAll", "notall": "applyNotAll"}[op]
        res = getattr(idx, name)(arg)
        return res if raw else idset(res)

    @staticmethod
    def show_counts(res):
        if not isinstance(res, dict):
            return "not-a-dict %r" % (res,)
        items = sorted(res.items(), key=lambda kv: rank_key(kv[0]))
        return "{" + " ".join("%s=%d" % (enc(k), v) for k, v in items) + "}"

    def counts(self, toks):
        i = toks.index("|")
        ds, om = toks[:i], [dec(t) for t in toks[i + 1:]]
        if len(ds) % 3 == 1:
            ds = tuple(ds)
        if len(om) % 2:
            return self.show_counts(self.idx.counts(ds, tuple(om)))
        if not om and len(ds) % 2:
            return self.show_counts(self.idx.counts(ds))
        return self.show_counts(self.idx.counts(ds, om))

    def obs(self):
        idx = self.idx
        uv = sorted((rank_key(v), enc(v)) for v in idx.unique_values())
        return "indexed=%s ni=%s docids=%s ic=%d nic=%d dc=%d wc=%d uv=[%s]" % (
            idset(idx.indexed()), idset(idx.not_indexed()), idset(idx.docids()), idx.indexed_count(),
            idx.not_indexed_count(), idx.docids_count(), idx.word_count(), " ".join(e for _, e in uv))

    def tags(self):
        if getattr(self, "stale", False):
            return None
        if "thr" not in self.cfg and not getattr(self, "thr_set", False) and self.idx.tree_threshold != 64:
            return None         # class default in force and it is not the modelled 64: representation not compared
        try:
            items = list(self.idx._fwd_index.items())
            Set, TreeSet = self.fam.IF.Set, self.fam.IF.TreeSet
            out = []
            for k, p in items:
                if len(p) == 0:
                    continue
                t = "T" if isinstance(p, TreeSet) else "S" if isinstance(p, Set) else None
                if t is None:
                    return None
                out.append((rank_key(k), "%s/%s%d" % (enc(k), t, len(p))))
            return "tags " + " ".join(s for _, s in sorted(out))
        except (AttributeError, KeyError):
            return None

    def latch(self):
        """an empty posting left in the forward map is a bookkeeping (C06) matter; it can also change which
        container a later insertion re-uses, so from then on the representation probe is not compared"""
        try:
            if any(len(p) == 0 for p in self.idx._fwd_index.values()):
                self.stale = True
        except AttributeError:
            self.stale = True

    def execute(self, c):
        r = self.execute1(c)
        if c[0] in ("index", "reindex", "unindex", "indexstr"):
            self.latch()
        return r

    def execute1(self, c):
        try:
            op = c[0]
            if op == "index":
                self.idx.index_doc(c[1], self.doc(c[2:]))
                return "ok"
            if op == "reindex":
                self.idx.reindex_doc(c[1], self.doc(c[2:]))
                return "ok"
            if op == "unindex":
                self.idx.unindex_doc(c[1])
                return "ok"
            if op == "reset":
                self.idx.reset()
                return "ok"
            if op == "optimize":
                self.idx.optimize()
                return "ok"
            if op == "setthr":
                self.idx.tree_threshold = c[1]
                self.thr_set = True
                return "ok"
            if op == "q":
                return self.query(False, c[1:])
            if op == "qx":
                return self.query(True, c[1:])
            if op == "qa":
                ks = [dec(t) for t in c[3:]]
                arg = {"s": lambda: ks[0], "l": lambda: ks, "t": lambda: tuple(ks), "d": lambda: {"query": ks},
                       "da": lambda: {"query": ks, "operator": "and"},
                       "do": lambda: {"query": ks, "operator": "or"}}[c[1]]()
                return idset(self.idx.apply(arg))
            if op == "countsd":
                # counts() fed with what the index itself enumerates
                i = c.index("|")
                ds = {"docids": self.idx.docids, "indexed": self.idx.indexed, "notindexed": self.idx.not_indexed}[c[1]]()
                return self.show_counts(self.idx.counts(ds, [dec(t) for t in c[i + 1:]]))
            if op == "counts":
                return self.counts(c[1:])
            if op == "countsk":
                i = c.index("|")
                om = [dec(t) for t in c[i + 1:]]
                coll = self.collection(c[1], c[2:i])
                return self.show_counts(self.idx.counts(coll, om) if om else self.idx.counts(coll))
            if op == "countsq":
                # counts() fed with a query result (an IF set), the documented use
                i = c.index("|")
                res = self.query(False, ["any"] + c[1:i], raw=True)
                return self.show_counts(self.idx.counts(res, [dec(t) for t in c[i + 1:]]))
            if op == "obs":
                return self.obs()
            if op == "repr":
                marker = object()
                r = self.idx._rev_index.get(c[1], marker)
                return "none" if r is marker else "[" + " ".join(
                    e for _, e in sorted((rank_key(v), enc(v)) for v in r)) + "]"
            if op == "tags":
                return self.tags()
        except Exception as e:
            return exc_name(e)
        raise ValueError(c)


def impl_run(hyp, case):
    im = FacetImpl(hyp, cfgdict(case))
    if not zbox.is_zodb(case):
        return [im.execute(c) for c in case["cmds"]]
    box = zbox.ZBox({"idx": im.idx})
    try:
        return [box.txn(c, im, ("current",)) if c[0] == "txn" else im.execute(c) for c in case["cmds"]]
    finally:
        box.close()


def same(a, b):
    # posting representations: the specification leaves them free ("tags-any"); the model's choice must
    # still be the implementation's (a mismatch is correspondence drift, not a failing input)
    if isinstance(a, str) and a.startswith("tags"):
        return b == "tags-any" or a.strip() == b.strip()
    return a == b


def neighbourhood(rng, case):
    """a representation-only divergence was found: look nearby for an input on which an answer differs"""
    facets = cfgdict(case).get("facets", [])
    ids = sorted({c[1] for c in case["cmds"] if c[0] in ("index", "reindex", "unindex")})
    cmds = []
    for c in case["cmds"]:
        if c[0] == "tags":
            continue
        cmds.append(c)
        if c[0] not in ("q", "qx", "qa", "obs", "counts", "countsq", "countsd", "countsk"):
            for f in list(facets) + [enc(x) for x in rng.sample(FACET_POOL, 3)]:
                cmds.append(["q", "eq", f])
            cmds.append(["q", "notall"])
            cmds.append(["counts"] + ids + ["|"])
    return dict(case, cmds=cmds)


def nontrivial(case, outs):
    answers = {o for c, o in zip(case["cmds"], outs) if c[0] in ("q", "qx", "qa", "counts", "countsq", "countsd",
                                                                   "countsk")}
    cn = [o for c, o in zip(case["cmds"], outs) if c[0] in ("counts", "countsq", "countsd", "countsk")
          and o not in ("{}",)]
    return len(answers) >= 3 and bool(cn)


def features(case, outs):
    cfg = cfgdict(case)
    facets = [dec(t) for t in cfg.get("facets", [])]
    f = ["family:%s" % cfg.get("family"), "nfacets:%d" % len(set(facets)), "mode:%s" % cfg.get("mode", "small"),
         "thr0:%s" % cfg.get("thr", "class-default")]
    post = {}
    mp = mn = 0
    prev_cmd = None
    cat = {"".join(sorted(c)) for n in range(1, 4) for c in __import__("itertools").combinations(sorted(set(facets)), n)}
    ncomb = sum(1 for n in range(1, 4) for _ in __import__("itertools").combinations(sorted(set(facets)), n))
    if len(cat) < ncomb:
        f.append("facets:concatenation-collision")
    if any(ord(ch) > 127 for x in facets for ch in x):
        f.append("facets:non-ascii")
    state = {}
    fs = set(facets)
    for c, o in zip(case["cmds"], outs):
        if c[0] in ("index", "reindex") and c[2:] in (["P"], ["B"], ["R"]):
            old = state.get(c[1], "unknown")
            f.append("index:rejected(%s):docid-%s" % (c[2], "unknown" if old == "unknown" else "withdrawn" if old == "none"
                                                      else "with-facets" if old else "facetless"))
            prev_cmd = c
            continue
        if c[0] == "countsk":
            i = c.index("|")
            nd = i - 2
            size = "<500" if nd < 500 else "500-999" if nd < 1000 else ">=1000"
            f.append("countsk:%s:%s" % (c[1], size))
            inset = set(c[2:i])
            zero = [x for x, cnt in post.items() if cnt > 0 and not any(
                isinstance(state.get(d), set) and x in state[d] for d in inset)]
            if zero and nd >= 500:
                f.append("countsk:>=500-ids-and-a-live-facet-without-member")
            prev_cmd = c
            continue
        if c[0] in ("index", "reindex", "unindex"):
            old = state.get(c[1])
            for x in (old if isinstance(old, set) else ()):
                post[x] -= 1
        if c[0] == "qa":
            f.append("apply:%s:%s:%s" % (c[1], c[2], "empty" if o == "{}" else "nonempty" if o.startswith("{") else o))
        elif c[0] == "countsd":
            f.append("counts-of:%s:%s" % (c[1], "empty" if o == "{}" else "nonempty" if o.startswith("{") else o))
        elif c[0] == "obs":
            f.append("obs-twice" if prev_cmd == ["obs"] else "obs")
        prev_cmd = c
        if c[0] in ("q", "qx"):
            f.append("%s:%s:%s" % (c[0], c[1], "empty" if o == "{}" else "nonempty" if o.startswith("{") else o))
            if c[1] not in ("eq", "noteq"):
                f.append("query-arg:" + importlib.import_module("props.c01").shape_of([c[0] == "qx"] + list(c[1:])))
        elif c[0] in ("index", "reindex"):
            if c[0] == "reindex":
                f.append("via-reindex_doc")
            if c[2:] == ["none"]:
                f.append("index:none")
                state[c[1]] = "none"
            else:
                paths = [dec(t) for t in c[2:]]
                m = set()
                for p in paths:
                    segs = p.split(":")
                    for i in range(1, len(segs) + 1):
                        if ":".join(segs[:i]) in fs:
                            m.add(":".join(segs[:i]))
                f.append("index:%s" % ("empty-list" if not paths else "match-none" if not m else
                                       "match-1" if len(m) == 1 else "match-nested" if any(
                                           a != b and b.startswith(a + ":") for a in m for b in m) else "match-many"))
                if len(set(paths)) < len(paths):
                    f.append("index:dup-paths")
                state[c[1]] = m
                for x in m:
                    post[x] = post.get(x, 0) + 1
                mp = max(mp, max(post.values(), default=0))
        elif c[0] == "unindex":
            f.append("unindex:%s" % ("known" if c[1] in state else "unknown"))
            state.pop(c[1], None)
        elif c[0] == "reset":
            state = {}
            post = {}
            f.append("reset")
        elif c[0] in ("optimize", "setthr"):
            f.append(c[0])
        elif c[0] == "counts":
            i = c.index("|")
            ds = c[1:i]
            f.append("counts:%s" % ("empty" if o == "{}" else "nonempty" if o.startswith("{") else o))
            if len(c) > i + 1:
                f.append("counts:omit")
            if any(d not in state for d in ds):
                f.append("counts:unknown-id")
            if any(state.get(d) == "none" for d in ds):
                f.append("counts:withdrawn-id")
            if any(state.get(d) == set() for d in ds):
                f.append("counts:facetless-id")
            if len(set(ds)) < len(ds):
                f.append("counts:repeated-id")
            sets = [tuple(sorted(state[d])) for d in set(ds) if isinstance(state.get(d), set) and state[d]]
            if len(set(sets)) < len(sets):
                f.append("counts:memo-hit")
            if len({"".join(s) for s in set(sets)}) < len(set(sets)):
                f.append("counts:colliding-concatenations")
        elif c[0] == "countsq":
            f.append("countsq:%s" % ("empty" if o == "{}" else "nonempty"))
        elif c[0] == "tags" and isinstance(o, str):
            toks = o.split()[1:]
            f.append("tags:%s" % ("tree" if any("/T" in t for t in toks) else "set" if toks else "none"))
        if isinstance(o, str) and o.startswith("err"):
            f.append(o)
    mn = sum(1 for v in state.values() if v == "none")
    f.append("max-posting:" + ("0-16" if mp <= 16 else "17-63" if mp < 64 else "64" if mp == 64 else
                               "65-120" if mp <= 120 else "121-300" if mp <= 300 else ">300"))
    f.append("final-novalue:" + ("0-16" if mn <= 16 else "17-120" if mn <= 120 else ">120"))
    if mp >= 65 and "thr" not in cfg:
        f.append("posting>=65-under-default-threshold")
    return f
