"""C14  Text query parser: documented grammar, clean failure only.

Atoms are data: the streams put every printable ASCII punctuation character, text that means something to
%-formatting / str.format / string.Template / regular expressions / escapes (`%`, `%s`, `%(x)s`, `{}`, `{0}`, `\\`,
NUL, ...), control characters and very long atoms (200 - 20000 characters) into atoms in every syntactic position,
and a dedicated stream places a chosen token at the position a syntax error is reported AT (an atom can be the
offending token only right after a `)`: `(a) X` -> EOF required, `((a) X)` -> `)` required).  Quoted strings
carry each of the 29 white-space characters, the C0 controls, DEL, NEL, NBSP, zero-width space, BOM, LS/PS inside
and glued to the quotes.

Seeded C14_F (`_require` concatenates repr(token) into a %-format string) was missed before and is caught now
(quick, seeds 0-3).  Two more of the class, both VIOLATION on quick seed 0:
  a  parseQuery builds "Query contains only common words: " + repr(query) and applies `% ()` to it - needs a query
     of ignorable atoms only that contains `%` (TypeError / ValueError escape, check_query raises)
  b  the tokenizer regex caps an atom at 4096 characters (`[^()\\s"]{1,4096}`) - needs an atom longer than that
     (it becomes two atoms: another tree)

One long-lived parser (builder wt_strong7): 12% of the cases drive ONE QueryParser instance through 4-10 queries
(`pparse`; parseQueryEx / parseQuery + getIgnored alternate), keep every returned tree and ignored list as the
objects they are, and after every later parse - successful, failing, or the same query once more - read all of
them again (`held`) against the model's answers (parses are values there).  45% of these queries are grammar
queries with 1-3 stop-word terms inserted (non-empty ignored list), 10% only stop words, 10% error positions.
  seeded C14_H  parseQuery clears and refills one `_ignored` list in place                 MISSED before, now caught
  M14c  parseQuery memoises the tree per query string on the instance; on a cache hit the ignored list is the
        one of the previous, different query                                                             caught
"""
import re
import sys

from lib.core import exc_name

ID = "C14"
AUDIT_IMPORTS = ["HypatiaProofs.Properties.C14"]
THEOREMS = ["Hyp.QP." + t for t in (
    "c14_check_query", "c14_sound", "c14_complete", "c14_parse_iff_grammar_tokens", "c14_parse_iff_grammar",
    "c14_grammar_unambiguous", "c14_reject_iff_no_derivation", "c14_only_stop_words_rejected", "c14_well_formed",
    "c14_exec_ok_iff_executable", "c14_accepted_executable", "c14_ignored_are_the_stop_atoms",
    "c14_tokens_shape", "c14_scan_conserves", "c14_keywords_case_insensitive", "c14_quoted_is_atom")]
CASES = {"quick": 6400, "thorough": 200000}
BUDGET_S = {"quick": 35, "thorough": 700}
BATCH = 40
RULE = ("each case = 8 query strings x (parse, check, exec) against QueryParser(lexicon).parseQueryEx, "
        "TextIndex.parse_query/check_query/apply with one of four real lexicon pipelines; strings are "
        "(a) generated from the grammar (OrExpr/AndExpr/Term/ATOM+ with AND, AND NOT, NOT, parentheses to "
        "depth 4, hyphens, quoted phrases, punctuation-joined words, globs, stop words, mixed-case keywords, "
        "29 kinds of white space, up to ~14 tokens), (b) the same with 1-3 token-level edits (drop/insert/"
        "swap/duplicate; 25% of the inserted tokens are 'weird' atoms), (b') 8% error-position stream: a chosen "
        "token (60% weird atom, 15% quoted string with control characters) right after a `)`, the query cut "
        "where more is required, or a keyword / `)` after an operator, (c) character noise over ( ) \" - * ? "
        "letters keywords Unicode spaces (half of it additionally over all ASCII punctuation, 80 format-like "
        "fragments and 46 control / white-space characters), (d) only "
        "stop words / only negations / empty, (e) nesting to depth 5000 (balanced, unbalanced, alternating "
        "OR/AND so that the tree is deep too); extra: every token sequence of length <= 4 (thorough 5) over "
        "{AND OR NOT ( ) foo -bar the \"x y\" q*} and every string of length <= 5 (thorough 7) over "
        "{( ) \" - a U+3000}; 11% of all atoms are weird atoms (fragment alone / word+fragment / punctuation "
        "run / two fragments / fragment+glob / 3%: one of 10 units repeated 200-20000 times), 5% quoted strings "
        "with control characters (a quarter glued to a neighbour); 12% of the cases: one QueryParser instance for "
        "4-10 queries in a row (pparse), all trees and ignored lists handed out so far re-read after every later "
        "parse (held) - quick seed 0: 750 such sessions, 951 successful and 1691 failing later parses while a "
        "non-empty ignored list of an earlier query was held, 752 repeated queries. Measured quick seed 0 (51200 generated queries): "
        "tokens containing % 14921, containing { \\ or $ 16059, tokens >= 200 chars 1231, quoted strings with a "
        "control / Unicode-space character 8495 (newline 712, NUL 436); ParseErrors reported AT an atom 1612 "
        "(required-EOF 839, required-) 773), of which the atom has % 296, { 128, backslash 133, NUL 53, a control "
        "character 182, >= 200 chars 30, is a quoted string 270; non-trivial = the case has an accepted query "
        "with an operator node and a rejected one")
TRUSTED = ["the lexicon is not modelled here: per ATOM token the real lexicon.parseTerms result is handed to the "
           "model as a cfg line (the lexicon itself is property C15)",
           "re-validated on every run over all 1 114 112 code points: the set matched by \\s, and that no "
           "non-ASCII character upper-cases into letters of AND/OR/NOT"]
ASSUMPTIONS = ["the index primitives search/search_phrase/search_glob and the set operations do not raise "
               "(C03/C15/C17); checked here by executing every accepted query on a small real TextIndex",
               "nesting deeper than the interpreter's recursion limit is rejected with ParseError by the "
               "implementation (fix D9) where the model returns a tree: tolerated for depth > 200 only"]

RX = re.compile(r'[()]|-?(?:"[^"]*"|[^()\s"]+)')        # harness' own copy, to know the ATOM tokens
SPACES = [c for c in range(sys.maxunicode + 1) if re.match(r"\s", chr(c))]
WORDS = ["foo", "bar", "baz", "qux", "x", "ham", "Foo", "BAR", "café", "中文", "w1", "a_b",
         "İstanbul", "straße"]
STOPS = ["the", "and", "a", "of", "The", "AN", "or", "not", "is"]
KEYWORDS = {"AND": ["AND", "and", "And", "aNd", "anD"], "OR": ["OR", "or", "Or", "oR"],
            "NOT": ["NOT", "not", "Not", "nOt", "noT"]}
PIPELINES = ["default", "nostop", "html", "single"]
DOCS = ["foo bar baz", "foo qux x ham", "bar bar foo", "the foo of bar", "café 中文 w1 a_b",
        "ham x qux baz bar", "fooo food fob bat", ""]


def enc(s):
    return "u" + ".".join("%x" % ord(c) for c in s)


def dec(t):
    return "".join(chr(int(x, 16)) for x in t[1:].split(".")) if len(t) > 1 else ""


# ---------------------------------------------------------------------------- implementation side
_LEX = {}


def make_lexicon(name):
    from hypatia.text.lexicon import Lexicon, Splitter, CaseNormalizer, StopWordRemover, \
        StopWordAndSingleCharRemover
    from hypatia.text.htmlsplitter import HTMLWordSplitter
    if name == "nostop":
        return Lexicon(Splitter(), CaseNormalizer())
    if name == "html":
        return Lexicon(HTMLWordSplitter(), StopWordRemover())
    if name == "single":
        return Lexicon(Splitter(), CaseNormalizer(), StopWordAndSingleCharRemover())
    return Lexicon(Splitter(), CaseNormalizer(), StopWordRemover())


def lexicon_for_terms(name):
    if name not in _LEX:
        _LEX[name] = make_lexicon(name)
    return _LEX[name]


def make_case(pipeline, queries, ops=("parse", "check", "exec")):
    """cfg lines carry the white-space set and, for every ATOM token, the REAL parseTerms result"""
    lex = lexicon_for_terms(pipeline)
    cfg = [["cfg", "lexicon", pipeline], ["cfg", "space"] + ["%x" % c for c in SPACES]]
    seen = set()
    for q in queries:
        for t in RX.findall(q):
            if t not in seen:
                seen.add(t)
                try:
                    ws = list(lex.parseTerms(t))
                except Exception:
                    ws = []
                cfg.append(["cfg", "terms", enc(t), "|"] + [enc(w) for w in ws])
    cmds = []
    for q in queries:
        for op in ops:
            cmds.append([op, enc(q)])
            if op == "pparse" and sum(1 for c in cmds if c[0] == "pparse") > 1:
                cmds.append(["held"])       # everything handed out so far, re-read after this parse
    return {"session": "qparser", "cfg": cfg, "cmds": cmds}


def sexpr(tree):
    """s-expression of a parse tree through nodeType()/getValue(); iterative (trees can be deep)"""
    out = []
    stack = [tree]
    while stack:
        t = stack.pop()
        if isinstance(t, str):
            out.append(t)
            continue
        nt = t.nodeType()
        v = t.getValue()
        if nt == "ATOM":
            out.append("(atom %s)" % enc(v))
        elif nt == "GLOB":
            out.append("(glob %s)" % enc(v))
        elif nt == "PHRASE":
            out.append("(phrase %s)" % " ".join(enc(w) for w in v))
        elif nt == "NOT":
            out.append("(not ")
            stack.append(")")
            stack.append(v)
        elif nt in ("AND", "OR"):
            out.append("(%s" % nt.lower())
            stack.append(")")
            for c in reversed(list(v)):
                stack.append(c)
                stack.append(" ")
        else:
            out.append("(?%s)" % nt)
    return "".join(out)


def nesting(q):
    d = m = 0
    for t in RX.findall(q):
        if t == "(":
            d += 1
            m = max(m, d)
        elif t == ")":
            d -= 1
    return m


class Impl(object):
    def __init__(self, pipeline):
        from hypatia.text import TextIndex
        self.lex = make_lexicon(pipeline)
        self.index = TextIndex("text", lexicon=self.lex)
        self.parser = None
        self.held = []

        class Doc(object):
            pass
        for i, text in enumerate(DOCS):
            d = Doc()
            d.text = text
            self.index.index_doc(i + 1, d)

    def err(self, e, q):
        from hypatia.text.parsetree import ParseError
        if type(e) is ParseError:
            return "err ParseError" + (" deep" if nesting(q) > 200 else "")
        return exc_name(e) + ("" if type(e).__name__ != "ParseError" else " (foreign class)")

    def render_held(self, h):
        """what the caller holds for one earlier `pparse`, as it looks NOW"""
        if isinstance(h, str):
            return h
        tree, ignored, also = h
        r = "ok %s ign=[%s]" % (sexpr(tree), " ".join(enc(x) for x in ignored))
        if also is not None and list(also) != list(ignored):
            r += " getIgnored()-at-that-time=[%s]" % " ".join(enc(x) for x in also)
        return r

    def run(self, op, q):
        from hypatia.text.queryparser import QueryParser
        if op == "pparse":
            # ONE parser for the whole session; the returned tree and ignored list are kept (not copied)
            if self.parser is None:
                self.parser = QueryParser(self.lex)
            p = self.parser
            try:
                if len(self.held) % 3 == 2:
                    tree = p.parseQuery(q)
                    ignored = also = p.getIgnored()
                else:
                    tree, ignored = p.parseQueryEx(q)
                    also = p.getIgnored() if len(self.held) % 3 == 1 else None
                self.held.append((tree, ignored, also))
            except Exception as e:
                self.held.append(self.err(e, q))
            return self.render_held(self.held[-1])
        if op == "held":
            try:
                return " ; ".join(self.render_held(h) for h in self.held)
            except Exception as e:
                return "held-unreadable " + exc_name(e)
        if op == "parse":
            try:
                p = QueryParser(self.lex)
                tree, ignored = p.parseQueryEx(q)
                r = "ok %s ign=[%s]" % (sexpr(tree), " ".join(enc(x) for x in ignored))
            except Exception as e:
                r = self.err(e, q)
            try:
                r2 = "ok " + sexpr(self.index.parse_query(q))
            except Exception as e:
                r2 = self.err(e, q)
            if r2 != (r.split(" ign=[")[0] if r.startswith("ok") else r):
                return "inconsistent parseQueryEx=%s parse_query=%s" % (r, r2)
            return r
        if op == "check":
            try:
                r = self.index.check_query(q)
                if r is True:
                    return "True"
                if r is False:
                    return "False" + (" deep" if nesting(q) > 200 else "")
                return "non-bool %r" % (r,)
            except Exception as e:
                return self.err(e, q)
        if op == "exec":
            try:
                self.index.apply(q)
                return "ok"
            except Exception as e:
                return self.err(e, q)
        raise ValueError(op)


def cfgdict(case):
    return {c[1]: c[2] for c in case.get("cfg", []) if len(c) > 2 and c[1] == "lexicon"}


def impl_run(hyp, case):
    im = Impl(cfgdict(case).get("lexicon", "default"))
    return [im.run(c[0], dec(c[1]) if len(c) > 1 else "") for c in case["cmds"]]


def same(a, b):
    """a = implementation, b = model/spec.  Beyond depth 200 the implementation may run out of
    interpreter stack and answer ParseError (fix D9) where the model has an answer."""
    if a == b:
        return True
    if a == "err ParseError deep":
        return b == "err ParseError" or b.startswith("ok")
    if a == "False deep":
        return b in ("True", "False")
    return False


# ---------------------------------------------------------------------------- generators
def kw(rng, k):
    return rng.choice(KEYWORDS[k]) if rng.random() < 0.6 else k


def gen_word(rng):
    r = rng.random()
    if r < 0.22:
        return rng.choice(STOPS)
    return rng.choice(WORDS)


# every printable ASCII character that can sit inside an atom and is not a letter or digit
PUNCT = [chr(c) for c in range(33, 127) if not chr(c).isalnum() and chr(c) not in '()"']
# text that means something to %-formatting, str.format, string.Template, regular expressions, escapes,
# C strings, HTML - an atom is data and must stay data wherever it ends up (tree, ignored list, error message)
FRAGS = ["%", "%%", "%s", "%r", "%d", "%i", "%c", "%a", "%5", "%.", "%.3f", "%-5s", "%*d", "% d", "%(", "%(x)s",
         "%(x)", "%)", "%\x00", "%\n", "50%", "5%s", "%s%s", "{}", "{0}", "{1}", "{x}", "{0!r}", "{:>5}", "{", "}",
         "{{", "}}", "{0", "\\", "\\\\", "\\n", "\\x", "\\u12", "\\N{", "\\1", "\\g<0>", "$", "$x", "${x}", "$$",
         "\x00", "\x00\x00", "a\x00b", "\x01", "\x07", "\x08", "\x1b[0m", "\x7f", "&amp;", "<b>", "</b>", "<", ">",
         "[", "]", "[a-", "a]", "^", "|", "+", ".*", "(?", "(?P<", "\\Z", "'", "''", "`", "#", ";", "--", "/*", "=",
         "\udcff", "\ufffe", "\U0010ffff"]
# white space and control characters for the inside / the neighbourhood of quotes
CONTROLS = [chr(c) for c in list(range(0, 32)) + [0x7f, 0x85, 0xa0, 0x1680, 0x2000, 0x2003, 0x200a, 0x200b, 0x2028,
                                                    0x2029, 0x202f, 0x205f, 0x3000, 0xfeff]]
LONG = [200, 200, 300, 1000, 1000, 5000, 20000]


def gen_weird_atom(rng):
    """an atom full of characters that are special somewhere else; may contain ( ) or a space, in which case it
    is several tokens - equally fine"""
    r = rng.random()
    if r < 0.28:
        a = rng.choice(FRAGS)
    elif r < 0.56:
        w = rng.choice(WORDS[:7] + ["5", "50", "x"])
        f = rng.choice(FRAGS)
        a = rng.choice([w + f, f + w, w + f + rng.choice(WORDS[:7]), f + w + f])
    elif r < 0.74:
        a = "".join(rng.choice(PUNCT) if rng.random() < 0.7 else rng.choice("abx05")
                    for _ in range(rng.randrange(1, 7)))
    elif r < 0.86:
        a = rng.choice(FRAGS) + rng.choice(FRAGS)
    elif r < 0.97:
        a = rng.choice(WORDS[:4]) + rng.choice(FRAGS) + rng.choice(["*", "?", "*?", "?*x"])
    else:
        a = rng.choice(["a", "%", "ab%s", "é", "\\", "{}", "x.", "-", "q?", "\x00"]) * rng.choice(LONG)
    if rng.random() < 0.1:
        a = "-" + a
    return a


def gen_quoted(rng):
    """a quoted string with white space / control characters / special text inside"""
    parts = []
    for _ in range(rng.randrange(0, 5)):
        r = rng.random()
        if r < 0.4:
            parts.append(gen_word(rng))
        elif r < 0.7:
            parts.append(rng.choice(CONTROLS) if rng.random() < 0.7 else chr(rng.choice(SPACES)))
        elif r < 0.85:
            parts.append(rng.choice(FRAGS).replace('"', ""))
        else:
            parts.append(rng.choice(["(", ")", "AND", "or", "NOT", "-", "*", " ", "  "]))
    sep = rng.choice(["", " ", " ", rng.choice(CONTROLS)])
    return '"' + sep.join(parts) + '"'


def gen_atom(rng):
    r = rng.random()
    if r < 0.11:
        return gen_weird_atom(rng)
    if r < 0.16:
        a = gen_quoted(rng)
        if rng.random() < 0.25:     # glued to its neighbours: control characters / words right at the quotes
            a = rng.choice([rng.choice(CONTROLS), gen_word(rng), ""]) + a + rng.choice([rng.choice(CONTROLS),
                                                                                        gen_word(rng), ""])
        return ("-" if rng.random() < 0.13 else "") + a
    r = rng.random()
    if r < 0.45:
        a = gen_word(rng)
    elif r < 0.6:
        a = '"%s"' % " ".join(rng.choice([gen_word(rng), gen_word(rng), rng.choice(["AND", "or", "(", ")", "-", "*"])])
                              for _ in range(rng.randrange(0, 4)))
    elif r < 0.72:
        a = rng.choice("-./'_:,").join(gen_word(rng) for _ in range(rng.randrange(2, 4)))
    elif r < 0.87:
        w = rng.choice(WORDS[:7])
        a = rng.choice([w + "*", w[0] + "?" + w[1:], "*" + w, w + "?*", "?", "*", w[:1] + "*" + w[1:] + "?"])
    elif r < 0.93:
        a = rng.choice(["-", "--", "-*", "'", ".", "AND-", "NOTE", "ORE", "ANDY", "EOF", "ATOM", "ı", "and.", "nöt"])
    else:
        a = rng.choice(STOPS) + rng.choice(["", ".", "-", " "]).strip() + ""
    if rng.random() < 0.13:
        a = "-" + a
    return a


def gen_term(rng, depth, budget):
    if depth < 4 and rng.random() < 0.3:
        return ["("] + gen_or(rng, depth + 1, budget) + [")"]
    n = rng.choice([1, 1, 1, 2, 2, 3, 4])
    return [gen_atom(rng) for _ in range(n)]


def gen_and(rng, depth, budget):
    ts = gen_term(rng, depth, budget)
    for _ in range(rng.choice([0, 0, 1, 1, 2, 3])):
        if len(ts) > budget[0]:
            break
        r = rng.random()
        if r < 0.4:
            ts += [kw(rng, "AND")]
        elif r < 0.7:
            ts += [kw(rng, "AND"), kw(rng, "NOT")]
        else:
            ts += [kw(rng, "NOT")]
        ts += gen_term(rng, depth, budget)
    return ts


def gen_or(rng, depth, budget):
    ts = gen_and(rng, depth, budget)
    for _ in range(rng.choice([0, 0, 1, 1, 2])):
        if len(ts) > budget[0]:
            break
        ts += [kw(rng, "OR")] + gen_and(rng, depth, budget)
    return ts


def join(rng, toks):
    out = []
    for i, t in enumerate(toks):
        if i:
            prev = toks[i - 1]
            tight = (prev in "()" or t in "()" or prev.endswith('"') and rng.random() < 0.3) and rng.random() < 0.5
            if not tight:
                r = rng.random()
                if r < 0.8:
                    out.append(" ")
                elif r < 0.9:
                    out.append(chr(rng.choice(SPACES)))
                else:
                    out.append("".join(chr(rng.choice(SPACES)) for _ in range(rng.randrange(1, 4))))
        out.append(t)
    s = "".join(out)
    if rng.random() < 0.1:
        s = chr(rng.choice(SPACES)) + s
    if rng.random() < 0.1:
        s += chr(rng.choice(SPACES))
    return s


EDIT_TOKENS = ["(", ")", "AND", "OR", "NOT", "and", "not", "or", '"', "-", "the", "foo", "-bar", '"x y"', "q*"]


def edit(rng, toks):
    toks = list(toks)
    for _ in range(rng.randrange(1, 4)):
        r = rng.random()
        if r < 0.35 and toks:
            del toks[rng.randrange(len(toks))]
        elif r < 0.7:
            toks.insert(rng.randrange(len(toks) + 1),
                        rng.choice(EDIT_TOKENS) if rng.random() < 0.75 else gen_weird_atom(rng))
        elif r < 0.85 and len(toks) > 1:
            i = rng.randrange(len(toks) - 1)
            toks[i], toks[i + 1] = toks[i + 1], toks[i]
        elif toks:
            i = rng.randrange(len(toks))
            toks.insert(i, toks[i])
    return toks


NOISE = ["(", ")", '"', "-", "*", "?", " ", " ", "a", "b", "foo", "the", "AND", "OR", "NOT", "and", "or", "not",
         "\t", "\n", " ", "　", " ", "\x1c", "\x85", "​", "﻿", ".", "'", "\\", "é",
         "\U0001f600", "\ud800", "\x00", "0", "_"]


def gen_noise(rng):
    r = rng.random()
    if r < 0.5:
        alpha = NOISE
    elif r < 0.8:       # all of printable ASCII punctuation, format-like fragments, control characters
        alpha = NOISE + PUNCT + FRAGS + CONTROLS
    else:
        alpha = ["(", ")", '"', " ", "a"] + PUNCT + FRAGS
    return "".join(rng.choice(alpha) for _ in range(rng.randrange(0, 16)))


def culprit(rng):
    """the token a syntax error will be reported AT"""
    r = rng.random()
    if r < 0.6:
        return gen_weird_atom(rng)
    if r < 0.75:
        return gen_quoted(rng)
    if r < 0.9:
        return gen_atom(rng)
    return rng.choice(["EOF", "'", "-", "%", "ATOM", "None", "\\"])


def gen_errpos(rng):
    """malformed on purpose, with a chosen token at the position the parser stops at: an atom can be the
    offending token only right after a `)` (`(a) X`: EOF required, `((a) X)`: `)` required); every other position
    reports a keyword, a parenthesis or the end of the query"""
    toks = gen_or(rng, 0, [rng.choice([2, 4, 8])])
    r = rng.random()
    if r < 0.75:
        if ")" not in toks or rng.random() < 0.4:
            a = rng.randrange(len(toks))
            depth = 0
            b = a
            # close the parenthesis at a point of equal depth
            for j in range(a, len(toks)):
                depth += toks[j] == "("
                depth -= toks[j] == ")"
                if depth < 0:
                    break
                if depth == 0:
                    b = j
                    if rng.random() < 0.4:
                        break
            toks = toks[:a] + ["("] + toks[a:b + 1] + [")"] + toks[b + 1:]
        k = rng.choice([i for i, t in enumerate(toks) if t == ")"])
        toks.insert(k + 1, culprit(rng))
        if rng.random() < 0.3:
            toks = ["("] + toks + [")"]
        if rng.random() < 0.2:
            toks.insert(k + 2, culprit(rng))
    elif r < 0.85:
        # the query ends where more is required
        toks = toks[:rng.randrange(len(toks) + 1)] + [rng.choice(["(", kw(rng, "AND"), kw(rng, "OR"), kw(rng, "NOT")])]
    else:
        ops = [i for i, t in enumerate(toks) if t == "(" or t.upper() in ("AND", "OR", "NOT")]
        k = rng.choice(ops) if ops else -1
        toks.insert(k + 1, rng.choice([")", kw(rng, "AND"), kw(rng, "OR"), ")", kw(rng, "NOT")]))
    return join(rng, toks)


def gen_special(rng):
    r = rng.random()
    if r < 0.2:
        return join(rng, [rng.choice(STOPS) for _ in range(rng.randrange(0, 5))])
    if r < 0.4:
        return join(rng, ["-" + rng.choice(WORDS + STOPS) for _ in range(rng.randrange(1, 4))])
    if r < 0.5:
        return ""
    if r < 0.7:
        ops = [kw(rng, rng.choice(["AND", "OR", "NOT"])) for _ in range(rng.randrange(1, 4))]
        if rng.random() < 0.5:
            ops.insert(rng.randrange(len(ops) + 1), gen_atom(rng))
        return join(rng, ops)
    if r < 0.85:
        return join(rng, [rng.choice(["(", ")", "(", "foo", '"']) for _ in range(rng.randrange(1, 8))])
    return '"' * rng.randrange(1, 5) + rng.choice(["", "foo", "foo bar", "-"]) + '"' * rng.randrange(0, 3)


def gen_deep(rng):
    d = rng.choice([30, 100, 150, 199, 201, 250, 300, 320, 340, 400, 1000, 5000])
    r = rng.random()
    w = rng.choice(["foo", "the", "-foo", "foo bar", '"x y"'])
    if r < 0.35:
        return "(" * d + w + ")" * d
    if r < 0.5:
        return "(" * d + w + ")" * (d - rng.randrange(1, 3))
    if r < 0.6:
        return "(" * d + w + ")" * (d + rng.randrange(1, 3))
    if r < 0.7:
        return "(" * d
    # alternating OR / AND nesting: the tree is deep as well
    d = min(d, rng.choice([30, 100, 150, 250, 400]))
    parts = []
    for i in range(d):
        parts.append("w%d %s (" % (i % 3, rng.choice(["OR", "AND", "AND NOT", "NOT"]) if rng.random() < 0.3
                                   else ("OR" if i % 2 else "AND")))
    return "foo OR (" + "".join(parts) + "bar" + ")" * (d + 1)


def gen_query(rng):
    r = rng.random()
    if r < 0.45:
        return join(rng, gen_or(rng, 0, [rng.choice([4, 8, 12, 14])]))
    if r < 0.64:
        return join(rng, edit(rng, gen_or(rng, 0, [rng.choice([4, 8, 12])])))
    if r < 0.72:
        return gen_errpos(rng)
    if r < 0.85:
        return gen_noise(rng)
    if r < 0.985:
        return gen_special(rng)
    return gen_deep(rng)


def gen_reuse_query(rng):
    """queries for a long-lived parser: half of them carry terms the lexicon drops (ignored list non-empty),
    a fifth fail; never the deep ones (the answers of a whole session are compared as one line)"""
    r = rng.random()
    if r < 0.45:
        toks = gen_or(rng, 0, [rng.choice([3, 5, 8])])
        for _ in range(rng.choice([1, 1, 2, 3])):
            stop = rng.choice(STOPS)
            toks.insert(rng.randrange(len(toks) + 1),
                        rng.choice([stop, stop, "-" + stop, '"%s %s"' % (stop, rng.choice(STOPS))]))
        return join(rng, toks)
    if r < 0.55:
        return " ".join(rng.choice(STOPS) for _ in range(rng.randrange(1, 4)))      # only stop words: fails
    if r < 0.65:
        return gen_errpos(rng)
    while True:
        q = gen_query(rng)
        if nesting(q) <= 100:
            return q


REUSE_P = 0.12      # share of the cases that drive ONE QueryParser instance through 4-8 queries


def gen(rng, tier, idx):
    pipeline = rng.choice(PIPELINES) if rng.random() < 0.5 else "default"
    if rng.random() < REUSE_P:
        qs = [gen_reuse_query(rng) for _ in range(rng.randrange(4, 9))]
        for _ in range(rng.choice([0, 1, 1, 2])):
            qs.insert(rng.randrange(1, len(qs) + 1), rng.choice(qs))     # the same query again later
        return make_case(pipeline, qs, ops=("pparse",))
    return make_case(pipeline, [gen_query(rng) for _ in range(8)])


# ---------------------------------------------------------------------------- measurement
def found_kind(q):
    """which token the parser stops at when it reports `Token X required, Y found` (computed from the harness'
    own tokenizer and the model's answer being an error: the first token a prefix-valid parse cannot take is
    not needed here - only what KIND of token follows a `)`)"""
    toks = RX.findall(q)
    out = set()
    for i, t in enumerate(toks[:-1]):
        n = toks[i + 1]
        if t == ")" and n not in "()" and n.upper() not in ("AND", "OR", "NOT"):
            body = n[1:] if n.startswith("-") else n
            k = "quoted" if body.startswith('"') else "atom"
            out.add("atom-after-):" + k)
            for ch, name in (("%", "percent"), ("{", "brace"), ("\\", "backslash"), ("\x00", "NUL"), ("$", "dollar")):
                if ch in n:
                    out.add("atom-after-):has-" + name)
            if any(ord(c) < 32 or ord(c) == 127 for c in n):
                out.add("atom-after-):has-control-char")
            if len(n) >= 200:
                out.add("atom-after-):long>=200")
    return out


def err_kind(hyp, pipeline, q):
    from hypatia.text.queryparser import QueryParser
    try:
        QueryParser(lexicon_for_terms(pipeline)).parseQuery(q)
    except Exception as e:
        m = str(e)
        if "required, " in m and m.endswith(" found"):
            fnd = m.split("required, ", 1)[1][:-6]
            if fnd[:1] in "'\"" and fnd not in ("'EOF'", "'('", "')'") and fnd[1:-1].upper() not in ("AND", "OR", "NOT"):
                return ("required-EOF" if "Token 'EOF'" in m else "required-)" if "Token ')'" in m
                        else "required-ATOM") + ":atom-found"
        for k, v in (("Token 'ATOM'", "required-ATOM"), ("Token ')'", "required-)"), ("Token 'EOF'", "required-EOF"),
                     ("at least one positive", "no-positive-word"), ("only common words", "only-common-words"),
                     ("nested too deeply", "nested-too-deeply")):
            if k in m:
                return v
        return "other-message"
    return "none"


def nontrivial(case, outs):
    ok = any(c[0] in ("parse", "pparse") and o.startswith("ok") and ("(and" in o or "(or" in o or "(not" in o)
             for c, o in zip(case["cmds"], outs))
    bad = any(c[0] in ("parse", "pparse") and o.startswith("err") for c, o in zip(case["cmds"], outs))
    return ok and bad


def features(case, outs):
    f = ["lexicon:" + cfgdict(case).get("lexicon", "default")]
    pipeline = cfgdict(case).get("lexicon", "default")
    reuse = [(c, o) for c, o in zip(case["cmds"], outs) if c[0] == "pparse"]
    if reuse:
        # one long-lived parser: how many earlier answers with a non-empty ignored list are still held when a
        # later parse (successful / failing / the same query again) runs
        f.append("mode:parser-reuse")
        f.append("reuse:parses=%d" % len(reuse))
        seenq = set()
        held_ign = 0
        for c, o in reuse:
            if held_ign:
                f.append("reuse:later-parse-%s-while-nonempty-ignored-held" % ("ok" if o.startswith("ok") else "fails"))
            if c[1] in seenq:
                f.append("reuse:same-query-again")
            seenq.add(c[1])
            if o.startswith("ok") and not o.endswith("ign=[]"):
                held_ign += 1
    for c, o in zip(case["cmds"], outs):
        if c[0] == "held":
            continue
        q = dec(c[1])
        if c[0] == "exec":
            f.append("exec:" + o)
            continue
        if c[0] == "check":
            f.append("check:" + o)
            continue
        toks = RX.findall(q)
        n = len(toks)
        f.append("tokens:%s" % ("0" if n == 0 else "1-3" if n <= 3 else "4-8" if n <= 8 else "9-14" if n <= 14
                                else "15-99" if n < 100 else "100+"))
        d = nesting(q)
        f.append("depth:%s" % ("0" if d == 0 else "1-2" if d <= 2 else "3-5" if d <= 5 else "6-200" if d <= 200
                               else "201-330" if d <= 330 else "331+"))
        if o.startswith("ok"):
            f.append("parse:ok")
            for node in ("(and", "(or", "(not", "(phrase", "(glob", "(atom"):
                if node in o:
                    f.append("node:" + node[1:])
            if not o.endswith("ign=[]"):
                f.append("ignored-nonempty")
            if re.search(r"\(and [^()]*\([a-z]+ [^()]*\) \(not", o):
                f.append("and-with-not-child")
        elif o.startswith("err ParseError"):
            f.append("parse:" + o)
            ek = err_kind(None, pipeline, q)
            f.append("error:" + ek)
            if ek.endswith(":atom-found"):
                f.append("error:atom-found")
                for k in found_kind(q):
                    f.append("error:" + k)
        else:
            f.append("parse:" + o.split(" ")[0] + " " + o.split(" ")[1] if " " in o else o)
        if q.count('"') % 2 == 1:
            f.append("odd-quotes")
        for t in toks:
            if t not in "()" :
                if "%" in t:
                    f.append("token-with-percent")
                if "{" in t or "\\" in t or "$" in t:
                    f.append("token-with-brace-backslash-dollar")
                if len(t) >= 200:
                    f.append("token-long>=200")
                if '"' in t and any((ord(c) < 32 or ord(c) in (127, 0x85) or ord(c) > 127 and ord(c) in SPACES_SET)
                                    for c in t):
                    f.append("quoted-with-control-or-unicode-space")
                    if "\n" in t or "\r" in t:
                        f.append("quoted-with-newline")
                    if "\x00" in t:
                        f.append("quoted-with-NUL")
        if any(t == "-" for t in toks):
            f.append("lone-hyphen-token")
        if any(t.startswith('-"') for t in toks):
            f.append("hyphen-quoted-token")
        if any(ord(ch) > 127 and ord(ch) in SPACES_SET for ch in q):
            f.append("unicode-space")
        if any(t.upper() in ("AND", "OR", "NOT") and t != t.upper() for t in toks):
            f.append("mixed-case-keyword")
        if any(t[0] != '"' and t.lstrip("-")[:1] != '"' and len(RX.findall(t)) == 1 and
               re.search(r"\w[^\w*?]+\w", t) for t in toks):
            f.append("punctuation-joined")
    return f


SPACES_SET = set(SPACES)


def shrink_more(case, fails):
    """shrink the query string of the (single) remaining command character by character"""
    pipeline = cfgdict(case).get("lexicon", "default")
    cmds = case["cmds"]
    if not cmds:
        return case
    if len(cmds) != 1 or cmds[0][0] not in ("parse", "check", "exec"):
        return case
    op, q = cmds[0][0], dec(cmds[0][1])
    best = make_case(pipeline, [q], ops=(op,))
    if not fails(best):
        return case
    changed = True
    while changed and len(q) > 0:
        changed = False
        for size in (max(1, len(q) // 2), max(1, len(q) // 4), 1):
            i = 0
            while i < len(q):
                cand = q[:i] + q[i + size:]
                c2 = make_case(pipeline, [cand], ops=(op,))
                if cand != q and fails(c2):
                    q, best, changed = cand, c2, True
                else:
                    i += size
    return best


# ---------------------------------------------------------------------------- exhaustive parts
TOK_ALPHABET = ["AND", "or", "NOT", "(", ")", "foo", "-bar", "the", '"x y"', "q*"]
CHR_ALPHABET = ["(", ")", '"', "-", "a", "　"]


def _enum(alphabet, maxlen, sep):
    from itertools import product
    for n in range(maxlen + 1):
        for combo in product(alphabet, repeat=n):
            yield sep.join(combo)


def _run_chunk(args):
    from lib import core
    pipeline, queries = args
    case = make_case(pipeline, queries, ops=("parse", "exec"))
    iouts, outs = core.evaluate(_SELF(), core._HYP, case)
    bad = core.bad_outcomes(outs)
    feats = {}
    for f in features(case, iouts):
        feats[f] = feats.get(f, 0) + 1
    return ([dec(case["cmds"][o.idx][1]) for o in bad][:3], len(queries), feats)


def _SELF():
    return sys.modules[__name__]


def unicode_assumptions():
    """the two global facts the model relies on, over all code points"""
    bad = []
    sp = [c for c in range(sys.maxunicode + 1) if re.match(r"\s", chr(c))]
    if len(sp) != 29 or 0x20 not in sp or 0x2d in sp or 0x28 in sp or 0x29 in sp or 0x22 in sp:
        bad.append("unexpected \\s set: %r" % (sp,))
    for c in range(128, sys.maxunicode + 1):
        u = chr(c).upper()
        if u and all(ch in "ANDORT" for ch in u):
            bad.append("U+%04X upper-cases to %r" % (c, u))
    for c in range(128):
        u = chr(c).upper()
        exp = chr(c - 32) if 97 <= c <= 122 else chr(c)
        if u != exp:
            bad.append("ASCII %d upper-cases to %r" % (c, u))
    return bad


def extra(hyp, tier, seed):
    from concurrent.futures import ProcessPoolExecutor
    import multiprocessing
    from lib import core
    bad = unicode_assumptions()
    if bad:
        raise core.Infra("Unicode assumptions of the tokenizer model do not hold: %s" % bad[:3])
    tl, cl = (4, 5) if tier == "quick" else (5, 7)
    qs = list(_enum(TOK_ALPHABET, tl, " ")) + list(_enum(CHR_ALPHABET, cl, ""))
    chunks = [("default", qs[i:i + 400]) for i in range(0, len(qs), 400)]
    ctx = multiprocessing.get_context("fork")
    with ProcessPoolExecutor(max_workers=core.NCPU, mp_context=ctx) as ex:
        res = list(ex.map(_run_chunk, chunks))
    fails = []
    feats = {"exhaustive-token-seqs<=%d" % tl: sum(len(TOK_ALPHABET) ** n for n in range(tl + 1)),
             "exhaustive-char-strings<=%d" % cl: sum(len(CHR_ALPHABET) ** n for n in range(cl + 1)),
             "codepoints-swept-for-\\s-and-upper": sys.maxunicode + 1}
    n = 0
    for badqs, k, f in res:
        n += k
        for key, v in f.items():
            feats["exh:" + key] = feats.get("exh:" + key, 0) + v
        for q in badqs:
            if len(fails) < 3:
                fails.append(make_case("default", [q], ops=("parse", "exec")))
    return {"evaluations": n, "features": feats, "failures": fails,
            "nontrivial": [core.case_hash(make_case("default", [" ".join(TOK_ALPHABET)]))],
            "samples": [{"case": make_case("default", ['foo AND NOT ("x y" or -bar q*) the'])}]}


LEVEL_TEXT = ("Lean 4 theorems for all token lists / all strings: the parser is total (structural + 'remaining "
              "tokens decrease'), returns exactly the (tree, ignored) pairs the documented grammar with its "
              "semantic actions derives (soundness and completeness, hence the grammar is unambiguous), every "
              "returned tree is well-formed and executable (executeQuery never reaches NotNode.executeQuery), "
              "check_query = isOk(parse); the model (tokenizer regex as a scanner, keyword classification, "
              "recursive descent with None propagation) is tied to hypatia/text/queryparser.py by a differential "
              "run of QueryParser/TextIndex against the compiled model, including exhaustive small alphabets")
LEVEL_NOTE = ("trusted: Lean kernel (propext, Quot.sound, Classical.choice at most), the hand model's faithfulness as "
              "sampled, the harness; the lexicon (parseTerms/isGlob) is a parameter of all theorems and is fed "
              "from the real lexicon; \\s and str.upper() facts are re-validated over all code points each run")
TECHNIQUE = ("Lean 4: total recursive descent by well-founded recursion, soundness by strong induction on the token "
             "count, completeness by induction on derivations + differential correspondence (random + exhaustive)")
