"""C15  Lexicon: word ids are permanent and unique; lookups and globs are exact.

Mutation sanity check (scratch copies /var/tmp/mut_text_N, VERIF_REPO=..., all deleted afterwards);
every one of them gave VIOLATION with a replay on seed 0, quick tier:
  M1 lexicon.py globToWordIds: `pat += re.escape(c)` -> `pat += c`   (literal after the first glob char:
     'a*.b' matched 'axxb')                                                             caught (glob)
  M2 `pat += r"\\Z"` -> `pat += "$"`  (word 'ab\\n' matched by 'a?')                      caught (glob)
  M3 `re.compile(pat, re.DOTALL)` -> `re.compile(pat)`  ('a?' no longer matches 'a\\n')   caught (glob)
  M4 `self._wids.keys(prefix)` -> `self._wids.keys(prefix, excludemin=True)`  ('ab*' misses 'ab') caught
  M5 termToWordIds: `self._wids.get(word, 0)` -> `self._getWordIdCreate(word)`  (a lookup adds words:
     needs a later count/items/getword to show)                                         caught (count)
  M6 StopWordAndSingleCharRemover `range(255)` -> `range(128)`  ('é' alone kept)        caught (proc/source)
  M7 Splitter.rxGlob `\\w+[\\w*?]*` -> `[\\w*?]+`  ('*foo' becomes a glob term)           caught (parse)
  M8 htmlsplitter MARKUP `&[A-Za-z]+;` -> `&\\w+;`  ('&a1;' swallowed)                   caught (proc html)
  M9 CaseNormalizer `w.lower()` -> `w.casefold()`  ('ß' -> 'ss')                        caught (source)
  M10 _getWordIdCreate: `self._words[wid] = word` dropped for ids divisible by 5 (id -> word hole, the skip
     loop then hands the id out again later)                                            caught (getword)
Glob classes shared with C03 (seeded C03_D / C03_E were caught here by chance of the random pool; now generated on
purpose and measured): M11 key.lstrip(prefix), M12 range scan bounded by prefix + U+1FFFF (see props/c03.py) caught.
"""
import re
import sys

from lib.core import exc_name

ID = "C15"
AUDIT_IMPORTS = ["HypatiaProofs.Properties.C15"]
THEOREMS = ["Hyp.Lex." + t for t in (
    "c15_ids_positive", "c15_maps_inverse", "c15_ids_not_shared", "c15_ids_permanent", "c15_ids_never_reused",
    "c15_first_seen_gets_fresh_id", "c15_ids_are_one_to_count", "c15_known_iff_seen", "c15_word_count",
    "c15_new_wid_is_free", "c15_new_wid_is_next", "c15_reads_do_not_write", "c15_source_returns_ids",
    "c15_term_lookup", "c15_zero_iff_unknown", "c15_glob_exact", "c15_glob_leading_glob_char_rejected",
    "c15_glob_spec_channel", "c15_globMatch_decided", "c15_isGlob", "c15_same_pipeline",
    "c15_parseTerms_plain_text", "c15_splitter_word", "c15_splitter_separator", "c15_splitter_conserves",
    "c15_glob_token_shape", "c15_glob_token_separator", "c15_html_process", "c15_html_tag_removed",
    "c15_html_entity_removed", "c15_html_text_kept", "c15_case_and_stop")]
CASES = {"quick": 4800, "thorough": 80000}
BUDGET_S = {"quick": 40, "thorough": 600}
BATCH = 25
RULE = ("each case = one real Lexicon(*pipeline) with a pipeline of 0-4 shipped elements in any order (half the "
        "cases one of the shipped combinations) and 10-60 (thorough: to 400) interleaved calls: sourceToWordIds / "
        "termToWordIds / parseTerms with a str, a list of str or None, over a per-case pool of 6-40 (thorough: to "
        "500) words built from an 80-character alphabet (ASCII letters/digits/underscore, regex metacharacters, "
        "newline/tab/NBSP/U+2028, markup, accented and multi-code-point-lowering letters incl. U+0130, Kelvin "
        "sign, digits of other scripts, combining mark, astral and lone-surrogate code points, chr(254..256)); "
        "globToWordIds with patterns derived from pool words (prefix*, infix ?, several globs, leading glob, no "
        "glob, empty) and an adversarial pool (regex metacharacters, newlines); 40% of the pools get 1-3 words in "
        "which a prefix occurs twice and 40% get 1-3 words with a character beyond U+00FF / beyond the BMP (up to "
        "U+323AF) after a prefix, with ?-only globs fitting only the word's tail and globs whose prefix ends before "
        "the high character (measured quick seed 0, of 4800 cases: only a tail of a known word fits 639, match "
        "continues beyond the BMP 282, beyond U+00FF 743); isGlob; after writes "
        "word_count/items/get_word(0..n+1)/get_wid; single pipeline elements on their own (process/processGlob). "
        "non-trivial = at least 3 words known, a glob with a non-empty answer and one differing answer")
TRUSTED = ["character tables (\\w membership, str.lower()) are DATA computed from CPython for the alphabet in use and "
           "sent to the model; the model applies lower() code point by code point: validated on every run over all "
           "code points in a neutral context, U+03A3 (context-sensitive final sigma) is not in the alphabet",
           "re: an escaped character matches itself, '.' with DOTALL any character, '.*' any run, \\Z only the end",
           "OIBTree.keys(min) iterates keys >= min in code-point order"]
ASSUMPTIONS = ["text arguments are str, list of str, or None (sourceToWordIds only)"]

# ---------------------------------------------------------------------------- alphabet and tables
ALPHA = list("abcdexyzABZ019_") + list(" \t\n-.,'\"()|[]\\^$+{}/<>&;:!#=*?") + [
    "é", "É", "ß", "ẞ", "İ", "ı", "Ǆ", "中", "文", "٣", "²", "½", "̇", " ", " ", "Ａ", "K",
    "Ω", "\ud800", "\U0001f600", "\U0001d400", "þ", "ÿ", "Ā", "\x00", "\x85", "ǅ", "ﬁ"]


def _closure(chars):
    seen = set(chars)
    todo = list(chars)
    while todo:
        c = todo.pop()
        for d in c.lower():
            if d not in seen:
                seen.add(d)
                todo.append(d)
    return sorted(seen)


CHARS = _closure(ALPHA + list("thendiwslmoruf"))      # letters of the stop words as well


def table_cfg(chars):
    cfg = [["cfg", "word"] + ["%x" % ord(c) for c in chars if re.match(r"\w", c)]]
    for c in chars:
        if c.lower() != c:
            cfg.append(["cfg", "lower", "%x" % ord(c), "|"] + ["%x" % ord(d) for d in c.lower()])
    return cfg


def enc(s):
    return "u" + ".".join("%x" % ord(c) for c in s)


def dec(t):
    return "".join(chr(int(x, 16)) for x in t[1:].split(".")) if len(t) > 1 else ""


ELEMS = ["splitter", "case", "stop", "single", "html"]
SHIPPED = [["splitter", "case", "stop"], ["splitter", "case"], ["splitter", "case", "single"], ["html", "stop"],
           ["html"], ["splitter"], ["splitter", "stop"], []]
_STOPS = None


def stops():
    global _STOPS
    if _STOPS is None:
        from hypatia.text.stopdict import get_stopdict
        _STOPS = sorted(get_stopdict().keys())
    return _STOPS


def make_elem(name):
    from hypatia.text import lexicon as L
    from hypatia.text.htmlsplitter import HTMLWordSplitter
    return {"splitter": L.Splitter, "case": L.CaseNormalizer, "stop": L.StopWordRemover,
            "single": L.StopWordAndSingleCharRemover, "html": HTMLWordSplitter}[name]()


# ---------------------------------------------------------------------------- implementation side
class Impl(object):
    def __init__(self, pipeline, zodb=False):
        from hypatia.text.lexicon import Lexicon
        self.lex = Lexicon(*[make_elem(n) for n in pipeline])
        self.tm = None
        if zodb:
            # the lexicon lives in a database connection: persistence-only slips (a counter invalidated
            # instead of deactivated, a volatile cache) are invisible without one (seeded change C15_A)
            import transaction
            from ZODB import DB
            from ZODB.DemoStorage import DemoStorage
            self.tm = transaction.TransactionManager()
            self.db = DB(DemoStorage())
            self.conn = self.db.open(self.tm)
            self.conn.root()["lex"] = self.lex
            self.tm.commit()

    def text(self, c):
        """['s', str] -> str ; ['l', str...] -> list ; ['n'] -> None"""
        if c[0] == "s":
            return dec(c[1])
        if c[0] == "n":
            return None
        return [dec(x) for x in c[1:]]

    def run(self, c):
        from hypatia.text.parsetree import QueryError
        lex = self.lex
        op = c[0]
        try:
            if op == "source":
                return "[%s]" % " ".join(str(i) for i in lex.sourceToWordIds(self.text(c[1:])))
            if op == "term":
                return "[%s]" % " ".join(str(i) for i in lex.termToWordIds(self.text(c[1:])))
            if op == "parse":
                return "[%s]" % " ".join(enc(w) for w in lex.parseTerms(self.text(c[1:])))
            if op == "glob":
                try:
                    return "[%s]" % " ".join(str(i) for i in lex.globToWordIds(dec(c[1])))
                except QueryError:
                    return "err QueryError"
            if op == "isglob":
                r = lex.isGlob(dec(c[1]))
                return "True" if r is True else "False" if r is False else "non-bool %r" % (r,)
            if op == "getword":
                return enc(lex.get_word(c[1]))
            if op == "getwid":
                return str(lex.get_wid(dec(c[1])))
            if op == "commit":
                if self.tm is not None:
                    self.tm.commit()
                    if c[1:] == ["evict"]:
                        self.conn.cacheMinimize()
                op = "count"
            if op == "abort":
                self.tm.abort()
                op = "count"
            if op == "count":
                n = lex.word_count()
                a, b = len(lex.words()), len(lex.wids())
                return str(n) if n == a == b else "inconsistent word_count=%r words=%d wids=%d" % (n, a, b)
            if op == "items":
                return "[%s]" % " ".join("%s:%d" % (enc(w), i) for w, i in lex.items())
            if op in ("proc", "procglob"):
                e = make_elem(c[1])
                f = e.process if op == "proc" else getattr(e, "processGlob", e.process)
                return "[%s]" % " ".join(enc(w) for w in f([dec(x) for x in c[2:]]))
        except Exception as e:
            return exc_name(e)
        raise ValueError(c)


def cfgdict(case):
    for c in case.get("cfg", []):
        if c[1] == "pipeline":
            return c[2:]
    return []


def impl_run(hyp, case):
    zodb = any(c[1] == "zodb" for c in case.get("cfg", []))
    im = Impl(cfgdict(case), zodb)
    try:
        return [im.run(c) for c in case["cmds"]]
    finally:
        if im.tm is not None:
            im.tm.abort()
            im.conn.close()
            im.db.close()


def model_cmd(c):
    if c[0] in ("commit", "abort"):
        return c                # the model's lexicon returns to the last commit on abort
    if c[0] in ("source", "term", "parse"):
        if c[1] == "n":
            return [c[0], "u"]
        return [c[0]] + list(c[2:])
    return c


# ---------------------------------------------------------------------------- generator
WORDCH = [c for c in CHARS if re.match(r"\w", c)]
SEPS = [" ", " ", " ", "  ", "\t", "\n", ", ", ".", "-", "'", "/", " ", " ", "(", ")", "|", "̇", "\x00"]
MARKUP = ["<b>", "</p>", "<a href=\"x\">", "<>", "<", ">", "<<b>", "<b", "&amp;", "&lt;", "&;", "&a1;", "&amp", "&",
          "&É;", "<b>x</b>", "&Ab;", "<\n>", "< b >"]
ADV_WORDS = ["a|b", "a|bzzz", "ab\n", "a\n", "a(", "a(b", "a.b", "axb", "a[b]", "a\\b", "a+", "aa", "a$", "a^b", "a{2}",
             "aaa", "a*b", "a?b", "ab", "a", "a\nb", "a.", "a|", "a\\", "a b", "a)", "A|B", "a]"]
ADV_GLOBS = ["a|b*", "a|b*z", "a?", "a??", "a(*", "a(?", "a.*", "a.?", "a[*", "a[b]*", "a\\*", "a\\?", "a+*", "a+?", "a$*",
             "a^*", "a{2}*", "a*b", "a?b", "a*.b", "a?.b", "a*|b", "a*(b", "a*$", "a?$", "a*\\b", "a*]", "a*+", "a?+",
             "a*{2}", "a\n*", "a\n?", "a*\n", "a?\n", "a**", "a*?", "a?*", "a* b", "a*)", "a|*", "a.b*", "a*b*", "A|*",
             "a\\*b", "a.", "a|b", "", "*", "?", "*a", "?a", "**", "ab", "a"]


# words in which a prefix occurs a second time (`co?` must not match `cocoa` through its tail `coa`) and words with a
# character beyond U+00FF / beyond the BMP right after an ASCII or BMP prefix (a prefix scan must not stop short of
# them): U+0100, U+03A9, U+FFDC (the last BMP word character), U+10000, U+10400 (cased), U+1D400, U+1D7D9 (a digit),
# U+20BB7, U+323AF (the last word character of all)
TWICE_WORDS = ["cocoa", "murmur", "tartar", "bonbon", "dodo", "abab", "papaya", "banana", "mama", "x1x12", "catcat",
               "apeape", "中文中文x"]
HIGH_WORDS = ["x\U0001d7d9", "ab\U0001d400", "東京\U00020bb7野家", "東京都", "cat\U00010400", "ab\uffdc", "abĀ", "appΩ",
              "x\U00010000y", "zed\U000323af", "dog\U0001d7ce\U0001d7cf", "b\U00020bb7", "café\U0001d400", "cot中",
              "\U0001d400\U0001d401", "\U0001d400b"]
HIGH_CHARS = ["Ā", "Ω", "中", "\uffdc", "\U00010000", "\U00010400", "\U0001d400", "\U0001d7d9", "\U00020bb7",
              "\U000323af"]


def twice_globs(w):
    """globs without '*' that fit a proper tail of w starting with w's own prefix, but (mostly) not w itself"""
    out = []
    for k in range(1, len(w)):
        p = w[:k]
        j = w.find(p, 1)
        while j > 0:
            rest = w[j + k:]
            if rest:
                out.append(p + "?" * len(rest))
                if len(rest) > 1:
                    out.append(p + "?" + rest[1:])
                    out.append(p + rest[:-1] + "?")
            j = w.find(p, j + 1)
    return out


def glob_re(g):
    """the glob's meaning, for measuring only (features): prefix up to the first glob character + anchored regex"""
    i = min([g.index(c) for c in "*?" if c in g] or [len(g)])
    pat = "".join(".*" if c == "*" else "." if c == "?" else re.escape(c) for c in g)
    return g[:i], re.compile(pat + r"\Z", re.DOTALL)


def glob_classes(g, vocab):
    """which of the discriminating situations a glob meets in a vocabulary"""
    if not re.search(r"[*?]", g) or g[0] in "*?":
        return []
    prefix, prog = glob_re(g)
    f = []
    if "*" not in g:
        f.append("glob:qmark-only")
    for w in vocab:
        if not w.startswith(prefix):
            continue
        if not prog.match(w) and re.search(prog.pattern, w, re.DOTALL):
            f.append("glob:only-a-tail-of-a-word-fits(search!=match)")
        if prog.match(w) and len(w) > len(prefix):
            o = ord(w[len(prefix)])
            if o > 0xFFFF:
                f.append("glob:match-continues-beyond-BMP")
            elif o > 0xFF:
                f.append("glob:match-continues-beyond-U+00FF")
    return sorted(set(f))


def gen_word(rng):
    n = rng.choice([1, 1, 2, 2, 3, 3, 4, 5])
    r = rng.random()
    if r < 0.55:
        return "".join(rng.choice("abcdexyz") for _ in range(n))
    if r < 0.85:
        return "".join(rng.choice(WORDCH) for _ in range(n))
    if r < 0.93:
        return rng.choice(stops()) if rng.random() < 0.7 else rng.choice(stops()).upper()
    return "".join(rng.choice(CHARS) for _ in range(n))


def related(rng, w):
    """a word sharing a prefix with w (neighbours in the sorted word list)"""
    k = rng.randrange(0, len(w) + 1)
    return w[:k] + "".join(rng.choice("abz_0" if rng.random() < 0.7 else WORDCH) for _ in range(rng.randrange(0, 3)))


def gen_pool(rng, size):
    pool = []
    while len(pool) < size:
        w = gen_word(rng)
        pool.append(w)
        for _ in range(rng.choice([0, 0, 1, 2])):
            pool.append(related(rng, w))
    # the classes a glob scan can get wrong: a prefix that occurs twice in a word; a character beyond U+00FF / beyond
    # the BMP right after a prefix
    if rng.random() < 0.4:
        for _ in range(rng.randrange(1, 4)):
            w = rng.choice(pool) or "a"
            k = rng.randrange(1, min(len(w), 3) + 1)
            pool.append(rng.choice(TWICE_WORDS) if rng.random() < 0.4 else
                        w[:k] + rng.choice(["", "x", w[k:]]) + w[:k] + rng.choice(["a", "1", w[k:k + 1] + "z", w[-1:]]))
    if rng.random() < 0.4:
        for _ in range(rng.randrange(1, 4)):
            w = rng.choice(pool) or "a"
            k = rng.randrange(1, len(w) + 1)
            pool.append(rng.choice(HIGH_WORDS) if rng.random() < 0.4 else
                        w[:k] + rng.choice(HIGH_CHARS) + rng.choice(["", "", w[k:], "z"]))
    return pool


def gen_text(rng, pool, markup):
    n = rng.choice([0, 1, 1, 2, 3, 4, 6, 9])
    out = []
    for i in range(n):
        w = rng.choice(pool)
        if rng.random() < 0.15:
            w = w.upper() if rng.random() < 0.6 else w.title()
        out.append(w)
        if i < n - 1 or rng.random() < 0.2:
            out.append(rng.choice(MARKUP) if markup and rng.random() < 0.4 else rng.choice(SEPS))
    if rng.random() < 0.08:
        out.insert(0, rng.choice(SEPS + MARKUP))
    return "".join(out)


def gen_textarg(rng, pool, markup, allow_none):
    r = rng.random()
    if allow_none and r < 0.02:
        return ["n"]
    if r < 0.7:
        return ["s", enc(gen_text(rng, pool, markup))]
    if r < 0.9:
        return ["l"] + [enc(gen_text(rng, pool, markup)) for _ in range(rng.randrange(0, 4))]
    # the words themselves as a list (what a splitter-less pipeline needs to see several words)
    return ["l"] + [enc(rng.choice(pool)) for _ in range(rng.randrange(0, 5))]


def gen_glob(rng, pool, adversarial):
    if adversarial and rng.random() < 0.55:
        return rng.choice(ADV_GLOBS)
    w = rng.choice(pool) or "a"
    special = [x for x in pool if x and (twice_globs(x) or any(ord(c) > 0xFF for c in x[1:]))]
    if special and rng.random() < 0.3:
        w = rng.choice(special)
        tw = twice_globs(w)
        hi = [i for i, c in enumerate(w) if i > 0 and ord(c) > 0xFF]
        if tw and (not hi or rng.random() < 0.5):
            return rng.choice(tw)
        if hi:
            i = rng.choice(hi)
            return w[:i] + rng.choice(["*", "?" + w[i + 1:], "?" * (len(w) - i), "*" + w[-1:], "?*", "*?"])
    r = rng.random()
    k = rng.randrange(0, len(w) + 1)
    if r < 0.25:
        g = w[:max(k, 1)] + "*"
    elif r < 0.4:
        k = min(max(k, 1), len(w))
        g = w[:k] + "?" + w[k + 1:]
    elif r < 0.5:
        g = w[:1] + "*" + w[-1:]
    elif r < 0.6:
        g = w[:1] + "?" * max(0, len(w) - 1)
    elif r < 0.68:
        g = w[:max(k, 1)] + rng.choice(["**", "*?", "?*", "??", "*" + w[-1:] + "*", "?*?"])
    elif r < 0.76:
        g = w                               # no glob character
    elif r < 0.84:
        g = rng.choice(["*", "?"]) + w      # leading glob character
    elif r < 0.9:
        g = w + rng.choice(["*", "?"])
    else:
        g = "".join(rng.choice(list("ab*?") + WORDCH[:6]) for _ in range(rng.randrange(0, 5)))
    if rng.random() < 0.1:
        g = g.upper()
    return g


def observe(rng, cmds, nwords_hint):
    cmds.append(["count"])
    if rng.random() < 0.6:
        cmds.append(["items"])
    for i in rng.sample(range(0, nwords_hint + 3), min(nwords_hint + 3, rng.choice([1, 2, 4]))):
        cmds.append(["getword", i])


def gen(rng, tier, idx):
    r = rng.random()
    if r < 0.5:
        pipeline = list(rng.choice(SHIPPED))
    else:
        pipeline = [rng.choice(ELEMS) for _ in range(rng.randrange(0, 5))]
    adversarial = not any(p in ("splitter", "html") for p in pipeline[:1]) or rng.random() < 0.15
    size = rng.choice([6, 10, 20, 40]) if tier == "quick" or rng.random() < 0.9 else rng.choice([120, 500])
    pool = gen_pool(rng, size)
    if adversarial:
        pool += rng.sample(ADV_WORDS, rng.randrange(4, 14))
    markup = "html" in pipeline or rng.random() < 0.1
    ncalls = rng.randrange(10, 60) if tier == "quick" or rng.random() < 0.9 else rng.randrange(100, 400)
    cmds = []
    approx = 0
    for _ in range(ncalls):
        r = rng.random()
        if r < 0.34:
            cmds.append(["source"] + gen_textarg(rng, pool, markup, True))
            approx = min(approx + 3, len(pool) + 5)
            if rng.random() < 0.25:
                observe(rng, cmds, approx)
        elif r < 0.5:
            cmds.append(["term"] + gen_textarg(rng, pool, markup, False))
        elif r < 0.62:
            t = gen_textarg(rng, pool + [gen_glob(rng, pool, False) for _ in range(3)], markup, False)
            cmds.append(["parse"] + t)
        elif r < 0.86:
            cmds.append(["glob", enc(gen_glob(rng, pool, adversarial))])
        elif r < 0.9:
            cmds.append(["isglob", enc(rng.choice([gen_glob(rng, pool, adversarial), rng.choice(pool)]))])
        elif r < 0.95:
            cmds.append(["getwid", enc(rng.choice(pool + [gen_word(rng)]))])
        else:
            e = rng.choice(ELEMS)
            args = [enc(gen_text(rng, pool + MARKUP, True)) for _ in range(rng.randrange(0, 3))]
            if rng.random() < 0.3:
                args += [enc(rng.choice(["þ", "ÿ", "Ā", "a", "", "é", "\x00", "the", "The", "1"]))]
            cmds.append([rng.choice(["proc", "procglob"]), e] + args)
    observe(rng, cmds, approx)
    cmds.append(["items"])
    zodb = rng.random() < 0.35
    if zodb:
        # commits (half of them followed by a cache eviction) sprinkled over the history; each call then
        # runs as part of a transaction that may already contain earlier calls
        out = []
        for c in cmds:
            out.append(c)
            r2 = rng.random()
            if r2 < 0.18:
                out.append(["commit", "evict"] if rng.random() < 0.5 else ["commit"])
                if rng.random() < 0.5:
                    out.append(["count"])
            elif r2 < 0.28:
                # the transaction is aborted: words it introduced are forgotten, their ids free again
                # (seeded change C15_C kept a volatile word->id cache across the abort)
                out.append(["abort"])
                if rng.random() < 0.5:
                    out.append(["items"])
        cmds = out
    case = make_case(pipeline, cmds)
    if zodb:
        case["cfg"].append(["cfg", "zodb", 1])
    return case


def is_str_token(t):
    return isinstance(t, str) and t[:1] == "u" and (len(t) == 1 or re.fullmatch(r"u[0-9a-f]+(\.[0-9a-f]+)*", t))


def case_chars(cmds, allow_sigma=False):
    """every character occurring in a string argument (plus the stop words'), closed under lower()"""
    chars = set("".join(stops()))
    for c in cmds:
        for t in c[1:]:
            if is_str_token(t):
                chars.update(dec(t))
    if "\u03a3" in chars and not allow_sigma:
        raise ValueError("U+03A3 in a generated case")
    return _closure(sorted(chars))


def make_case(pipeline, cmds):
    cfg = table_cfg(case_chars(cmds)) + [["cfg", "stop"] + [enc(w) for w in stops()],
                                         ["cfg", "pipeline"] + list(pipeline)]
    return {"session": "lexicon", "cfg": cfg, "cmds": cmds}


# ---------------------------------------------------------------------------- measurement
def nontrivial(case, outs):
    known = 0
    for c, o in zip(case["cmds"], outs):
        if c[0] == "count" and o.isdigit():
            known = max(known, int(o))
    hit = any(c[0] == "glob" and o.startswith("[") and o != "[]" for c, o in zip(case["cmds"], outs))
    return known >= 3 and hit and len(set(outs)) >= 4


def features(case, outs):
    pl = cfgdict(case)
    f = ["pipeline:" + ("+".join(pl) if pl in SHIPPED else "other-%d" % len(pl))]
    maxid = 0
    # vocabulary at the time of a glob, for measuring only: the words of the final items() whose id was handed out by
    # then (not meaningful when a transaction was aborted: ids are handed out again)
    final = {}
    if not any(c[0] == "abort" for c in case["cmds"]):
        for c, o in zip(case["cmds"], outs):
            if c[0] == "items" and o.startswith("["):
                final = {dec(t.rsplit(":", 1)[0]): int(t.rsplit(":", 1)[1]) for t in o[1:-1].split()}
    for c, o in zip(case["cmds"], outs):
        op = c[0]
        if o.startswith("err"):
            f.append(op + ":" + o)
            continue
        if op == "source":
            ids = [int(x) for x in o[1:-1].split()] if len(o) > 2 else []
            new = [i for i in ids if i > maxid]
            f.append("source:%s" % ("none-arg" if c[1] == "n" else "empty" if not ids else "all-known" if not new
                                    else "all-new" if len(set(new)) == len(set(ids)) else "mixed"))
            if len(ids) != len(set(ids)):
                f.append("source:repeated-word-in-text")
            maxid = max([maxid] + ids)
        elif op == "term":
            ids = o[1:-1].split()
            f.append("term:%s" % ("empty" if not ids else "all-unknown" if set(ids) == {"0"} else
                                  "some-unknown" if "0" in ids else "all-known"))
        elif op == "glob":
            p = dec(c[1])
            n = len(o[1:-1].split())
            kind = ("leading" if p[:1] in ("*", "?") else "noglob" if not ("*" in p or "?" in p) else "glob")
            f.append("glob:%s:%s" % (kind, "0" if n == 0 else "1" if n == 1 else "2+"))
            if re.search(r"[|()\[\].\\+${}^]", p):
                f.append("glob:regex-metachar")
            if "\n" in p:
                f.append("glob:newline-in-pattern")
            if re.search(r"[*?].*[^*?]", p):
                f.append("glob:literal-after-glob")
            f += glob_classes(p, [w for w, i in final.items() if i <= maxid])
        elif op == "parse":
            ws = [dec(w) for w in o[1:-1].split()]
            f.append("parse:%s" % ("empty" if not ws else "has-glob" if any("*" in w or "?" in w for w in ws) else "plain"))
        elif op in ("proc", "procglob"):
            f.append("%s:%s" % (op, c[1]))
        elif op == "getword":
            f.append("getword:hit")
        elif op == "count":
            f.append("count:%s" % ("0" if o == "0" else "1-9" if len(o) == 1 else "10-99" if len(o) == 2 else "100+"))
    txt = "".join(dec(x) for c in case["cmds"] if c[0] in ("source", "term") for x in c[2:])
    for name, ch in (("U+0130", "İ"), ("kelvin", "K"), ("newline", "\n"), ("surrogate", "\ud800"),
                     ("astral", "\U0001f600"), ("markup", "<"), ("entity", "&")):
        if ch in txt:
            f.append("text-has:" + name)
    for k in sorted(set(f)):
        if k.startswith("glob:") and ("beyond" in k or "tail" in k or "qmark" in k):
            f.append("case:" + k)
    return f


def shrink_more(case, fails):
    """drop configuration-independent noise: shorten string arguments"""
    cmds = [list(c) for c in case["cmds"]]
    changed = True
    while changed:
        changed = False
        for i, c in enumerate(cmds):
            for j in range(1, len(c)):
                t = c[j]
                if not (isinstance(t, str) and t.startswith("u") and len(t) > 1):
                    continue
                s = dec(t)
                for k in range(len(s)):
                    cand = s[:k] + s[k + 1:]
                    c2 = [list(x) for x in cmds]
                    c2[i][j] = enc(cand)
                    if fails(make_case(cfgdict(case), c2)):
                        cmds = c2
                        c = cmds[i]
                        changed = True
                        break
    return make_case(cfgdict(case), cmds)


# ---------------------------------------------------------------------------- global assumption sweep
def extra(hyp, tier, seed):
    from lib import core
    bad = []
    for cp in range(sys.maxunicode + 1):
        if cp == 0x3A3:
            continue
        c = chr(cp)
        lo = c.lower()
        if ("a" + c + "a").lower() != "a" + lo + "a" or (c + c).lower() != lo + lo:
            bad.append(cp)
    if bad:
        raise core.Infra("str.lower() is context-sensitive for code points %s (model assumes only U+03A3 is)"
                         % ["U+%04X" % b for b in bad[:5]])
    if "Σ" in CHARS or "Σ" in "".join(c.lower() + c.upper() for c in CHARS):
        raise core.Infra("alphabet contains U+03A3")
    w = [["source", "s", enc("The cat, the HAT")], ["term", "s", enc("cat")], ["glob", enc("c*")],
         ["source", "s", enc("a(b cat")], ["count"], ["items"]]
    return {"evaluations": 0, "features": {"codepoints-swept-for-context-free-lower": sys.maxunicode},
            "samples": [{"case": make_case(["splitter", "case", "stop"], w)}]}


LEVEL_TEXT = ("Lean 4 theorems for every interleaving of the four lexicon calls, every pipeline built from the five "
              "shipped elements and arbitrary character tables: an invariant (ids positive, exactly 1..word_count, the "
              "two maps mutually inverse) proved by induction over calls, ids permanent / never reused / fresh for "
              "first-seen words, lookups are functions of the state and map unknown words to 0, glob expansion = ids "
              "of the known words satisfying the inductive GlobMatch (for all words and patterns, including regex "
              "metacharacters and newlines), characterisations of the two splitter regexes, markup stripping and of "
              "glob vs plain tokenisation; the model is tied to hypatia/text/lexicon.py, htmlsplitter.py, stopdict.py "
              "by a differential run of the real Lexicon against the compiled model and the specification's answer")
LEVEL_NOTE = ("trusted: Lean kernel (propext, Quot.sound, Classical.choice at most), the hand model's faithfulness as "
              "sampled, the harness; \\w membership and str.lower() are data recomputed from CPython on every run; "
              "lower() is applied per code point (validated over all code points except U+03A3, which is excluded)")
TECHNIQUE = ("Lean 4: state invariant by induction over call histories, inductive glob semantics with a verified "
             "decision procedure, sorted-range-scan lemma + differential correspondence")
