"""C16  Word-id list encoding round-trips and substring search means sub-list.

Later-call / aliasing probes (`decm`, `wordsm`, `encm`; asked of the model as plain `dec` / `enc`): every list a call
hands out belongs to the caller - it is mutated (sort, reverse, pop, clear, append, extend, item / slice assignment,
`*=`, insert) and the call repeated (same code; through `BaseIndex.get_words` of the same document and of a twin
document with the same words, followed by unindex_doc, which diffs against get_words); lists handed IN to `encode`
(list / tuple / iterator) must come back unchanged, the result must be a `str`, and the SAME list object changed by
its owner must be encoded afresh.  On top, every list any call of the session returned is kept with a snapshot and
re-compared after every later call.
Prefix-related pairs are also placed at the very END / START of a document with a last continuation byte that
regular expressions, str methods, C strings or format strings treat specially (0x0A for `$`, 0x0D, NUL, backslash,
`$`, `.`, ...), phrase ending in the short id; and the true hits of the same shape.

Seeded C16_F (decode behind functools.lru_cache: the same list object for equal codes) was missed before and is
caught now; C16_E (regex `$` accepts a hit before a trailing 0x0A) was caught on some runs only, now on quick seeds
0-5.  Two more of the aliasing class, both VIOLATION on quick seed 0:
  a  decode() refills and returns one module-level list (`del _buf[:]; _buf.extend(...); return _buf`)
  b  encode() remembers the last list it was given BY IDENTITY and returns the remembered code for it
"""
import random

from lib.core import exc_name

ID = "C16"
AUDIT_IMPORTS = ["HypatiaProofs.Properties.C16"]
THEOREMS = ["Hyp.Widcode." + t for t in (
    "c16_round_trip", "c16_concat", "c16_shape", "c16_injective", "c16_boundary_occurrence",
    "c16_raw_hit_starts_on_boundary", "c16_aligned_hit_is_sublist", "c16_phraseFind_iff_sublist",
    "c16_rawFind_of_sublist", "c16_rawFind_false_hit")]
CASES = {"quick": 1600, "thorough": 64000}
BUDGET_S = {"quick": 40, "thorough": 600}
RULE = ("cases are sessions of enc/dec/find/rt/digest commands over word ids drawn from the code-length "
        "boundaries (2^7, 2^14, 2^21, 2^28-1, +-3), prefix-related id pairs and uniform ids; thorough adds "
        "every id in [0,2^28) in 256 ranges (digest of the concatenated code mod 2^61-1, length, and "
        "decode(encode(range)) == range on the implementation); non-trivial = the case contains an id of "
        "at least two different code lengths or a find whose phrase has a prefix-related id in the document; "
        "30% of the cases start with 2-5 aliasing probes over a pool of re-used id lists: decm (decode, mutate the "
        "returned list with one of 12 list operations, decode the same code again), wordsm (two documents with the "
        "same words in a real OkapiIndex: get_words, mutate, get_words of the same / the twin / both, then "
        "unindex_doc and search every word), encm (encode a list / tuple / iterator: result type, argument "
        "unchanged, the same list object changed by its owner encoded again); every list any call returned is "
        "re-compared with its snapshot after each later call; 14% of the other commands are finds with a "
        "prefix-related pair at the very end / start / middle of the document whose last continuation byte is one of "
        "30 special ones. Measured quick seed 0 (1605 cases, 11695 commands): decm 641, wordsm 332 (same 90, twin 115, "
        "both 127), encm 262 (list 124, tuple 62, iterator 76), the same code decoded again after a mutation 242; "
        "finds 4943, raw hit inside a longer id 1515, inside the LAST id of the document 695 (last byte special 592, "
        "the single byte 0x0A left 57), inside the FIRST id 447, true hit at the end with a special last byte 384")
TRUSTED = ["phrase scan observed through OkapiIndex.search_phrase with a stub lexicon that maps text to the "
           "given word ids (the lexicon is a constructor argument of the index)"]
P61 = (1 << 61) - 1
BOUNDS = [0, 1, 2, 3, 0x7D, 0x7E, 0x7F, 0x80, 0x81, 0x82, 0x83, 0x3FFD, 0x3FFE, 0x3FFF, 0x4000, 0x4001, 0x4002,
          0x1FFFFD, 0x1FFFFE, 0x1FFFFF, 0x200000, 0x200001, 0x200002, 0xFFFFFFD, 0xFFFFFFE, 0xFFFFFFF]


class StubLexicon(object):
    """maps 'text' (a list of ints) to itself: lets the real index store arbitrary word ids"""
    def sourceToWordIds(self, text):
        return list(text)

    def termToWordIds(self, text):
        return list(text)

    def get_word(self, wid):
        return str(wid)


def rid(rng):
    r = rng.random()
    if r < 0.35:
        return rng.choice(BOUNDS)
    if r < 0.55:
        return rng.randrange(1, 0x80)
    if r < 0.7:
        return rng.randrange(0x80, 0x4000)
    if r < 0.85:
        return rng.randrange(0x4000, 0x200000)
    return rng.randrange(0x200000, 0x10000000)


def related(rng, w):
    """an id whose code has the code of w as a proper prefix (or is one of w's)"""
    k = rng.choice([1, 1, 2, 3])
    x = w
    for _ in range(k):
        x = x * 0x80 + rng.randrange(0x80)
    return x if 0 < x < 0x10000000 else w


MUTS = ["sort", "rsort", "reverse", "pop", "pop0", "clear", "append", "extend", "set0", "delslice", "imul",
        "insert"]


def apply_mut(mut, lst):
    """what a caller may do to a list it owns (in place; deterministic, shared by both sides of the comparison)"""
    if mut == "sort":
        lst.sort()
    elif mut == "rsort":
        lst.sort(reverse=True)
    elif mut == "reverse":
        lst.reverse()
    elif mut == "pop":
        if lst:
            lst.pop()
    elif mut == "pop0":
        if lst:
            lst.pop(0)
    elif mut == "clear":
        del lst[:]
    elif mut == "append":
        lst.append(77)
    elif mut == "extend":
        lst.extend([5, 300, 20000])
    elif mut == "set0":
        if lst:
            lst[0] = (lst[0] + 1) % 0x80 or 1
    elif mut == "delslice":
        del lst[1:]
    elif mut == "imul":
        lst *= 2
    elif mut == "insert":
        lst.insert(len(lst) // 2, 1)
    else:
        raise ValueError(mut)


def effective(mut, ws):
    l = list(ws)
    apply_mut(mut, l)
    return l != list(ws)


def pick_mut(rng, ws):
    good = [m for m in MUTS if effective(m, ws)]
    return rng.choice(good or MUTS)


# continuation bytes that regular expressions, str methods, C strings or format strings treat specially
SPECIAL_BYTES = [0x0A, 0x0A, 0x0A, 0x0D, 0x00, 0x5C, 0x24, 0x2E, 0x5E, 0x2A, 0x2B, 0x3F, 0x28, 0x29, 0x5B, 0x5D, 0x7C,
                 0x7B, 0x25, 0x20, 0x09, 0x0B, 0x0C, 0x1C, 0x1D, 0x1E, 0x1F, 0x7F, 0x22, 0x27]


def gen_edge_find(rng):
    """a prefix-related pair at the very END (or START, or middle) of a document: the phrase ends in a short id s,
    the document has, right after the rest of the phrase, a longer id whose code is code(s) + one or two
    continuation bytes, the last of them special somewhere ('\\n' for `$`, NUL, backslash, '.', ...); all phrase
    ids occur elsewhere in the document too (the intersection pre-filter passes).  Also the true hits of the same
    shape (the document really ends / starts with the phrase, whose last code byte is special)."""
    s_id = rng.choice([1, 1, 2, 5, 0x7F, 0x80, 200, 0x3FFF, 0x4000, 20000, rng.randrange(1, 0x4000),
                       rng.randrange(1, 0x200000)])
    c = rng.choice(SPECIAL_BYTES)
    long_id = s_id * 0x80 + c
    if rng.random() < 0.2 and long_id * 0x80 < 0x10000000:
        long_id = long_id * 0x80 + rng.choice(SPECIAL_BYTES)
    if long_id >= 0x10000000 or long_id == 0:
        s_id, long_id = 1, 0x80 + c
    prefix = [max(1, rid(rng)) for _ in range(rng.choice([0, 1, 1, 2, 3]))]
    phrase = prefix + [s_id]
    filler = [max(1, rid(rng)) for _ in range(rng.randrange(0, 4))]
    scattered = list(phrase)
    if len(scattered) > 1:
        scattered.reverse()                  # every phrase id is there, but not as the phrase
    scattered.append(rng.choice([3, 300, 70000]))
    m = rng.random()
    if m < 0.2:
        # true hit whose last byte is special: the phrase ends in the LONG id
        phrase = prefix + [long_id]
        tail = prefix + [long_id]
        scattered = []
    else:
        tail = prefix + [long_id]
    where = rng.choice(["end", "end", "end", "start", "middle", "only"])
    if where == "end":
        d = scattered + filler + tail
    elif where == "start":
        d = tail + filler + scattered
    elif where == "only":
        d = tail if m < 0.2 else tail + [s_id] * (len(prefix) > 0) + prefix[:1]
        if m >= 0.2 and not prefix:
            d = [long_id, 9, s_id] if rng.random() < 0.5 else [s_id, 9, long_id]
    else:
        d = scattered + tail + filler + [max(1, rid(rng))]
    return ["find"] + phrase + ["|"] + d


def gen_alias(rng, cmds):
    """later-call / aliasing probes: every list a call hands out belongs to the caller, every list handed in stays
    the caller's; the answers to later equal calls must not depend on what the caller did in between"""
    pool = []
    for _ in range(rng.randrange(2, 6)):
        r = rng.random()
        if pool and r < 0.45:
            ws = list(rng.choice(pool))           # an equal list again (same code)
        else:
            ws = [rid(rng) for _ in range(rng.randrange(1, 9))]
            if rng.random() < 0.5:
                ws = [min(w, 0xFFFFFFF) for w in ws]
            pool.append(ws)
        r = rng.random()
        if r < 0.4:
            cmds.append(["decm", pick_mut(rng, ws)] + encode_ref(ws, None))
        elif r < 0.55:
            cmds.append(["dec"] + encode_ref(ws, None))
        elif r < 0.75:
            d = [max(1, w) for w in ws]
            cmds.append(["wordsm", pick_mut(rng, d), rng.choice(["same", "twin", "both"])] + d)
        elif r < 0.9:
            cmds.append(["encm", pick_mut(rng, ws), rng.choice(["list", "list", "tuple", "iter"])] + ws)
        else:
            cmds.append(["enc"] + ws)


def gen(rng, tier, idx):
    cmds = []
    if rng.random() < 0.3:
        gen_alias(rng, cmds)
        if rng.random() < 0.5:
            return {"session": "widcode", "cmds": cmds}
    for _ in range(rng.randrange(4, 12)):
        r = rng.random()
        if r < 0.3:
            ws = [rid(rng) for _ in range(rng.randrange(0, 12))]
            if rng.random() < 0.03:
                ws.append(rng.choice([0x10000000, 0x10000001, 1 << 30]))
            cmds.append(["enc"] + ws)
        elif r < 0.5:
            ws = [rid(rng) for _ in range(rng.randrange(0, 12))]
            cmds.append(["dec"] + encode_ref(ws, rng))
        elif r < 0.64:
            cmds.append(gen_edge_find(rng))
        else:
            d = [max(1, rid(rng)) for _ in range(rng.randrange(0, 10))]
            if rng.random() < 0.5 and d:
                # plant prefix-related ids
                for _ in range(rng.randrange(1, 4)):
                    j = rng.randrange(len(d))
                    d.insert(j + 1, related(rng, d[j]))
            if d and rng.random() < 0.8:
                a = rng.randrange(len(d))
                b = rng.randrange(a, min(len(d), a + 4)) + 1
                p = d[a:b]
                m = rng.random()
                if m < 0.3 and p:
                    # replace last id by one whose code is a prefix of the real next one
                    j = rng.randrange(len(p))
                    x = p[j]
                    while x >= 0x80 and rng.random() < 0.7:
                        x //= 0x80
                    p = p[:j] + [max(1, x)] + p[j + 1:]
                elif m < 0.4:
                    rng.shuffle(p)
            else:
                p = [max(1, rid(rng)) for _ in range(rng.randrange(1, 4))]
            cmds.append(["find"] + p + ["|"] + d)
    return {"session": "widcode", "cmds": cmds}


def encode_ref(ws, rng):
    """bytes for a `dec` command: produced by the harness' own encoder (chunks of 1..4 bytes), plus
    occasionally stray continuation bytes in front, which findall skips"""
    out = []
    if rng is not None and rng.random() < 0.1:
        out += [rng.randrange(0x80) for _ in range(rng.randrange(1, 3))]
    for w in ws:
        if w < 0x80:
            out += [0x80 + w]
        elif w < 0x4000:
            out += [0x80 + w // 0x80, w % 0x80]
        elif w < 0x200000:
            out += [0x80 + w // 0x4000, (w // 0x80) % 0x80, w % 0x80]
        else:
            out += [0x80 + w // 0x200000, (w // 0x4000) % 0x80, (w // 0x80) % 0x80, w % 0x80]
    return out


def model_cmd(c):
    """the probes are asked of the model as plain enc / dec of what the property says the answer is"""
    if c[0] == "decm":
        return ["dec"] + list(c[2:])
    if c[0] == "wordsm":
        return ["dec"] + encode_ref(list(c[3:]), None)
    if c[0] == "encm":
        l = list(c[3:])
        if c[2] == "list":
            apply_mut(c[1], l)            # the SAME list object, changed by its owner, is encoded again
        return ["enc"] + l
    return c


def _codes(s):
    return " ".join(str(ord(ch)) for ch in s)


def impl_exec(hyp, cmd, held=None):
    from hypatia.text import widcode
    from hypatia.text.okapiindex import OkapiIndex
    op = cmd[0]
    held = held if held is not None else []
    try:
        if op == "decm":
            code = "".join(chr(b) for b in cmd[2:])
            first = widcode.decode(code)
            if type(first) is not list:
                return "decode returned %s" % type(first).__name__
            snap = list(first)
            apply_mut(cmd[1], first)                    # the caller owns what it was handed
            second = widcode.decode(code)
            held.append((second, list(second), "decode"))
            if second is first:
                return "same-object-again " + " ".join(str(w) for w in second)
            if second != snap:
                return "changed-by-caller's-%s: " % cmd[1] + " ".join(str(w) for w in second)
            return " ".join(str(w) for w in second)
        if op == "wordsm":
            d = list(cmd[3:])
            idx = OkapiIndex(StubLexicon())
            idx.index_doc(1, list(d))
            idx.index_doc(2, list(d))                   # a second document with the same words: same code
            got = idx.get_words(1 if cmd[2] != "twin" else 2)
            snap = list(got)
            apply_mut(cmd[1], got)
            a, b = idx.get_words(1), idx.get_words(2)
            held.append((a, list(a), "get_words"))
            if cmd[2] == "both":
                apply_mut(cmd[1], b)
                b = idx.get_words(2)
            if a != b or a != snap:
                return "get_words(1)=%r get_words(2)=%r first=%r" % (a, b, snap)
            # the index's own use of the decoded list: unindexing diffs against get_words
            idx.unindex_doc(1)
            idx.unindex_doc(2)
            left = [w for w in set(d) if idx.search([w]) is not None and len(idx.search([w]))]
            if left:
                return "postings-left-after-unindex %r" % sorted(left)
            return " ".join(str(w) for w in a)
        if op == "encm":
            ws = list(cmd[3:])
            arg = ws if cmd[2] == "list" else tuple(ws) if cmd[2] == "tuple" else iter(ws)
            s1 = widcode.encode(arg)
            if type(s1) is not str:
                return "encode returned %s" % type(s1).__name__
            if ws != list(cmd[3:]):
                return "encode modified its argument: %r" % (ws,)
            if cmd[2] != "list":
                return _codes(s1)
            apply_mut(cmd[1], ws)                       # the caller changes ITS list, then encodes it again
            s2 = widcode.encode(ws)
            if widcode.encode(list(cmd[3:])) != s1:
                return "encode of an equal fresh list differs: " + _codes(widcode.encode(list(cmd[3:])))
            return _codes(s2)
    except Exception as e:
        return exc_name(e)
    try:
        if op == "enc":
            return " ".join(str(ord(c)) for c in widcode.encode(list(cmd[1:])))
        if op == "dec":
            r = widcode.decode("".join(chr(b) for b in cmd[1:]))
            held.append((r, list(r), "decode"))
            return " ".join(str(w) for w in r)
        if op in ("find",):
            k = cmd.index("|")
            p, d = list(cmd[1:k]), list(cmd[k + 1:])
            idx = OkapiIndex(StubLexicon())
            idx.index_doc(1, d)
            r = idx.search_phrase(p)
            return "1" if 1 in r else "0"
        if op == "digest":
            lo, hi = cmd[1], cmd[2]
            s = widcode.encode(range(lo, hi))
            return "%d %d" % (int.from_bytes(s.encode("latin-1"), "big") % P61, len(s))
        if op == "rt":
            lo, hi = cmd[1], cmd[2]
            back = widcode.decode(widcode.encode(range(lo, hi)))
            if back == list(range(lo, hi)):
                return "ok"
            for a, b in zip(back, range(lo, hi)):
                if a != b:
                    return "mismatch %d" % b
            return "mismatch-length"
    except Exception as e:
        return exc_name(e)
    raise ValueError(cmd)


def impl_run(hyp, case):
    """every list handed out earlier in the session is kept and must still hold what it held (a later call that
    refills a shared buffer, or a cache that hands the caller's list to the next caller, shows here)"""
    held = []
    outs = []
    for c in case["cmds"]:
        o = impl_exec(hyp, c, held)
        for obj, snap, what in held:
            if obj != snap:
                o = "earlier-%s-result-changed-by-later-call was=%r now=%r" % (what, snap, obj)
                del held[:]
                break
        outs.append(o)
    return outs


def codelen(w):
    return 1 if w < 0x80 else 2 if w < 0x4000 else 3 if w < 0x200000 else 4


def nontrivial(case, outs):
    lens = set()
    for c in case["cmds"]:
        for t in c[1:]:
            if isinstance(t, int) and c[0] in ("enc", "find", "encm", "wordsm"):
                lens.add(codelen(t))
        if c[0] in ("digest", "rt"):
            return True
    return len(lens) >= 2


def features(case, outs):
    f = []
    seen = {}
    for c, o in zip(case["cmds"], outs):
        f.append("op:" + c[0])
        if c[0] in ("decm", "wordsm", "encm"):
            f.append("alias:%s:%s" % (c[0], c[1]))
            ids = tuple(c[2:] if c[0] == "decm" else c[3:]) if c[0] != "wordsm" else tuple(encode_ref(list(c[3:]), None))
            if c[0] != "encm":
                if ids in seen:
                    f.append("alias:same-code-decoded-again-after-mutation")
                seen[ids] = 1
            if c[0] == "wordsm":
                f.append("alias:wordsm:" + c[2])
            if c[0] == "encm":
                f.append("alias:encm:" + c[2])
        elif c[0] == "dec" and tuple(c[1:]) in seen:
            f.append("alias:same-code-decoded-again-after-mutation")
        if c[0] == "find":
            f.append("find:" + o)
            k = c.index("|")
            ph, d = list(c[1:k]), list(c[k + 1:])
            if ph and d:
                pc, dc = encode_ref(ph, None), encode_ref(d, None)
                n = len(pc)
                for pos in range(len(dc) - n + 1):
                    if dc[pos:pos + n] == pc and pos + n < len(dc) and dc[pos + n] < 0x80:
                        nxt = dc[pos + n]
                        rest = dc[pos + n:]
                        at_end = all(b < 0x80 for b in rest)
                        f.append("find:raw-hit-inside-a-longer-id")
                        if at_end:
                            f.append("find:raw-hit-inside-the-LAST-id")
                            if rest[-1] in SPECIAL_BYTES:
                                f.append("find:raw-hit-inside-the-LAST-id,last-byte-special")
                            if rest == [0x0A]:
                                f.append("find:raw-hit-then-single-0x0A-at-the-end")
                        if pos == 0:
                            f.append("find:raw-hit-inside-the-FIRST-id")
                        break
                if dc[-1] in SPECIAL_BYTES and o == "1" and dc[-n:] == pc:
                    f.append("find:true-hit-at-the-end,last-byte-special")
        if o.startswith("err"):
            f.append(o)
        for t in c[1:]:
            if isinstance(t, int) and c[0] == "enc":
                f.append("enc-len%d" % codelen(t) if t < 0x10000000 else "enc-too-big")
    return f


def extra(hyp, tier, seed):
    """range sweeps: quick = 8 ranges of 2^12 around the boundaries; thorough = all of [0, 2^28)"""
    from concurrent.futures import ProcessPoolExecutor
    import multiprocessing
    from lib import core
    if tier == "quick":
        ranges = [(0, 4096), (0x3000, 0x5000), (0x1FF000, 0x201000), (0xFFFF000, 0x10000000)]
    else:
        ranges = [(i << 20, (i + 1) << 20) for i in range(256)]
    cases = [{"session": "widcode", "cmds": [["digest", lo, hi], ["rt", lo, hi]]} for lo, hi in ranges]
    fails = []
    ctx = multiprocessing.get_context("fork")
    with ProcessPoolExecutor(max_workers=core.NCPU, mp_context=ctx) as ex:
        res = list(ex.map(_sweep, cases))
    for c, bad in zip(cases, res):
        if bad:
            fails.append(_bisect(hyp, c))
    # one long history in THIS process: the codec keeps module-level tables, so the answer for short ids must
    # not depend on how many long ids were coded before (seeded change C16_C: a memo table flushed after
    # 2^15 distinct long codes took the static 1/2-byte entries with it)
    hist = {"session": "widcode",
            "cmds": [["rt", 0, 300], ["rt", 0x4000, 0x4000 + 70000], ["rt", 0, 300], ["enc", 5, 200, 16000],
                     ["rt", 0x200000, 0x200000 + 40000], ["rt", 100, 0x4100], ["digest", 0, 2048]]}
    _, outs = core.evaluate(_SELF(), hyp, hist)
    cases.append(hist)
    if core.bad_outcomes(outs):
        fails.append(hist)
    return {"evaluations": len(cases), "features": {"range-sweep": len(cases),
                                                    "ids-swept": sum(h - l for l, h in ranges)},
            "nontrivial": [core.case_hash(c) for c in cases], "failures": fails,
            "samples": [{"case": cases[0]}]}


def _sweep(case):
    from lib import core
    _, outs = core.evaluate(_SELF(), core._HYP, case)
    return bool(core.bad_outcomes(outs))


def _SELF():
    import sys
    return sys.modules[__name__]


def _bisect(hyp, case):
    """narrow a failing range to a single id"""
    from lib import core
    lo, hi = case["cmds"][0][1], case["cmds"][0][2]
    while hi - lo > 1:
        mid = (lo + hi) // 2
        c = {"session": "widcode", "cmds": [["digest", lo, mid], ["rt", lo, mid]]}
        _, outs = core.evaluate(_SELF(), hyp, c)
        if core.bad_outcomes(outs):
            hi = mid
        else:
            lo = mid
    small = {"session": "widcode", "cmds": [["enc", lo], ["digest", lo, hi], ["rt", lo, hi]]}
    _, outs = core.evaluate(_SELF(), hyp, small)
    # a failure that needs several ids together (e.g. a mix of short and long codes) does not survive
    # the bisection: report the range itself then
    return small if core.bad_outcomes(outs) else case

LEVEL_TEXT = ("Lean 4 theorems over all id lists with ids < 2^28 (round trip, concatenation, code shape, "
              "injectivity, boundary-aligned occurrence <-> contiguous sub-list, raw hits start on a boundary, "
              "the repaired phrase scan decides containment), plus a correspondence run that compares "
              "hypatia.text.widcode and OkapiIndex.search_phrase with the compiled model; the thorough tier "
              "covers every id in [0, 2^28)")
LEVEL_NOTE = ("trusted: Lean kernel (axioms propext, Quot.sound), the hand model's faithfulness as sampled by "
              "the correspondence run, the harness, the stub lexicon used to feed arbitrary word ids to the real "
              "index")
TECHNIQUE = "Lean 4 proof by structural induction over id lists + differential correspondence (exhaustive over ids in thorough)"
