"""C17  Weighted set algebra and N-best selection equal their definitions.

Two sessions: `setops` (mass_weightedUnion / mass_weightedIntersection over IF maps of both BTrees
families, buckets and trees) and `setopsnbest` (NBest add / addmany / pop_smallest / getbest / len).

Case tokens are readable (weights and scores are Python numbers); `model_cmd` turns every score and
weight into the decimal value of its IEEE-754 bit pattern for the driver, `post_model` turns the model's
bit patterns back into `repr(float)`.  In the *dyadic* stream all scores are k/8 (k < 1024) and weights
are in {1, 2, 0.5, 3}: every intermediate value is exactly representable in the 32-bit floats IF buckets
store, so lines are compared as strings.  In the *float* stream (lines start with `~`) scores and weights
are arbitrary 32-bit-representable positive floats and values are compared with relative tolerance 2e-6.

Mutation sanity check (scratch copies, VERIF_REPO=/var/tmp/mut_score_N, quick tier; all 8 gave VIOLATION
with a shrunk failing input, I != S):
  1 setops: later intersections use weight 1 instead of wx (`weightedIntersection(result, x, 1, 1)`)
      - needs >= 3 maps sharing a key and a non-1 weight after the first pair
  2 setops: merged union re-queued with weight wx instead of 1 - needs >= 3 maps and wx != 1
  3 setops: `_trivial` never scales - needs a single (or single non-None) operand with weight != 1
  4 nbest: bisect_right instead of bisect_left - needs a tie (later item reported first)
  5 nbest: pop_smallest pops the largest
  6 nbest: eviction deletes the best instead of the smallest - needs an add at full capacity
  7 setops: first pair's weights swapped - needs wx != wy on the two smallest maps
  8 setops: intersection loop starts at L[3:] - needs >= 3 maps where the third removes a key
  (`score <= scores[0]` -> `score < scores[0]` in addmany is an equivalent mutation: the equal-score item is
  inserted at index 0 and immediately evicted.)
Size-gated code paths (round 3): seeded C17_E (probe instead of merge for a 3rd+ operand > 32 x the running result,
dropping docids whose score there is 0.0) and C17_F (addmany pre-selects with a sort when given > 128 pairs as a
list / tuple, later items win ties) were missed before and are caught now (quick seeds 0-3): `bigsmall` cases put
1-3 maps of 1-8 keys next to 1-2 maps of 300-3000 keys (Buckets, BTrees, mixed; all orders of 3 operands; scores
exactly 0.0 and negative at the surviving docids), `bulk` NBest sessions feed addmany 129-1000 pairs as list,
tuple, iterator and generator with 1-9 (40) distinct scores, ascending / descending / random arrival, capacities
1-200, repeated items.  Two more of the class, both VIOLATION on quick seed 0:
  9  mass_weightedUnion copies one operand > 32 x the others and adds the rest by lookup, forgetting the weight for
     docids the big operand lacks - needs a tiny operand with weight != 1 and a docid outside the big one
  10 addmany de-duplicates a list / tuple of > 128 pairs through dict(sequence) - needs an item twice in a big batch
  Replays of big cases are shrunk by halving chunks of entries (the seed replays end at 33 entries vs 1, 129 pairs).
Round 4: 7% of all cases are `big` NBest sessions (213 per quick run: ulp 67, timestamps 59, mixed 30, negative 25,
beyond-double 32): INTEGER scores a C double cannot tell apart (neighbours above 2**53 / 2**63 / 2**80, nanosecond
timestamps 1-100 ns apart, their negatives, small ints mixed with 2**53+k) or cannot hold (10**310+k), arriving
ascending / descending / randomly, every third one handed over as a float when a float holds exactly that value; the
scores that come back are compared as exact values (5.0 == 5, but 2**53+3 must stay 2**53+3); 143 of the cases hold
two different scores with the same double.  The driver's NBest scores are Lean `Int` (unbounded), the theorems hold for
any linear order.  Seeded C17_H (scores in array('d')) was missed before and is caught now; one more of the class,
VIOLATION on quick seed 0:  F  addmany bisects with `float(score)`.
  `bisect <x> <scores>` compares the model's binary search (`NBest.bisectLeft`, theorem `c17_bisect_left`) with
  CPython's `bisect.bisect_left` (a trusted-base definition checked on every run); mutation 4 re-run after the
  addition: still caught.
"""
import itertools
import struct

from lib.core import exc_name

ID = "C17"
AUDIT_IMPORTS = ["HypatiaProofs.Properties.C17"]
THEOREMS = []      # filled below
CASES = {"quick": 3000, "thorough": 200000}
BUDGET_S = {"quick": 40, "thorough": 700}
BATCH = 100
WEIGHTS = [1, 1, 1.0, 2, 0.5, 3]


# ----------------------------------------------------------------------------
# token plumbing
# ----------------------------------------------------------------------------
def bits(x):
    return struct.unpack(">Q", struct.pack(">d", float(x)))[0]


def unbits(n):
    return struct.unpack(">d", struct.pack(">Q", int(n)))[0]


def f32(x):
    return struct.unpack(">f", struct.pack(">f", x))[0]


def split_ops(toks):
    """tokens after the command name -> [(weight, None | [(k, v)...])]"""
    if not toks:
        return []
    groups, cur = [], []
    for t in toks:
        if t == "|":
            groups.append(cur)
            cur = []
        else:
            cur.append(t)
    groups.append(cur)
    out = []
    for g in groups:
        w = g[0]
        if len(g) == 2 and g[1] == "none":
            out.append((w, None))
        else:
            out.append((w, [(g[i], g[i + 1]) for i in range(1, len(g), 2)]))
    return out


def join_ops(name, ops):
    toks = [name]
    for i, (w, m) in enumerate(ops):
        if i:
            toks.append("|")
        toks.append(w)
        if m is None:
            toks.append("none")
        else:
            for k, v in m:
                toks += [k, v]
    return toks


def model_cmd(c):
    if c[0] in ("union", "inter", "uniontag", "intertag"):
        ops = [(bits(w), None if m is None else [(k, bits(v)) for k, v in m]) for w, m in split_ops(c[1:])]
        return join_ops(c[0], ops)
    if c[0] in ("addmanyt", "addmanyi", "addmanyg"):
        # the same pairs handed over as a tuple / an iterator / a generator: one model operation
        return ["addmany"] + list(c[1:])
    return c


def cfgdict(case):
    return {c[1]: c[2] for c in case.get("cfg", [])}


def fmt_map(items, approx):
    return ("~" if approx else "") + "{" + " ".join("%d:%r" % (k, float(v)) for k, v in sorted(items)) + "}"


def conv_model_map(s, approx):
    """`{k:bits k:bits}` -> `{k:repr k:repr}`"""
    if not s.startswith("{"):
        return s
    body = s[1:-1].split()
    return fmt_map([(int(t.split(":")[0]), unbits(t.split(":")[1])) for t in body], approx)


def post_model(hyp, case, mouts, iouts):
    if case["session"] != "setops":
        return mouts
    approx = cfgdict(case).get("stream") == "float"
    out = []
    for line in mouts:
        if " ## " in line:
            m, s = line.split(" ## ", 1)
            out.append(conv_model_map(m, approx) + " ## " + conv_model_map(s, approx))
        else:
            out.append(conv_model_map(line, approx))
    return out


def parse_map(s):
    body = s[s.index("{") + 1:s.rindex("}")].split()
    return [(int(t.split(":")[0]), float(t.split(":")[1])) for t in body]


def same(a, b):
    if a == b:
        return True
    if a.startswith("~{") and b.startswith("~{"):
        x, y = parse_map(a), parse_map(b)
        if [k for k, _ in x] != [k for k, _ in y]:
            return False
        return all(abs(u - v) <= 2e-6 * max(abs(u), abs(v)) for (_, u), (_, v) in zip(x, y))
    return False


# ----------------------------------------------------------------------------
# generator
# ----------------------------------------------------------------------------
def gen_score(rng, stream, signed=False):
    if stream == "dyadic":
        if signed:
            # a score of exactly 0.0 is a score (the docid is IN the map), and so is a negative one
            r = rng.random()
            if r < 0.12:
                return 0.0
            if r < 0.24:
                return -rng.choice([0.125, 0.5, 1.0, 2.0, 3.0, rng.randrange(1, 1024) / 8.0])
        return rng.choice([0.125, 0.25, 0.5, 1.0, 1.5, 2.0, 3.0, 127.875]) if rng.random() < 0.5 \
            else rng.randrange(1, 1024) / 8.0
    r = rng.random()
    if r < 0.1:
        return f32(rng.choice([1e-3, 0.1, 1.0, 1e3]))
    return f32(rng.uniform(0.001, 50.0))


def gen_weight(rng, stream):
    if stream == "dyadic" or rng.random() < 0.5:
        return rng.choice(WEIGHTS)
    return f32(rng.uniform(0.05, 8.0))


def gen_maps(rng, stream, ids, tier):
    n = rng.choice([0, 1, 1, 2, 2, 2, 3, 3, 4, 5, 6])
    shape = rng.choice(["mixed", "mixed", "mixed", "disjoint", "identical", "nested", "samesize", "big",
                        "core", "core"])
    pool = rng.sample(ids, min(len(ids), rng.choice([3, 6, 12, 18])))
    maps = []
    base = None
    for j in range(n):
        if shape == "big" and rng.random() < 0.6:
            top = 200 if tier == "quick" else 400
            keys = rng.sample(range(top), rng.randrange(60, top // 2 + 60))
        elif shape == "disjoint":
            keys = [k for i, k in enumerate(pool) if i % max(n, 1) == j]
        elif shape == "identical" and base is not None:
            keys = list(base)
        elif shape == "nested" and base is not None:
            keys = rng.sample(base, rng.randrange(0, len(base) + 1))
        elif shape == "core":
            core = pool[:max(1, len(pool) // 3)]
            keys = list(core) + [k for k in pool[len(core):] if rng.random() < 0.4]
        elif shape == "samesize":
            keys = rng.sample(pool, min(len(pool), 2))
        else:
            keys = rng.sample(pool, rng.randrange(0, len(pool) + 1))
            if rng.random() < 0.12:
                keys = []
        if base is None or shape == "nested":
            base = list(keys)
        same_vals = shape == "identical" and maps and rng.random() < 0.5
        if same_vals:
            m = list(maps[0][1])
        else:
            m = [(k, gen_score(rng, stream)) for k in sorted(keys)]
        maps.append((gen_weight(rng, stream), m))
    rng.shuffle(maps)
    return maps


def gen_bigsmall(rng, tier):
    """>= 3 operands of very different sizes: 1-3 tiny maps (1-8 keys) next to 1-2 maps of 300-3000 keys, so that a
    running result is a few docids while the next operand is hundreds of times larger (size-gated code paths:
    probing instead of merging, copying the big operand, ...); dyadic scores incl. exactly 0.0 and negative ones"""
    extreme = [2 ** 31 - 1, -2 ** 31]
    nbig = rng.choice([1, 1, 1, 2])
    ntiny = rng.choice([2, 2, 2, 3, 1 if nbig == 2 else 2])
    sizes = [rng.choice([300, 300, 400, 640, 1000, 1500] if tier == "quick" or rng.random() < 0.7 else [2000, 3000])
             for _ in range(nbig)]
    if rng.random() < 0.12:
        sizes[0] = 3000
    lo = rng.choice([-50, 0, 0, -2000])
    universe = list(range(lo, lo + max(sizes) + rng.choice([0, 50, 400]))) + extreme
    bigs = [sorted(rng.sample(universe, n)) for n in sizes]
    anchor = bigs[0]
    ncore = rng.choice([1, 2, 3, 3, 5, 8])
    core = rng.sample(anchor, ncore)               # docids meant to survive every operand
    if rng.random() < 0.3:
        core[0] = rng.choice(extreme)
    maps = []
    for j, keys in enumerate(bigs):
        ks = set(keys)
        ks.update(core if rng.random() < 0.85 else core[:-1])
        vals = {}
        for k in ks:
            vals[k] = gen_score(rng, "dyadic", signed=True) if rng.random() < 0.5 else (k % 5) / 4.0
        for k in core:                              # zeros / negatives exactly where it matters
            if k in vals and rng.random() < 0.45:
                vals[k] = rng.choice([0.0, 0.0, -0.5, -2.0, 0.25])
        maps.append((gen_weight(rng, "dyadic"), sorted(vals.items())))
    for j in range(ntiny):
        ks = set(core if rng.random() < 0.8 else core[1:])
        for _ in range(rng.randrange(0, 6)):
            k = rng.choice(anchor) if rng.random() < 0.6 else rng.choice(universe)
            ks.add(k + 5000 if rng.random() < 0.3 and abs(k) < 2 ** 30 else k)    # stays a 32-bit docid
        maps.append((gen_weight(rng, "dyadic"), [(k, gen_score(rng, "dyadic", signed=rng.random() < 0.6))
                                                 for k in sorted(ks)]))
    rng.shuffle(maps)
    return maps


def gen_setops_bigsmall(rng, tier, idx):
    fam = rng.choice([32, 64])
    kind = rng.choice(["bucket", "btree", "mixed"])
    maps = gen_bigsmall(rng, tier)
    op = "inter" if rng.random() < 0.7 else "union"
    cmds = [join_ops(op, maps)]
    n = len(maps)
    if n == 3:
        perms = list(itertools.permutations(range(n)))[1:]          # ALL orders
    else:
        perms = [list(range(n))[::-1]]
        for _ in range(3 if tier == "quick" else 6):
            p = list(range(n))
            rng.shuffle(p)
            perms.append(p)
    for p in perms:
        cmds.append(join_ops(op, [maps[i] for i in p]))
    if rng.random() < 0.3:
        ops = list(maps)
        ops.insert(rng.randrange(len(ops) + 1), (1, None))
        cmds.append(join_ops("inter", ops))
    if rng.random() < 0.3:
        cmds.append(join_ops("inter" if op == "union" else "union", maps))
    return {"session": "setops", "cfg": [["cfg", "fam", fam], ["cfg", "kind", kind], ["cfg", "stream", "dyadic"],
                                         ["cfg", "shape", "bigsmall"]], "cmds": cmds}


def gen_setops(rng, tier, idx):
    if rng.random() < 0.07:
        return gen_setops_bigsmall(rng, tier, idx)
    fam = rng.choice([32, 64])
    stream = "dyadic" if rng.random() < 0.7 else "float"
    kind = rng.choice(["bucket", "bucket", "btree", "mixed"])
    ids = list(range(16)) + ([2 ** 31 - 1, -2 ** 31] if fam == 32 else [2 ** 31 - 1, -2 ** 31, 2 ** 62, -2 ** 62])
    cmds = []
    signed = stream == "dyadic" and rng.random() < 0.3
    for _ in range(rng.randrange(1, 4)):
        maps = gen_maps(rng, stream, ids, tier)
        if signed:
            maps = [(w, [(k, gen_score(rng, "dyadic", True) if rng.random() < 0.5 else v) for k, v in m])
                    for w, m in maps]
        op = rng.choice(["union", "inter"])
        ops = list(maps)
        if op == "inter" and rng.random() < 0.35:
            for _ in range(rng.randrange(1, 3)):
                ops.insert(rng.randrange(len(ops) + 1), (gen_weight(rng, stream), None))
        cmds.append(join_ops(op, ops))
        if rng.random() < 0.3:
            cmds.append(join_ops(op + "tag", ops))
        # the same operands in other orders: every order must give the specified map
        if len(ops) >= 2:
            if tier == "thorough" and len(ops) <= 4 and rng.random() < 0.3:
                perms = list(itertools.permutations(range(len(ops))))[1:]
            else:
                perms = []
                for _ in range(rng.randrange(0, 3)):
                    p = list(range(len(ops)))
                    rng.shuffle(p)
                    perms.append(p)
            for p in perms:
                cmds.append(join_ops(op, [ops[i] for i in p]))
    return {"session": "setops", "cfg": [["cfg", "fam", fam], ["cfg", "kind", kind], ["cfg", "stream", stream]],
            "cmds": cmds}


def gen_nbest(rng, tier, idx):
    scale = rng.choice([1, 8])
    cmds = []
    if rng.random() < 0.1:
        cmds.append(["new", rng.choice([0, -1, -5])])
    cap = rng.choice([1, 1, 2, 2, 3, 3, 4, 5, 6, 8])
    cmds.append(["new", cap])
    nscores = rng.choice([1, 2, 3, 3, 5, 9])
    item = 0
    for _ in range(rng.randrange(3, 30 if tier == "quick" else 80)):
        r = rng.random()
        if r < 0.4:
            item += 1
            cmds.append(["add", item, rng.randrange(nscores)])
        elif r < 0.55:
            c = [rng.choice(ADDMANY)]
            for _ in range(rng.randrange(0, 2 * cap + 3)):
                item += 1
                c += [item, rng.randrange(nscores)]
            cmds.append(c)
        elif r < 0.7:
            cmds.append(["pop"])
            if rng.random() < 0.3:
                cmds.append(["pop"])
        elif r < 0.92:
            cmds.append(["best"])
        elif r < 0.96:
            cmds.append(["len"])
        elif r < 0.98:
            cmds.append(["cap"])
        else:
            # the binary search NBest.add relies on (CPython's bisect.bisect_left vs the model's `bisectLeft`;
            # `c17_nbest_bisect` ties it to the model's linear scan): ascending lists with runs of equal scores,
            # probes below / inside / between / above; one list in five is not sorted (model against CPython only)
            a = sorted(rng.randrange(nscores + 2) for _ in range(rng.choice([0, 1, 2, 3, 5, 8, 13, 40])))
            if rng.random() < 0.2:
                rng.shuffle(a)
            cmds.append(["bisect", rng.randrange(-1, nscores + 3)] + a)
    cmds.append(["best"])
    return {"session": "setopsnbest", "cfg": [["cfg", "scale", scale]], "cmds": cmds}


ADDMANY = ["addmany", "addmanyt", "addmanyi", "addmanyg"]
BIG_KINDS = ["ulp", "ulp", "timestamps", "timestamps", "mixed", "negative", "beyond-double"]


def big_pool(rng, kind, n):
    """n distinct ascending INTEGER scores a C double cannot tell apart (or cannot hold at all): neighbours above
    2**53, nanosecond timestamps 40 ns apart, the same below zero, mixed with small ints, ints beyond 1.8e308"""
    if kind == "ulp":
        base = rng.choice([2 ** 53, 2 ** 53 + 2, 2 ** 54 + 1, 2 ** 63 - 3, 2 ** 64, 10 ** 17, 2 ** 80 + 5])
        return [base + k for k in range(n)]
    if kind == "timestamps":
        t0 = 1700000000 * 10 ** 9 + rng.randrange(10 ** 9)
        return [t0 + rng.choice([1, 40, 40, 100]) * k for k in range(n)]
    if kind == "negative":
        base = rng.choice([2 ** 53, 2 ** 60 + 1, 10 ** 18])
        return sorted(-(base + k) for k in range(n))
    if kind == "beyond-double":
        return sorted(rng.choice([-1, 1]) * (10 ** 310 + k) for k in range(n))
    small = list(range(n // 2))
    return small + [2 ** 53 + 1 + k for k in range(n - len(small))]


def gen_nbest_big(rng, tier, idx):
    """NBest holds (item, score) for ANY mutually comparable scores: integer scores that differ by less than one ulp
    of a double (and ints no double can hold), handed over as ints and - where a float represents the value exactly
    - as floats mixed in; the scores that come back must be the values that went in (2**53 + 3 stays 2**53 + 3)"""
    kind = rng.choice(BIG_KINDS)
    cap = rng.choice([1, 1, 2, 2, 3, 4, 5, 8])
    nscores = rng.choice([2, 3, 5, 9, 12])
    pool = big_pool(rng, kind, nscores)
    cmds = [["new", cap]]
    item = 0
    arrival = rng.choice(["random", "random", "ascending", "descending"])
    seq = {"ascending": list(pool), "descending": list(reversed(pool))}.get(arrival)
    k = 0

    def score():
        nonlocal k
        if seq is not None and rng.random() < 0.8:
            k += 1
            return seq[(k - 1) % len(seq)]
        return rng.choice(pool)
    for _ in range(rng.randrange(3, 30 if tier == "quick" else 80)):
        r = rng.random()
        if r < 0.45:
            item += 1
            cmds.append(["add", item, score()])
        elif r < 0.6:
            c = [rng.choice(ADDMANY)]
            for _ in range(rng.randrange(0, 2 * cap + 3)):
                item += 1
                c += [item, score()]
            cmds.append(c)
        elif r < 0.7:
            cmds.append(["pop"])
        elif r < 0.94:
            cmds.append(["best"])
        elif r < 0.97:
            cmds.append(["len"])
        else:
            a = sorted(rng.choice(pool) for _ in range(rng.choice([0, 1, 2, 3, 5, 8, 13])))
            cmds.append(["bisect", rng.choice(pool) + rng.choice([-1, 0, 0, 1])] + a)
    cmds.append(["best"])
    return {"session": "setopsnbest", "cfg": [["cfg", "scale", 1], ["cfg", "mode", "big-" + kind]], "cmds": cmds}


def gen_nbest_bulk(rng, tier, idx):
    """big addmany batches (129-1000 pairs; list, tuple, iterator, generator) with heavy ties straddling the cut,
    mixed with add / pop_smallest / getbest; items may repeat"""
    scale = rng.choice([1, 8])
    cap = rng.choice([1, 2, 3, 5, 8, 10, 10, 25, 50, 128, 129, 200])
    cmds = [["new", cap]]
    nscores = rng.choice([1, 2, 3, 3, 5, 9, 40])
    item = [0]
    repeat_items = rng.random() < 0.25

    def pairs(n):
        c = []
        for _ in range(n):
            if repeat_items and item[0] > 3 and rng.random() < 0.3:
                it = rng.randrange(1, item[0] + 1)
            else:
                item[0] += 1
                it = item[0]
            c += [it, rng.randrange(nscores)]
        return c

    for _ in range(rng.randrange(2, 7)):
        r = rng.random()
        if r < 0.5:
            n = rng.choice([129, 130, 150, 200, 256, 257, 300, 400] if tier == "quick" or rng.random() < 0.6
                           else [500, 700, 1000])
            if rng.random() < 0.1:
                n = rng.choice([127, 128, 1000])
            c = pairs(n)
            m = rng.random()
            if m < 0.3:
                # ascending / descending arrival, the tie at the cut then sits at a known end of the batch
                ps = sorted([(c[i + 1], c[i]) for i in range(0, len(c), 2)], reverse=rng.random() < 0.5)
                c = [t for sc, it in ps for t in (it, sc)]
            cmds.append([rng.choice(ADDMANY)] + c)
        elif r < 0.62:
            cmds.append([rng.choice(ADDMANY)] + pairs(rng.randrange(0, 2 * min(cap, 20) + 3)))
        elif r < 0.75:
            cmds.append(["add"] + pairs(1))
        elif r < 0.88:
            for _ in range(rng.choice([1, 1, 2, cap // 2 + 1])):
                cmds.append(["pop"])
        else:
            cmds.append(["len"])
        cmds.append(["best"])
    return {"session": "setopsnbest", "cfg": [["cfg", "scale", scale], ["cfg", "mode", "bulk"]], "cmds": cmds}


def gen(rng, tier, idx):
    r = rng.random()
    if r < 0.6:
        return gen_setops(rng, tier, idx)
    if r < 0.68:
        return gen_nbest_bulk(rng, tier, idx)
    if r < 0.76:
        return gen_nbest_big(rng, tier, idx)
    return gen_nbest(rng, tier, idx)


# ----------------------------------------------------------------------------
# implementation side
# ----------------------------------------------------------------------------
def impl_setops(hyp, case):
    import BTrees
    from hypatia.text.setops import mass_weightedUnion, mass_weightedIntersection
    cfg = cfgdict(case)
    fam = BTrees.family32 if cfg["fam"] == 32 else BTrees.family64
    approx = cfg["stream"] == "float"
    outs = []
    for ci, c in enumerate(case["cmds"]):
        try:
            ops = split_ops(c[1:])
            L = []
            for j, (w, m) in enumerate(ops):
                if m is None:
                    L.append((None, w))
                    continue
                tree = cfg["kind"] == "btree" or (cfg["kind"] == "mixed" and (ci + j) % 2 == 0)
                obj = (fam.IF.BTree if tree else fam.IF.Bucket)()
                for k, v in m:
                    obj[k] = v
                L.append((obj, w))
            before = [None if x is None else list(x.items()) for x, _ in L]
            f = mass_weightedUnion if c[0].startswith("union") else mass_weightedIntersection
            r = f(L, fam)
            if [None if x is None else list(x.items()) for x, _ in L] != before and not c[0].endswith("tag"):
                outs.append("operand-modified")
            elif c[0].endswith("tag"):
                outs.append("operand" if any(r is x for x, _ in L) else "fresh")
            else:
                outs.append(fmt_map(list(r.items()), approx))
        except Exception as e:
            outs.append(exc_name(e))
    return outs


def impl_nbest(hyp, case):
    from hypatia.nbest import NBest
    scale = cfgdict(case)["scale"]
    big = str(cfgdict(case).get("mode", "")).startswith("big")
    nth = [0]

    def sc(s):
        if big:
            # the integer itself; every third time as a float when a float holds exactly this value (ints and floats
            # compare by value in Python, so the order is the integers' order)
            nth[0] += 1
            if nth[0] % 3 == 0 and abs(s) < 2 ** 1000 and int(float(s)) == s:
                return float(s)
            return s
        # k/8 as a float unless it is a whole number (mixes int and float scores)
        return s if scale == 1 else (s // scale if s % scale == 0 else s / float(scale))

    def unsc(x):
        if big:
            # exact: the value that comes back, whatever its type (int(float) is exact for integral floats)
            return int(x) if x == int(x) else x
        return int(round(x * scale))
    nb = None
    outs = []
    for c in case["cmds"]:
        try:
            op = c[0]
            if op == "new":
                nb = None
                nb = NBest(c[1])
                outs.append("ok")
            elif op == "add":
                nb.add(c[1], sc(c[2]))
                outs.append("ok")
            elif op in ("addmany", "addmanyt", "addmanyi", "addmanyg"):
                ps = [(c[i], sc(c[i + 1])) for i in range(1, len(c), 2)]
                before = list(ps)
                arg = ps if op == "addmany" else tuple(ps) if op == "addmanyt" else iter(ps) if op == "addmanyi" \
                    else (p for p in ps)
                nb.addmany(arg)
                outs.append("ok" if ps == before else "argument-modified")
            elif op == "pop":
                it, s = nb.pop_smallest()
                outs.append("%d:%s" % (it, unsc(s)))
            elif op == "best":
                outs.append("[" + " ".join("%d:%s" % (it, unsc(s)) for it, s in nb.getbest()) + "]")
            elif op == "len":
                outs.append(str(len(nb)))
            elif op == "cap":
                outs.append(str(nb.capacity()))
            elif op == "bisect":
                import bisect
                outs.append(str(bisect.bisect_left(list(c[2:]), c[1])))
            else:
                raise ValueError(c)
        except Exception as e:
            outs.append(exc_name(e))
    return outs


def impl_run(hyp, case):
    return impl_setops(hyp, case) if case["session"] == "setops" else impl_nbest(hyp, case)


# ----------------------------------------------------------------------------
# statistics
# ----------------------------------------------------------------------------
def nontrivial(case, outs):
    if case["session"] == "setops":
        for c, o in zip(case["cmds"], outs):
            ops = [m for _, m in split_ops(c[1:]) if m is not None]
            if len(ops) >= 2 and o.count(":") >= 1:
                keys = [set(k for k, _ in m) for m in ops]
                if any(keys[i] & keys[j] for i in range(len(keys)) for j in range(i)):
                    return True
        return False
    bests = [o for c, o in zip(case["cmds"], outs) if c[0] == "best"]
    return len(set(bests)) >= 2 and any(o.count(":") >= 2 for o in bests)


def features(case, outs):
    f = ["session:" + case["session"]]
    if case["session"] == "setops":
        cfg = cfgdict(case)
        f += ["fam:%s" % cfg["fam"], "kind:" + cfg["kind"], "stream:" + cfg["stream"]]
        if cfg.get("shape") == "bigsmall":
            f.append("case:bigsmall")
        for c, o in zip(case["cmds"], outs):
            ops = split_ops(c[1:])
            real = [(w, m) for w, m in ops if m is not None]
            op = c[0]
            f.append("op:" + op)
            if o.startswith("err") or o == "operand-modified":
                f.append(op + ":" + o)
            if len(real) < len(ops):
                f.append("inter:none-operands-dropped")
            if len(real) == 0:
                f.append(op[:5] + ":trivial-empty")
            elif len(real) == 1:
                f.append(op[:5] + (":trivial-weight-1" if real[0][0] == 1 else ":trivial-scaled"))
            else:
                f.append(op[:5] + ":maps=%d" % len(real))
                sizes = sorted(len(m) for _, m in real)
                if len(set(sizes)) < len(sizes):
                    f.append(op[:5] + ":equal-sizes")
                if sizes[0] == 0:
                    f.append(op[:5] + ":empty-operand")
                if sizes[-1] > 60:
                    f.append(op[:5] + ":big-operand")
                if any(w != 1 for w, _ in real[2:]):
                    f.append(op[:5] + ":non-1-weight-after-first-pair")
                vals = [v for _, m in real for _, v in m]
                if any(v == 0 for v in vals):
                    f.append(op[:5] + ":has-zero-score")
                if any(v < 0 for v in vals):
                    f.append(op[:5] + ":has-negative-score")
                if len(real) >= 3 and not o.startswith("err"):
                    # sizes as the code meets them (sorted by length): running result vs next operand
                    srt = sorted(real, key=lambda p: len(p[1]))
                    run = set(k for k, _ in srt[0][1])
                    if op.startswith("inter"):
                        run &= set(k for k, _ in srt[1][1])
                    else:
                        run |= set(k for k, _ in srt[1][1])
                    for w, m in srt[2:]:
                        if len(m) > 32 * len(run) and run:
                            f.append(op[:5] + ":next-operand>32x-running-result")
                            if op.startswith("inter"):
                                mm = dict(m)
                                if any(mm.get(k) == 0 for k in run):
                                    f.append("inter:>32x-operand-holds-0.0-at-surviving-docid")
                                if any(mm.get(k, 1) < 0 for k in run):
                                    f.append("inter:>32x-operand-holds-negative-at-surviving-docid")
                            f.append(op[:5] + ":>32x-operand-is-" + ("btree" if cfg["kind"] == "btree" else
                                                                      cfg["kind"]))
                            break
                        if op.startswith("inter"):
                            run &= set(k for k, _ in m)
                        else:
                            run |= set(k for k, _ in m)
                if sizes[-1] >= 300:
                    f.append(op[:5] + ":operand>=300-keys")
                if sizes[-1] >= 2000:
                    f.append(op[:5] + ":operand>=2000-keys")
                if o == "{}" or o == "~{}":
                    f.append(op[:5] + ":empty-result")
            if o in ("operand", "fresh"):
                f.append("tag:" + o)
        return f
    cap = None
    held = 0
    if cfgdict(case).get("mode") == "bulk":
        f.append("case:nbest-bulk")
    if str(cfgdict(case).get("mode", "")).startswith("big"):
        f.append("case:nbest-bigint")
        f.append("case:nbest-" + cfgdict(case)["mode"])
        scs = {c[i + 1] for c in case["cmds"] if c[0] in ("add",) + tuple(ADDMANY) for i in range(1, len(c), 2)}
        if any(a != b and max(abs(a), abs(b)) < 2 ** 1000 and float(a) == float(b) for a in scs for b in scs):
            f.append("nb:two-scores-one-double")
    for c, o in zip(case["cmds"], outs):
        f.append("nb:" + c[0])
        if o.startswith("err"):
            f.append("nb:" + o.replace(" ", "-"))
        if c[0] == "new" and o == "ok":
            cap, held = c[1], 0
            f.append("nb:cap=%d" % cap)
        elif c[0] in ("add", "addmany", "addmanyt", "addmanyi", "addmanyg") and cap:
            n = (len(c) - 1) // 2
            if n > 128:
                f.append("nb:batch>128:" + c[0])
                scs = sorted((c[i + 1] for i in range(1, len(c), 2)), reverse=True)
                if len(scs) > cap and scs[cap - 1] == scs[cap]:
                    f.append("nb:batch>128-tie-straddles-the-cut")
                    f.append("nb:batch>128-tie-straddles-the-cut:" + c[0])
                if n >= 500:
                    f.append("nb:batch>=500")
            its = [c[i] for i in range(1, len(c), 2)]
            if len(set(its)) < len(its):
                f.append("nb:batch-repeats-an-item")
            for _ in range(1, len(c), 2):
                if held >= cap:
                    f.append("nb:add-when-full")
                else:
                    held += 1
        elif c[0] == "pop" and held:
            held -= 1
        elif c[0] == "best":
            sc = [t.split(":")[1] for t in o[1:-1].split()]
            if len(set(sc)) < len(sc):
                f.append("nb:best-with-ties")
            if cap and len(sc) == cap:
                f.append("nb:best-full")
    return f


def shrink_more(case, fails):
    """drop operands, then entries (in halving chunks: operands can hold thousands of entries), of the remaining
    set-algebra commands; NBest sessions: thin out the big batches the same way"""
    budget = [400]

    def try_(c2):
        if budget[0] <= 0:
            return False
        budget[0] -= 1
        return fails(c2)

    def with_cmd(best, ci, toks):
        return dict(best, cmds=best["cmds"][:ci] + [toks] + best["cmds"][ci + 1:])

    best = case
    if case["session"] != "setops":
        for ci in range(len(best["cmds"])):
            c = best["cmds"][ci]
            if not c[0].startswith("addmany") or len(c) < 9:
                continue
            ps = [(c[i], c[i + 1]) for i in range(1, len(c), 2)]
            chunk = len(ps) // 2
            while chunk >= 1 and budget[0] > 0:
                i = 0
                while i < len(ps) and budget[0] > 0:
                    cand = ps[:i] + ps[i + chunk:]
                    c2 = with_cmd(best, ci, [c[0]] + [t for p_ in cand for t in p_])
                    if cand and try_(c2):
                        ps, best = cand, c2
                    else:
                        i += chunk
                chunk //= 2
        return best
    changed = True
    while changed and budget[0] > 0:
        changed = False
        for ci, c in enumerate(best["cmds"]):
            ops = split_ops(c[1:])
            for j in range(len(ops)):
                c2 = with_cmd(best, ci, join_ops(c[0], ops[:j] + ops[j + 1:]))
                if try_(c2):
                    best, changed = c2, True
                    break
            if changed:
                break
            for j, (w, m) in enumerate(ops):
                if not m:
                    continue
                chunk = max(1, len(m) // 2)
                while chunk >= 1 and budget[0] > 0:
                    i = 0
                    while i < len(m) and budget[0] > 0:
                        cand = m[:i] + m[i + chunk:]
                        c2 = with_cmd(best, ci, join_ops(c[0], ops[:j] + [(w, cand)] + ops[j + 1:]))
                        if try_(c2):
                            m, best, changed = cand, c2, True
                            ops = ops[:j] + [(w, m)] + ops[j + 1:]
                        else:
                            i += chunk
                    chunk //= 2
    return best


RULE = ("60% set-algebra cases: 1-3 operand lists of 0-6 IF maps (0-18 keys from a pool of 16 small and 4 "
        "extreme docids; shapes mixed/disjoint/identical/nested/common-core/equal-sized/60-260 keys; empty maps), weights "
        "from {1, 1.0, 2, 0.5, 3} (float stream: also arbitrary), None operands inserted into 35% of the "
        "intersections, each list re-run under 0-2 random permutations (thorough: all permutations of <= 4 "
        "operands in 30% of the lists), buckets / BTrees / mixed, family32 and family64, 70% dyadic scores "
        "compared exactly and 30% arbitrary float32 scores compared with rel. tol. 2e-6; 40% NBest sessions: "
        "capacity 1-8 (and N<1), 3-30 (thorough 80) add/addmany/pop_smallest/getbest/len calls with scores "
        "from a pool of 1-9 values (heavy ties), scores as ints or as k/8 floats, addmany given a list / tuple / "
        "iterator / generator; 7% of all cases NBest sessions with big integer scores (neighbours above 2**53, "
        "nanosecond timestamps, negatives, beyond the double range; ints and exact floats mixed; returned scores "
        "compared exactly). 7% of the set-algebra cases are `bigsmall`: 1-3 maps of 1-8 keys and 1-2 maps of "
        "300-1500 (12%: 3000; thorough also 2000) keys sharing a core of 1-8 docids, dyadic scores with exactly 0.0 "
        "and negative values (45% of the core entries of a big map), every order of 3 operands (4-5 random orders "
        "of more), a None operand added in 30%; a third of the ordinary dyadic cases also draw 0.0 / negative "
        "scores. 8% of all cases are `bulk` NBest sessions: capacity 1-200, 2-6 steps of addmany with 129-400 "
        "(thorough to 1000) pairs - ascending, descending or random arrival, 1-40 distinct scores, a quarter with "
        "repeated items - mixed with short batches, add, pop_smallest, len, getbest after every step. Measured "
        "quick seed 0 (3008 cases): bigsmall 138 cases, an intersection operand > 32 x the running result 600 "
        "commands (union 237), holding 0.0 at a surviving docid 362, a negative score there 324, that operand a "
        "Bucket 238 / BTree 137 / mixed case 225, operands >= 300 keys 856 commands (>= 2000: 54); bulk 246 cases, "
        "batches > 128 pairs 494 (list 118, tuple 138, iterator 114, generator 124), a tie straddling the cut in "
        "446 of them, batches repeating an item 148. non-trivial = an operand "
        "list of >= 2 maps sharing a key with a non-empty result / two different getbest answers with >= 2 "
        "entries")
LEVEL_TEXT = ("Lean 4 theorems over the reals for every list of (map, weight) pairs: the modelled "
              "mass_weightedUnion / mass_weightedIntersection (size-sorting, first-pair weights, NBest merge "
              "queue, None filtering, _trivial) give at every docid the sum of weight*score over the maps "
              "containing it, on exactly the union / intersection of the key sets, invariant under permutation; "
              "the merge loop terminates; NBest after any add/addmany/pop_smallest sequence holds the first N "
              "of the stable descending sort; tied to hypatia by a differential run against the real functions "
              "(both BTrees families)")
LEVEL_NOTE = ("trusted: Lean kernel (propext, Quot.sound, Classical.choice), BTrees weightedUnion / "
              "weightedIntersection / len as modelled, sampled correspondence, the harness. The theorems are "
              "about real-number arithmetic; float rounding and the 32-bit storage of IF buckets are outside "
              "(covered by exact comparison on dyadic scores and by tolerance on arbitrary ones)")
TECHNIQUE = ("Lean 4 proof (loop invariant on the merge queue / induction over operand lists and operation "
             "sequences) + differential correspondence")
THEOREMS = ["Hyp.C17." + t for t in (
    "c17_union_value", "c17_union_keys", "c17_inter_value", "c17_inter_keys", "c17_union_perm",
    "c17_inter_perm", "c17_union_nil", "c17_union_single", "c17_union_single_one", "c17_inter_nil",
    "c17_inter_single", "c17_inter_none_dropped", "c17_merge_queue_shrinks", "c17_sum_is_sum",
    "c17_nbest_adds", "c17_nbest_sequence", "c17_nbest_pop", "c17_nbest_len", "c17_nbest_new",
    # the results are maps (distinct keys); the model's linear scan is CPython's bisect_left
    "c17_union_is_map", "c17_inter_is_map", "c17_union_entries", "c17_nbest_bisect", "c17_bisect_left")]
