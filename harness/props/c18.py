"""C18  Queries, sorts and enumeration never modify an index or their inputs.

`read prov <kind>`: the object-level read model (`HypatiaModel/ConcurrencyReads.lean`) predicts whether the
container a read hands back is one the index stores (two calls return the very same object) or one allocated by
the call.  Sanity check by mutation of this tie (scratch copies):
  T5  `BaseIndexMixin.docids` tests `len(indexed) == 0` first (hands back the stored, empty not-indexed set of an
      empty index)                                                                                caught
  T6  `KeywordIndex.search` returns `IF.Set(rs)` instead of the stored posting                   caught
`read prov ccounts <a>`: `FacetIndex.counts` on the object-level heap (`HypatiaModel/ConcurrencyFacetReads.lean`; empty
stored-write set, theorem `c18_facet_counts_writes_nothing`): the model answers with the dictionary it computes from
the reverse entries it reads - only if its write log and allocator did not move - and the real `counts` must give the same.
  T7  `FacetIndex.counts` omits only the exact `omit_facets` entries, not their ancestors          caught
Reads that overlap in time, and query objects the caller still holds (builder wt_strong7):
  `read isort`: 2-3 FieldIndex.sort results (lazy generators; all sort types forced and auto-selected, the same
  request again 36%) in flight together - read alternately, one id first and the rest after another sort, in
  reverse creation order - each compared with the same sort read on its own (a read's answer must not depend on
  another read being half done).  `read tree0/tree1`: 35% of the trees are negation shapes
  `Not(And(Not(Or(..)), x, ..))` / `Not(Or(Not(And(..)), x, ..))` (inner negated operator first 82%, doubly negated
  operands) - `Not.negate()` hands back the caller's OWN child object; EVERY query object the caller constructed
  (also operators a same-type parent flattened away) is snapshot before/after, also when the execution raises, and
  up to 12 And/Or/Not sub-queries are executed on their own before and after the enclosing query.
  seeded C18_G  scan_forward keeps one volatile working set on the index                 MISSED before, now caught
  seeded C18_H  BoolOp.__init__ adopts the .queries list of a leftmost same-type operand MISSED before, now caught
  M18i  Not._optimize optimises the operands of `self.query.negate()` in place when it is an And/Or (only bites
        when negate() returned the caller's own operator: double negation)                               caught
  M07m  FieldIndex._timsort keeps its missing-docids list on the index                    caught (isort; also C07, C11)
"""
import importlib

from lib import qtree
from lib.core import exc_name, idset

ID = "C18"
AUDIT_IMPORTS = ["HypatiaProofs.Properties.C18", "HypatiaProofs.Properties.C18Index",
                 "HypatiaProofs.Properties.C18Facet"]
THEOREMS = ["Hyp.Alias." + t for t in ("c18_okapi_apply_target_fresh", "c18_cosine_apply_target", "c18_scan_forward_target_fresh", "c18_docids_may_be_stored", "c18_negate_may_be_stored", "c18_docids_fresh_otherwise", "c18_query_union_aliases")] + \
    ["Hyp.CIdx." + t for t in (      # reads on the object-level heaps (Properties/C18Index.lean)
        "c18_field_reads_write_fresh", "c18_field_read_state_unchanged", "c18_docids_prov", "c18_scan_prov",
        "c18_scan_forward_prov", "c18_keyword_reads_write_fresh", "c18_keyword_search_one_prov",
        "c18_text_reads_write_fresh", "c18_text_read_state_unchanged", "c18_okapi_apply_prov",
        "c18_cosine_apply_prov", "c18_cosine_idf_one_writes_stored",
        # the facet index's reads incl. FacetIndex.counts (Properties/C18Facet.lean)
        "c18_facet_counts_writes_nothing", "c18_facet_reads_write_fresh", "c18_facet_counts_value")]
CASES = {"quick": 400, "thorough": 60000}
BUDGET_S = {"quick": 50, "thorough": 780}
BATCH = 10
RULE = ("sessions on a catalog with field, keyword, facet, Okapi-text and cosine-text indexes (tree_threshold 2, "
        "DICT_CUTOFF 2 or 10): 3-25 indexing operations, then 10-40 reads drawn from: every comparator via "
        "applyX and via query objects executed with and without optimisation, And/Or/Not trees, text apply / "
        "check_query / parse_query with unknown words, globs and phrases, FieldIndex.sort with every sort_type x "
        "reverse x limit x raise_unsortable on caller-owned sets/lists and on containers the index itself handed "
        "out (not_indexed(), docids(), applyEq/applyNotEq results), 2-3 field sorts in flight together read "
        "alternately and each compared with the same sort alone (5% of the reads; quick seed 0: 511 reads, 278 with "
        "two possible forward scans), text relevance sort, counts, ResultSet "
        "first/one/all/len/intersect/sort, CatalogQuery.search/query, all enumeration and statistics methods. "
        "Every read is executed twice; before and after, the complete observable state of every index, both "
        "lexicons' vocabularies, the caller's collection and a structural+identity snapshot of the query object "
        "are compared; trees: 35% negation shapes Not(And/Or(Not(Or/And(..)), ..)) (quick seed 0: 332 of 960 trees, "
        "inner negated operator as first operand 271), every constructed query object snapshot, And/Or/Not "
        "sub-queries executed alone before and after. non-trivial = at least 8 distinct reads on a non-empty catalog")
LEVEL_TEXT = ("Lean 4: (1) reads are functions State -> Args -> Result in every pure model (purity by type); (2) the "
              "provenance table - every in-place write on a read path (TextIndex.apply rescaling, scan_forward "
              "removal, N-best merging) targets a freshly allocated container, for Okapi unconditionally and for "
              "cosine because idf is never 1; (3) the read paths on the object-level heaps of persistent objects "
              "that C19 and C09 use (posting lookup, multiunion scans, not_indexed, docids, _negate, scan_forward "
              "with its copy, KeywordIndex.search, FacetIndex.counts, Okapi/cosine _search_wids, _trivial, the rescaling "
              "loop), "
              "with read and write logs: for every state and argument each read writes only to objects it "
              "allocated during the call, so the index state (resolved view; every stored object) is unchanged "
              "and no stored object is registered with the transaction (c18_*_reads_write_fresh, "
              "c18_*_read_state_unchanged; FacetIndex.counts allocates no persistent object and writes nothing at all, "
              "and returns C13's counts: c18_facet_counts_writes_nothing, c18_facet_counts_value); the provenance "
              "table's entries are what these reads return "
              "(c18_docids_prov, c18_scan_forward_prov, c18_keyword_search_one_prov, c18_okapi_apply_prov, "
              "c18_cosine_apply_prov), the cosine idf = 1 case being a real write to a stored IFBTree at this "
              "level (witness). The correspondence run checks the real objects: state, inputs and query objects "
              "before/after every read, repeatability, and - for docids / not_indexed / applyEq / ranges / "
              "keyword search / one-word text apply - that the object-level model predicts whether two calls "
              "return the very same container, and for FacetIndex.counts that the object-level read returns the "
              "same dictionary")
LEVEL_NOTE = ("partial: purity of the pure models is by construction; the object-level read models and the "
              "provenance table are hand-written from the code and tied to it by the runs (state snapshots, "
              "object identity of returned containers)")
TECHNIQUE = "Lean 4 provenance model (fresh vs stored containers) + before/after differential observation of the real objects"

c09 = importlib.import_module("props.c09")
SORT_TYPES = [None, "stable", "optimal", "fwscan", "nbest", "timsort"]
TEXT_QUERIES = ["apple", "berry OR fig", '"cherry date"', "grape -apple", "haz*", "zzzunknown", "apple AND NOT berry",
                "(date OR elder) fig", "qqq OR apple", '"iris jade"', "the", "j?de", "-apple", "((", "apple zzz*"]


def gen(rng, tier, idx):
    nids = rng.randrange(2, 9)
    ids = list(range(nids))
    cmds = []
    shared = rng.random() < 0.5
    seeds = [rng.randrange(60) for _ in range(2)]

    # some sessions have documents but no value for the field / keyword / facet index: `docids()` then
    # hands back the stored not-indexed set itself
    allmissing = rng.random() < 0.08

    def docspec():
        if allmissing:
            return ["-", "-", "-", rng.choice(seeds), "-" if rng.random() < 0.5 else rng.choice(seeds)]
        if shared:
            return [rng.randrange(3), rng.choice([1, 3, 3, 7, 2]), rng.choice([0, 1, 8]), rng.choice(seeds),
                    rng.choice(seeds)]
        return ["-" if rng.random() < 0.2 else rng.randrange(8),
                "-" if rng.random() < 0.2 else rng.randrange(1, 32),
                "-" if rng.random() < 0.2 else rng.randrange(40),
                "-" if rng.random() < 0.2 else rng.randrange(60),
                "-" if rng.random() < 0.2 else rng.randrange(60)]
    for k in range(rng.randrange(3, 25)):
        d = rng.choice(ids)
        if rng.random() < 0.8:
            cmds.append(["op", k, rng.choice(["index", "reindex"]), d] + docspec())
        else:
            cmds.append(["op", k, "unindex", d])
    for _ in range(rng.randrange(10, 40)):
        cmds.append(gen_read(rng, ids))
        if rng.random() < 0.1:
            d = rng.choice(ids)
            cmds.append(["op", 1000 + len(cmds), "index", d] + docspec())
    return {"session": "reads", "cfg": [["cfg", "ids", nids], ["cfg", "cutoff", rng.choice([2, 10])]], "cmds": cmds}


def gen_read(rng, ids):
    r = rng.random()
    sub = lambda: [d for d in ids + [97, 98] if rng.random() < 0.6]  # noqa: E731
    if r < 0.14:
        op = rng.choice(["eq", "noteq", "gt", "ge", "lt", "le", "any", "notany", "inrange", "notinrange"])
        args = [rng.randrange(8)] if op not in ("any", "notany", "inrange", "notinrange") else \
            [rng.randrange(8) for _ in range(rng.randrange(0, 3))] if op in ("any", "notany") else \
            [rng.randrange(8), rng.randrange(8), rng.randrange(2), rng.randrange(2)]
        return ["read", rng.choice(["fapply", "fexec0", "fexec1"]), op] + args
    if r < 0.24:
        op = rng.choice(["eq", "noteq", "any", "notany", "all", "notall"])
        ks = [rng.randrange(5) for _ in range(1 if op in ("eq", "noteq") else rng.randrange(0, 3))]
        return ["read", rng.choice(["kapply", "kexec0", "kexec1", "capply"]), op] + ks
    if r < 0.38:
        return ["read", rng.choice(["tapply", "tcheck", "tparse", "tnot", "uapply", "unot", "texec"]),
                rng.randrange(len(TEXT_QUERIES))]
    if 0.55 <= r < 0.6:
        # 2-3 sorts of the field index IN FLIGHT at the same time (lazy generators consumed alternately, one id
        # first and the rest after another sort, in reverse creation order), each compared with the same sort
        # read on its own
        n = rng.choice([2, 2, 3])
        specs = []
        for k in range(n):
            src = rng.choice(["own-set", "own-list", "own-treeset", "docids", "indexed", "applynoteq", "all", "all"])
            st = rng.choice([0, 0, 2, 3, 3, rng.randrange(len(SORT_TYPES))])
            spec = [src, st, 0 if st == 3 else rng.randrange(2), rng.choice([0, 0, 0, 1, 2, 50]),
                    rng.randrange(2), rng.randrange(8), rng.randrange(1, 1 << (len(ids) + 2))]
            if k and rng.random() < 0.3:
                spec = list(specs[0])        # the same request again
            specs.append(spec)
        return ["read", "isort", rng.randrange(1 << 30), n] + [x for sp in specs for x in sp]
    if r < 0.6:
        src = rng.choice(["own-set", "own-list", "own-treeset", "not_indexed", "docids", "applyeq", "applynoteq",
                          "indexed"])
        return ["read", "sort", src, rng.randrange(len(SORT_TYPES)), rng.randrange(2),
                rng.choice([0, 1, 2, 50]), rng.randrange(2), rng.randrange(8)] + sub()
    if r < 0.66:
        return ["read", "tsort", rng.randrange(len(TEXT_QUERIES)), rng.randrange(2), rng.choice([0, 1, 3])]
    if r < 0.72:
        return ["read", "counts", rng.randrange(4)] + sub()
    if r < 0.77:
        return ["read", "enum", rng.choice(["docids", "indexed", "not_indexed", "counts", "unique_values", "repr",
                                            "lexicon"])]
    if r < 0.8:
        # provenance of the container a read hands back (stored = two calls return the very same object),
        # compared with the object-level model's answer
        return ["read", "prov", rng.choice(PROV_KINDS), rng.randrange(40)]
    if r < 0.9:
        # boolean tree over the catalog's five indexes (kinds as in lib.qtree); 40%: negation shapes - an inner
        # negated And/Or as (mostly) FIRST operand of a negated Or/And, doubly negated operands
        kinds = ["field", "keyword", "facet", "text", "text"]
        if rng.random() < 0.4:
            t = gen_negshape(rng, kinds)
        else:
            t = qtree.gen_tree(rng, kinds, rng.randrange(1, 4))
        return ["read", rng.choice(["tree0", "tree1"])] + qtree.flat_tokens(t)
    if r < 0.95:
        return ["read", "rs", rng.choice(["first", "one", "all", "len", "intersect", "sortsort"]), rng.randrange(8)]
    return ["read", "legacy", rng.randrange(8), rng.randrange(32), rng.randrange(2), rng.choice([0, 2]),
            rng.randrange(5)]


def gen_negshape(rng, kinds):
    """`Not(And(Not(Or(..)), x, ..))` / `Not(Or(Not(And(..)), x, ..))` and relatives: executing them negates the
    outer operator, and `Not.negate()` hands back the caller's own inner Or/And object, which becomes an operand
    (mostly the first one) of a freshly constructed operator of the SAME type"""
    sub = lambda d: qtree.gen_tree(rng, kinds, d)  # noqa: E731
    inner_op = rng.choice(["and", "or"])
    inner = [inner_op, [sub(rng.choice([0, 0, 1])) for _ in range(rng.choice([2, 2, 3]))]]
    first = ["not", inner]
    if rng.random() < 0.15:
        first = ["not", ["not", first]]
    outer_op = ("or" if inner_op == "and" else "and") if rng.random() < 0.8 else inner_op
    rest = [sub(rng.choice([0, 0, 1])) for _ in range(rng.choice([1, 1, 2]))]
    if rng.random() < 0.25:
        rest[0] = ["not", [inner_op, [sub(0), sub(0)]]]       # a second negated operator of that type
    kids = [first] + rest
    if rng.random() < 0.2:
        kids.insert(0, kids.pop(1))                          # the negated operator in second place
    t = ["not", [outer_op, kids]]
    q = rng.random()
    if q < 0.15:
        t = ["not", ["not", t]]
    elif q < 0.3:
        t = [rng.choice(["and", "or"]), [t, sub(0)]]
    elif q < 0.4:
        t = [rng.choice(["and", "or"]), [sub(0), t]]
    return t


def is_negshape(t):
    """a Not over an And/Or one of whose operands is a Not over an And/Or (anywhere in the tree)"""
    if t[0] == "not":
        k = t[1]
        if k[0] in ("and", "or") and any(x[0] == "not" and x[1][0] in ("and", "or") for x in k[1]):
            return "first" if (k[1][0][0] == "not" and k[1][0][1][0] in ("and", "or")) else "later"
        return is_negshape(k)
    if t[0] in ("and", "or"):
        for k in t[1]:
            r = is_negshape(k)
            if r:
                return r
    return None


PROV_KINDS = ["fdocids", "fni", "feq", "frange", "kdocids", "kni", "keq", "kany", "cdocids", "cni", "ccounts",
              "tapply", "uapply"]


def counts_args(a):
    """arguments of `read prov ccounts a` (the same derivation as Driver/Reads.lean: countsArgs): a repeated and an
    unknown docid, four omit lists"""
    return [a % 8, (a // 3) % 8, a % 8, 97], [[], ["a:b"], ["d"], ["a:b:c", "f"]][a % 4]


def model_cmd(c):
    """ordinary reads are acknowledged by the (pure) model; operations and provenance reads go to the
    object-level model in full"""
    if c[0] == "read":
        return c if c[1] == "prov" else ["read"]
    return c


class Sess(object):
    def __init__(self, hyp, cutoff, nids):
        self.cat = c09.make_catalog(cutoff)
        self.ids = list(range(nids)) + [97, 98]
        self.f, self.k, self.c, self.t, self.u = (self.cat["i%d" % i] for i in range(5))
        self.problems = []      # what a read noticed by itself (beyond state / inputs / repeatability)

    def state(self):
        lex = []
        for ix in (self.t, self.u):
            lx = ix.lexicon
            lex.append("words=%r wids=%r n=%d" % (list(lx.words()), list(lx.wids()), lx.word_count()))
        return c09.observe(self.cat, self.ids) + " ;; " + " | ".join(lex)

    # ---- reads: each returns (canonical result, list of (name, object, snapshot-fn) inputs to re-check) ----
    def read(self, c):
        from hypatia import query as Q
        from hypatia.catalog import CatalogQuery
        from hypatia.util import ResultSet
        kind = c[1]
        inputs = []

        def snap(name, fn):
            return (name, fn, fn())        # snapshot taken before the read is executed

        def canon(x):
            if hasattr(x, "items") and not isinstance(x, dict):
                return "w{" + " ".join("%s:%.5g" % (k, v) for k, v in sorted(x.items())) + "}"
            if isinstance(x, dict):
                return repr(sorted(x.items()))
            if isinstance(x, (bool, int, str)) or x is None:
                return repr(x)
            try:
                return idset(list(x))
            except TypeError:
                return repr(x)
        if kind == "prov" and c[2] == "ccounts":
            # FacetIndex.counts on the object-level heap (HypatiaModel/ConcurrencyFacetReads.lean): the model answers
            # with the dictionary it computes from the reverse entries, provided its write log gained nothing
            docids, omit = counts_args(c[3])
            r1 = self.c.counts(docids, omit)
            r2 = self.c.counts(docids, omit)
            return "prov %s counts=%s" % ("stored" if r1 is r2 else "fresh", ",".join(
                "%d:%d" % kv for kv in sorted((c09.FACETS.index(k), v) for k, v in r1.items()))), inputs
        if kind == "prov":
            what, a = c[2], c[3]
            fn = {"fdocids": self.f.docids, "fni": self.f.not_indexed,
                  "feq": lambda: self.f.applyEq(a % 8),
                  "frange": lambda: self.f.applyInRange(a % 4, a % 4 + 3),
                  "kdocids": self.k.docids, "kni": self.k.not_indexed,
                  "keq": lambda: self.k.applyEq(c09.KWS[a % 5]),
                  "kany": lambda: self.k.applyAny([c09.KWS[a % 5], c09.KWS[(a + 1) % 5]]),
                  "cdocids": self.c.docids, "cni": self.c.not_indexed,
                  "tapply": lambda: self.t.apply(c09.WORDS[a % 10]),
                  "uapply": lambda: self.u.apply(c09.WORDS[a % 10])}[what]
            r1 = fn()
            r2 = fn()
            return "prov " + ("stored" if r1 is r2 else "fresh"), inputs
        if kind in ("fapply", "fexec0", "fexec1"):
            op = c[2]
            if op in ("any", "notany"):
                args = (list(c[3:]),)
            elif op in ("inrange", "notinrange"):
                args = (c[3], c[4], bool(c[5]), bool(c[6]))
            else:
                args = (c[3],)
            if kind == "fapply":
                name = {"eq": "applyEq", "noteq": "applyNotEq", "gt": "applyGt", "ge": "applyGe", "lt": "applyLt",
                        "le": "applyLe", "any": "applyAny", "notany": "applyNotAny", "inrange": "applyInRange",
                        "notinrange": "applyNotInRange"}[op]
                return canon(getattr(self.f, name)(*args)), inputs
            q = getattr(self.f, op)(*args)
            inputs.append(snap("query", lambda q=q: self.qsnap(q)))
            return canon(q.execute(optimize=(kind == "fexec1")).ids), inputs
        if kind in ("kapply", "kexec0", "kexec1", "capply"):
            op = c[2]
            ix = self.c if kind == "capply" else self.k
            pool = c09.FACETS if kind == "capply" else c09.KWS
            vals = [pool[i % len(pool)] for i in c[3:]]
            arg = vals[0] if op in ("eq", "noteq") else vals
            if kind in ("kapply", "capply"):
                name = {"eq": "applyEq", "noteq": "applyNotEq", "any": "applyAny", "notany": "applyNotAny",
                        "all": "applyAll", "notall": "applyNotAll"}[op]
                if isinstance(arg, list):
                    inputs.append(snap("arg", lambda a=arg: repr(a)))
                return canon(getattr(ix, name)(arg)), inputs
            q = getattr(ix, op)(arg)
            inputs.append(snap("query", lambda q=q: self.qsnap(q)))
            return canon(q.execute(optimize=(kind == "kexec1")).ids), inputs
        if kind in ("tapply", "tcheck", "tparse", "tnot", "uapply", "unot", "texec"):
            qs = TEXT_QUERIES[c[2]]
            ix = self.u if kind.startswith("u") else self.t
            if kind in ("tapply", "uapply"):
                return canon(ix.apply(qs)), inputs
            if kind == "tcheck":
                return canon(ix.check_query(qs)), inputs
            if kind == "tparse":
                return repr(ix.parse_query(qs)), inputs
            if kind == "texec":
                q = ix.contains(qs)
                inputs.append(snap("query", lambda q=q: self.qsnap(q)))
                return canon(q.execute().ids), inputs
            return canon(ix.applyNotContains(qs)), inputs
        if kind == "sort":
            src, st, rev, lim, raise_u, const = c[2:8]
            own = list(c[8:])
            if src == "own-set":
                coll = set(own)
            elif src == "own-list":
                coll = list(own)
            elif src == "own-treeset":
                coll = self.f.family.IF.TreeSet(own)
            elif src == "not_indexed":
                coll = self.f.not_indexed()
            elif src == "docids":
                coll = self.f.docids()
            elif src == "indexed":
                coll = self.f.indexed()
            elif src == "applyeq":
                coll = self.f.applyEq(const)
            else:
                coll = self.f.applyNotEq(const)
            inputs.append(snap("collection", lambda x=coll: repr(list(x))))
            from hypatia.exc import Unsortable
            out = []
            try:
                for d in self.f.sort(coll, reverse=bool(rev), limit=lim or None, sort_type=SORT_TYPES[st],
                                     raise_unsortable=bool(raise_u)):
                    out.append(d)
                return "[%s]" % " ".join(map(str, out)), inputs
            except Unsortable as e:
                return "[%s] unsortable=%s" % (" ".join(map(str, out)), idset(list(e.docids))), inputs
        if kind == "tsort":
            res = self.t.apply(TEXT_QUERIES[c[2]])
            inputs.append(snap("weights", lambda x=res: repr(sorted(x.items()))))
            return canon(list(self.t.sort(res, reverse=bool(c[3]), limit=c[4] or None))), inputs
        if kind == "counts":
            omit = [[], ["a"], ["a:b"], ["d", "f"]][c[2]]
            docids = list(c[3:])
            inputs.append(snap("docids", lambda x=docids: repr(x)))
            inputs.append(snap("omit", lambda x=omit: repr(x)))
            return canon(self.c.counts(docids, omit)), inputs
        if kind == "enum":
            what = c[2]
            outs = []
            for ix in (self.f, self.k, self.c, self.t, self.u):
                if what == "docids":
                    outs.append(canon(ix.docids()) + str(ix.docids_count()))
                elif what == "indexed":
                    outs.append(canon(ix.indexed()) + str(ix.indexed_count()))
                elif what == "not_indexed":
                    outs.append(canon(ix.not_indexed()) + str(ix.not_indexed_count()))
                elif what == "counts":
                    outs.append("%d" % ix.word_count())
                elif what == "unique_values" and hasattr(ix, "unique_values"):
                    outs.append(repr(list(ix.unique_values())))
                elif what == "repr":
                    outs.append("|".join(str(ix.document_repr(d, "-")) for d in self.ids))
                elif what == "lexicon" and hasattr(ix, "lexicon"):
                    lx = ix.lexicon
                    outs.append(repr((lx.termToWordIds("apple zzzunknown Berry"), lx.parseTerms("fig-grape h*z"),
                                      lx.globToWordIds("ha*"), lx.get_wid("apple"), lx.isGlob("a*"))))
            return " ; ".join(outs), inputs
        if kind in ("tree0", "tree1"):
            im = self.qimpl()
            nodes = []          # EVERY query object the caller constructed (also those an operator flattened away)

            def build(t):
                if t[0] == "not":
                    q = Q.Not(build(t[1]))
                elif t[0] in ("and", "or"):
                    q = (Q.And if t[0] == "and" else Q.Or)(*[build(k) for k in t[1]])
                else:
                    q = im.build(t)
                nodes.append(q)
                return q
            q = build(qtree.parse_tokens(list(c[2:])))

            def alone(x):
                try:
                    return canon(x.execute(optimize=False).ids)
                except Exception as e:
                    return exc_name(e)
            subs = [x for x in nodes[:-1] if isinstance(x, (Q.BoolOp, Q.Not))][:12]
            for j, x in enumerate(nodes):
                inputs.append(snap("query" if x is q else "sub-query", lambda x=x: repr(im.snapshot(x))))
            before = [alone(x) for x in subs]
            for n, fn, s0 in inputs:
                if fn() != s0:
                    self.problems.append("input-changed:%s(by-executing-a-sub-query)" % n)
            try:
                res = canon(q.execute(optimize=(kind == "tree1")).ids)
            except Exception as e:
                res = exc_name(e)
            # the sub-queries the caller still holds answer as before
            if [alone(x) for x in subs] != before:
                self.problems.append("sub-query-answers-differently-afterwards")
            return res, inputs
        if kind == "isort":
            import random
            from hypatia.exc import Unsortable
            n = c[3]
            specs = [c[4 + 7 * k: 11 + 7 * k] for k in range(n)]

            def coll_of(sp):
                src, st, rev, lim, raise_u, const, mask = sp
                own = [d for j, d in enumerate(self.ids) if (mask >> j) & 1]
                return {"own-set": lambda: set(own), "own-list": lambda: list(own),
                        "own-treeset": lambda: self.f.family.IF.TreeSet(own), "docids": self.f.docids,
                        "indexed": self.f.indexed, "applynoteq": lambda: self.f.applyNotEq(const),
                        "all": lambda: list(self.ids)}[src]()

            def start(sp, coll):
                src, st, rev, lim, raise_u, const, mask = sp
                return self.f.sort(coll, reverse=bool(rev), limit=lim or None, sort_type=SORT_TYPES[st],
                                   raise_unsortable=bool(raise_u))

            def pull(h, k):
                while h["done"] is None and (k is None or k > 0):
                    try:
                        h["out"].append(next(h["it"]))
                    except StopIteration:
                        h["done"] = "ok"
                    except Unsortable as e:
                        h["done"] = "unsortable=" + idset(list(e.docids))
                    except Exception as e:
                        h["done"] = exc_name(e)
                    if k is not None:
                        k -= 1

            def opened(sp, coll):
                try:
                    return {"it": iter(start(sp, coll)), "out": [], "done": None}
                except Exception as e:
                    return {"it": iter(()), "out": [], "done": exc_name(e)}

            def show(h):
                return "[%s] %s" % (" ".join(map(str, h["out"])), h["done"])
            colls = [coll_of(sp) for sp in specs]
            for k, x in enumerate(colls):
                inputs.append(snap("collection", lambda x=x: repr(list(x))))
            want = []
            for sp, coll in zip(specs, colls):       # each sort read on its own
                h = opened(sp, coll)
                pull(h, None)
                want.append(show(h))
            rng = random.Random(c[2])
            hs = []
            for sp, coll in zip(specs, colls):       # the same sorts in flight together
                hs.append(opened(sp, coll))
                for _ in range(rng.choice([0, 1, 1, 2])):
                    pull(rng.choice(hs), rng.choice([1, 1, 2, 3, None]))
            for _ in range(rng.choice([0, 2, 4, 8])):
                pull(rng.choice(hs), rng.choice([1, 1, 2, 3]))
            order = list(hs)
            q = rng.random()
            if q < 0.4:
                order.reverse()
            elif q < 0.6:
                rng.shuffle(order)
            for h in order:
                pull(h, None)
            got = [show(h) for h in hs]
            if got != want:
                self.problems.append("sort-in-flight-with-another-differs-from-the-same-sort-alone")
            return " | ".join(want), inputs
        if kind == "rs":
            what, const = c[2], c[3]
            gen = (d for d in sorted(self.f.applyGe(const)))
            n = len(self.f.applyGe(const))
            rs = ResultSet(gen, n, lambda d: d * 10 + 1)
            if what == "first":
                return canon((rs.first(), rs.first(resolve=False), list(rs))), inputs
            if what == "one":
                try:
                    return canon((rs.one(), list(rs))), inputs
                except Exception as e:
                    return exc_name(e) + canon(list(rs)), inputs
            if what == "all":
                return canon(list(rs.all())), inputs
            if what == "len":
                return canon((len(rs), len(list(rs)))), inputs
            if what == "intersect":
                other = self.f.applyLe(const + 2)
                inputs.append(snap("other", lambda x=other: repr(list(x))))
                return canon(list(rs.intersect(other))), inputs
            rs2 = self.f.ge(const).execute()
            try:
                a = rs2.sort(self.f, raise_unsortable=False)
                b = a.sort(self.f, reverse=True, limit=3, raise_unsortable=False)
                return canon((list(b), len(b), list(a), len(a))), inputs
            except Exception as e:
                return exc_name(e), inputs
        if kind == "legacy":
            const, kwmask, ordered, lim = c[2:6]
            fmode = c[6] if len(c) > 6 else 0
            from hypatia.field import RangeValue
            cq = CatalogQuery(self.cat)
            kws = [c09.KWS[i] for i in range(5) if (kwmask >> i) & 1]
            # every legacy argument form of the field index; the caller's dicts/lists must survive the read
            fq = [(const, const + 3),
                  {"query": [RangeValue(const - 2, const + 3), RangeValue(const, const + 5)], "operator": "and"},
                  {"query": [const, const + 1], "operator": "or"},
                  {"query": RangeValue(None, const)},
                  [const, const + 2]][fmode]
            if fmode in (1, 2, 3) and ordered:
                # the index's own apply(), twice with the same caller-owned argument
                inputs.append(snap("fq", lambda a=fq: repr(sorted(a.items(), key=str))))
                r1 = canon(self.f.apply(fq))
                r2 = canon(self.f.apply(fq))
                return r1 + "/" + r2 + ("" if r1 == r2 else " DIFFERENT-SECOND-ANSWER"), inputs
            args = {"i0": fq}
            if kws:
                args["i1"] = {"query": kws, "operator": "or"}
            inputs.append(snap("args", lambda a=args: repr(sorted(a.items(), key=str))))
            kw = dict(args)
            if ordered:
                kw["index_query_order"] = ["i1", "i0"]
            kw["sort_index"] = "i0"
            if lim:
                kw["limit"] = lim
            try:
                num, res = cq.search(**kw)
                num2, res2 = cq.search(**kw)        # same caller-owned arguments again
                if (num, list(res)) != (num2, list(res2)):
                    return canon((num, list(res))) + " DIFFERENT-SECOND-ANSWER " + canon((num2, list(res2))), inputs
                return canon((num, list(res))), inputs
            except Exception as e:
                return exc_name(e), inputs
        raise ValueError(c)

    def qimpl(self):
        im = qtree.Impl.__new__(qtree.Impl)
        im.kinds = ["field", "keyword", "facet", "text", "text"]
        im.idx = [self.f, self.k, self.c, self.t, self.u]
        im.cat = self.cat
        # constants of lib.qtree map to this catalog's vocabularies
        im.const = lambda i, x: x if i == 0 else c09.KWS[x % 5] if i == 1 else c09.FACETS[x % 6] if i == 2 \
            else c09.WORDS[x % len(c09.WORDS)]
        return im

    def qsnap(self, q):
        return repr(self.qimpl().snapshot(q))


def impl_run(hyp, case):
    s = Sess(hyp, case["cfg"][1][2], case["cfg"][0][2])
    out = []
    for c in case["cmds"]:
        if c[0] == "op":
            try:
                c09.apply_op(s.cat, c)
                out.append("ok")
            except Exception as e:
                out.append(exc_name(e))
            continue
        before = s.state()
        problems = []
        results = []
        for rep in range(2):
            try:
                res, inputs = s.read(c)
            except Exception as e:
                res, inputs = exc_name(e), []
            results.append(res)
            problems += s.problems
            s.problems = []
            after = s.state()
            if after != before:
                problems.append("index-state-changed")
                before = after
            for n, fn, snap0 in inputs:
                try:
                    if fn() != snap0:
                        problems.append("input-changed:" + n)
                except Exception as e:
                    problems.append("input-unreadable:" + n)
        if results[0] != results[1]:
            problems.append("not-repeatable")
        if c[1] == "prov" and not problems:
            out.append(results[0])
            continue
        out.append("unchanged" if not problems else "CHANGED " + ",".join(sorted(set(problems))))
    return out


def nontrivial(case, outs):
    reads = {tuple(c[1:4]) for c in case["cmds"] if c[0] == "read"}
    return len(reads) >= 8 and any(c[0] == "op" and c[2] != "unindex" for c in case["cmds"])


def features(case, outs):
    f = []
    for c, o in zip(case["cmds"], outs):
        if c[0] == "read":
            f.append("read:" + str(c[1]) + (":" + str(c[2]) if c[1] in ("sort", "enum", "rs", "prov") else ""))
            if c[1] == "prov" and c[2] == "ccounts":
                f.append("prov:ccounts " + ("empty" if str(o).endswith("counts=") else "nonempty" if "counts=" in str(o)
                                            else str(o)))
            elif c[1] == "prov":
                f.append("prov:%s %s" % (c[2], o))
            if c[1] in ("tree0", "tree1"):
                ns = is_negshape(qtree.parse_tokens(list(c[2:])))
                if ns:
                    f.append("tree:Not(BoolOp(Not(BoolOp)..)) inner-negated-operator-%s" % ns)
            if c[1] == "isort":
                specs = [c[4 + 7 * k: 11 + 7 * k] for k in range(c[3])]
                nfw = sum(1 for sp in specs if not sp[2] and sp[1] in (0, 2, 3))
                f.append("isort:%d-in-flight/%s" % (c[3], "2+maybe-fwscan" if nfw >= 2 else "other"))
                if any(specs[k] == specs[0] for k in range(1, len(specs))):
                    f.append("isort:same-request-again")
            if False:
                pass
            elif o != "unchanged":
                f.append(o)
    return f
