"""C19  Concurrent transactions on different documents conflict or both take effect.

Three comparisons per case (two real connections on a conflict-resolving FileStorage):
  * real stored catalog (third connection) = real in-memory catalog that ran the committed transactions
    serially (complete observation + query battery)                      I vs S  -> VIOLATION
  * the object-level Lean model (`HypatiaModel/ConcurrencyIndex.lean`: field, keyword and facet index as
    heaps of persistent objects with read/write footprints and BTrees' merge rules) replays the same
    operations in three transactions and merges: real `ok, ok` => the model's merge succeeds (a model
    conflict the real BTrees did not see means the model's footprint is wrong -> drift; a real conflict the
    model does not see is admissible: real BTrees refuse in more cases) and the merged model heap equals
    the stored catalog in the model's vocabulary (reverse map, not-indexed, counter, every posting)
  * the abstract commit log (which operations must be visible for which outcome)

Sanity check by mutation (scratch copies, each reported VIOLATION with a concrete failing input):
  M1  revert of 54fed54 (D20: `_insert_forward` does not empty the Set it replaces)            caught
  M2  FieldIndex `_num_docs` = a Length subclass whose `_p_resolveConflict` keeps the new state    caught
  M6  FieldIndex.unindex_doc replaces the posting by a copy without the docid (copy-on-write)      caught
  M12 KeywordIndex.unindex_doc converts a TreeSet below tree_threshold back to a Set (no clear)    caught
  M19 FacetIndex.index_doc stores a copy of the posting on every insert                           caught
M1, M12 need a threshold crossing on one side and a non-crossing change of the same posting on the other,
with the contended docid not at the head of its bucket (padded-directed generator mode).
Text index (object-level model `HypatiaModel/ConcurrencyText.lean`, generator mode "padded-trees": DICT_CUTOFF 2
and three padding documents per text, so that every word the transactions use has an IFBTree posting - the only
shape in which two text-indexing transactions both commit in reality):
  T1  IFBTree postings of a class whose `_p_resolveConflict` keeps the new state                  caught
  T2  lexicon `_words` of a class whose `_p_resolveConflict` keeps the new state          not caught: equivalent
      (two new words then get the same wid and both transactions insert `_wordinfo[wid]` -> ConflictError)
  T3  `indexed_count` = a Length subclass whose `_p_resolveConflict` keeps the new state         caught
  T4  `_add_wordinfo` / `_mass_add_wordinfo` copy an IFBTree posting of exactly 4 members into a new object
      (the old one is left as it is - the text index's analogue of D20)                          caught
Builder wt_strong4: modes default-thresholds (10% of the cases: thr 64 / DICT_CUTOFF 10, 60-66 documents under
the contended keyword / facet / value / text, one side reaches 64, the other changes the same postings) and
grown-then-shrunk (10%: a text / keyword / facet posting grows to cutoff..cutoff+3 members - an IFBTree / TreeSet
from cutoff+1 / thr on - and shrinks to 1-5 survivors, DICT_CUTOFF 2/3/10; one side removes all or some survivors -
never the smallest docid alone -, the other indexes a new document with the same text; with DICT_CUTOFF 10 twelve
padding documents share one text so that every posting in the `_wordinfo` bucket is a tree).
  seeded C19_E  (two cooperating edits of _mass_add_wordinfo / _del_wordinfo)      MISSED before, now caught
  seeded C19_F  (FacetIndex Set -> TreeSet copy at the default threshold)          MISSED before, now caught
  M19a the D20 repair (`word_idx.clear()`) only when tree_threshold < 64                          caught
  M19b _mass_add_wordinfo turns an IFBTree posting with < DICT_CUTOFF//2+1 members back into a dict (needs
       DICT_CUTOFF >= 4, a posting shrunk to 2+ members and a partial removal)                    caught
  M19c _del_wordinfo drops the `_wordinfo` entry of a one-member IFBTree without emptying the tree   caught
  M19d FacetIndex.index_doc replaces the posting by a TreeSet copy at exactly 64 members            caught
"""
import importlib
import os
import re
import shutil

from lib import core
from lib.core import exc_name

ID = "C19"
AUDIT_IMPORTS = ["HypatiaProofs.Properties.C19", "HypatiaProofs.Properties.C19Index",
                 "HypatiaProofs.Properties.C19Text", "HypatiaProofs.Properties.C19TextFull",
                 "HypatiaProofs.Properties.C19Facet"]
THEOREMS = ["Hyp.Concurrency." + t for t in (
    "c19_conflict_no_trace", "c19_both_visible_serial", "c19_mergeKey_cases", "c19_merge_is_serial",
    "c19_length_merge", "c19_write_skew_needs_rw")] + ["Hyp.CIdx." + t for t in (
    "c19_field_init", "c19_field_txn_refines", "c19_field_conflict_or_serial", "c19_field_serial_refines",
    "c19_field_merged_observes_serial", "c19_d20_unrepaired_loses_update", "c19_d20_repaired_conflicts",
    "c19_replacement_conflicts", "c19_keyword_no_orphan_merge", "c19_keyword_init", "c19_keyword_txn_refines",
    "c19_keyword_conflict_or_serial", "c19_keyword_serial_refines", "c19_keyword_merged_observes_serial",
    "c19_field_reachable_base", "c19_keyword_reachable_base",
    # text index at object level (Properties/C19Text.lean)
    "c19_text_first_new_wid", "c19_text_new_words_conflict", "c19_text_wordinfo_key_conflict",
    "c19_text_dict_posting_conflict", "c19_text_cutoff_switch_conflict", "c19_text_tree_posting_merges",
    "reach_run", "tsound_of_reach", "lextrack_of_reach",
    # text index: conflict or serial in full (Properties/C19TextFull.lean)
    "c19_text_init", "c19_text_txn_refines", "c19_text_reachable_base", "c19_text_conflict_or_serial",
    "c19_text_serial_refines", "c19_text_observable", "c19_text_merged_observes_serial", "c19_text_freq_ok",
    "tframe_run", "tmerged_inv",
    # facet index: conflict or serial in full (Properties/C19Facet.lean)
    "c19_facet_txn_refines", "c19_facet_reachable_base", "c19_facet_conflict_or_serial",
    "c19_facet_serial_refines", "c19_facet_merged_observes_serial", "c19_facet_paths_conflict_or_serial",
    "c19_facet_counts_serial", "facetRun_spec", "pfacetIndexDoc_inv")]
CASES = {"quick": 640, "thorough": 12000}
BUDGET_S = {"quick": 50, "thorough": 800}
BATCH = 10
RULE = ("a committed base state (0-12 operations on a catalog with field, keyword, facet, Okapi-text and "
        "cosine-text indexes, tree_threshold 2 / DICT_CUTOFF 2 or 10) in a real conflict-resolving FileStorage; "
        "two connections with their own transaction managers start from it and perform 1-4 operations each on "
        "disjoint docids that share values, keywords, facets and words (creating new ones, emptying postings, "
        "crossing representation thresholds); both commit orders; each commit is `ok` or ConflictError (the "
        "loser aborts); a third connection with an empty cache is then compared - complete observable state "
        "and query battery - with an in-memory catalog that ran the base and then the committed transactions "
        "one after the other; the same operations are replayed on the object-level Lean model (field, keyword, "
        "facet, Okapi-text and cosine-text index as heaps of persistent objects) whose merge must succeed whenever both real commits did, "
        "with the same stored state. Modes (quick, 640 cases): small 32%, padded 16%, padded-directed 18%, "
        "padded-trees 8%, padded-trees-directed 7%, default-thresholds 10% (tree_threshold 64, DICT_CUTOFF 10, "
        "60-66 documents per contended posting, one side reaches 64), grown-then-shrunk 10% (postings that became "
        "IFBTrees / TreeSets and shrank to 1-5 members, DICT_CUTOFF 2/3/10; removal of the survivors against a new "
        "member). non-trivial = both transactions change something and at least one posting / "
        "word is shared between them")
LEVEL_TEXT = ("Lean 4: (1) generic optimistic commit with three-way merges: merged = serial when every doubly "
              "written position merges and the second transaction read nothing the first wrote; (2) per-index "
              "object layer: field, keyword, facet and text index as heaps of persistent objects (forward tree key "
              "-> reference, posting objects with their own identity incl. the Set -> TreeSet replacement; for "
              "the text index the lexicon's two trees and Length with _new_wid's skip loop, _wordinfo whose values "
              "are a plain dict stored in the bucket or a reference to an IFBTree from DICT_CUTOFF members on, "
              "_docwords, _docweight, three Lengths) with read/write footprints and BTrees' rules (per-key merge, "
              "conflict when both changed a key, when the committed or new state is empty, when the merged one "
              "would be). Field index, keyword index (repaired code, any tree_threshold), facet index (any configured "
              "facet list; its index_doc never replaces a posting object, so no threshold hypothesis) and text "
              "index (Okapi and cosine, any DICT_CUTOFF), for all bases satisfying the object-level C01 / C02 / "
              "C13 / C03+C06 invariant and all operation lists on disjoint docids: the second commit conflicts or "
              "the merged heap satisfies the invariant for the serial table "
              "(c19_field_/keyword_/facet_/text_conflict_or_serial; queries, counts, statistics, document words = "
              "serial; for the facet index also in C13's vocabulary - calls with paths, prefix expansion, FInv for "
              "the serial facet table, counts(docids, omit_facets) of the stored index = of the serially built one "
              "= C13's specification: c19_facet_paths_conflict_or_serial, c19_facet_counts_serial). Text-specific: two transactions that both "
              "add a word to the lexicon always conflict (same _words key), both changing a dict-valued posting "
              "conflict, the dict -> IFBTree switch against a dict update conflicts, an IFBTree posting changed at "
              "different docids merges. D20 as theorems: the unrepaired replacement merges and loses the update "
              "(witness); repaired code: replacing a posting object the other side wrote always conflicts. "
              "Runtime half: two real connections vs serial replay, and real ok+ok => model merge ok with the "
              "same stored state, for all five indexes")
LEVEL_NOTE = ("partial: thread scheduling, MVCC, storage and the real conflict-resolution code are ZODB/BTrees' "
              "(trusted, sampled; the model's merge rules are a subset of BTrees' refusals, checked in the "
              "direction real success => model success - e.g. real BTrees refuse every doubly written _wordinfo "
              "bucket that holds a dict-valued key because dicts are not orderable); the conflict-or-serial "
              "theorem is proved for all four index types - field, keyword, facet and text (both back ends); its "
              "hypotheses are the object-level refinement invariant of the base, transaction identities that own "
              "no object of the base, and disjoint docids; the object models themselves are hand-written from the "
              "code and tied to it by the runs")
TECHNIQUE = "Lean 4 proof about the three-way-merge abstraction + two-connection differential run on a real FileStorage"

c09 = importlib.import_module("props.c09")


def cfgval(case, name, default):
    for c in case.get("cfg", []):
        if c[1] == name:
            return c[2]
    return default


def gen_padded(rng, tier, idx):
    """Larger catalogs in which the contended keys are NOT the first keys of their BTrees buckets (BTrees
    refuses to merge a deleted first key, which hides every other interaction in tiny catalogs): a few
    padding documents with the smallest docids, values, keywords, facets and word ids are indexed first
    and never touched again.  Half of these cases are directed at representation thresholds: the base
    leaves a keyword / value / facet / word posting one short of `thr` (or DICT_CUTOFF) members, one
    transaction adds a member (crossing), the other changes the same posting without crossing
    (remove one, add one) - found D20 on the unrepaired tree."""
    thr = rng.choice([2, 3, 3, 4, 5])
    cutoff = rng.choice([2, 3, 10])
    npad = 3
    # "padded-trees": every word the transactions use already has an IFBTree posting (DICT_CUTOFF 2, three
    # padding documents per text) - the only shape in which two text-indexing transactions can both commit
    trees = rng.random() < 0.25
    tseeds = rng.sample([7, 13, 20, 27, 9, 15, 22, 29, 35], 2)
    if trees:
        cutoff = 2
        npad = 6
    nids = npad + rng.randrange(6, 12)
    live = list(range(npad, nids))
    rng.shuffle(live)
    cut = rng.randrange(2, len(live) - 1)
    ids_a, ids_b = live[:cut], live[cut:]
    hot = [rng.choice([1, 2]), rng.choice([2, 4, 6]), rng.choice([1, 2, 4]), rng.choice([7, 13, 20, 27]),
           rng.choice([7, 13, 20, 27])]
    seeds = [rng.randrange(7, 60) for _ in range(2)]

    if trees:
        hot[3], hot[4] = rng.choice(tseeds), rng.choice(tseeds)

    def docspec():
        r = rng.random()
        if r < 0.6:
            return list(hot)
        if trees:
            return [rng.choice([1, 2, 3]), rng.choice([2, 4, 6, 8, 12]), rng.choice([1, 2, 4, 8]),
                    rng.choice(tseeds), rng.choice(tseeds)]
        return [rng.choice([1, 2, 3]), rng.choice([2, 4, 6, 8, 12]), rng.choice([1, 2, 4, 8]),
                rng.choice(seeds + [hot[3]]), rng.choice(seeds + [hot[4]])]
    k = [0]
    cmds = []

    def add(who, op, d, spec=None):
        cmds.append([who, k[0], op, d] + (spec if spec is not None else []))
        k[0] += 1
    for d in range(npad):                       # padding: smallest keys everywhere
        add("base", "index", d, [0, 1, 0, tseeds[d % 2], tseeds[d % 2]] if trees else [0, 1, 0, 1, 1])
    directed = rng.random() < 0.5
    if directed:
        n_hot = rng.choice([thr - 1, thr - 1, cutoff - 1, thr, max(1, thr - 2)])
        n_hot = max(1, min(n_hot, len(live) - 2))
        # hot documents of the base come from both pools, at least one from each when possible
        pool = [ids_b[0], ids_a[0]] + [d for d in live if d not in (ids_a[0], ids_b[0])]
        for d in pool[:n_hot]:
            add("base", "index", d, list(hot))
        for _ in range(rng.randrange(0, 3)):
            add("base", "index", rng.choice(live), docspec())
    else:
        for _ in range(rng.choice([2, 4, 6, 8, 12])):
            d = rng.choice(live)
            if rng.random() < 0.8:
                add("base", rng.choice(["index", "reindex"]), d, docspec())
            else:
                add("base", "unindex", d)
    cmds.append(["begin"])

    def txn(who, pool, crossing):
        out = []
        if directed and crossing:
            fresh = [d for d in pool]
            rng.shuffle(fresh)
            for d in fresh[:rng.choice([1, 1, 2])]:
                out.append((who, "index", d, list(hot)))
        elif directed:
            d1, d2 = rng.sample(pool, 2) if len(pool) >= 2 else (pool[0], pool[0])
            first = rng.choice(["unindex", "reindex-away"])
            if first == "unindex":
                out.append((who, "unindex", d1, None))
            else:
                out.append((who, "reindex", d1, [3, 8, 8, tseeds[0], tseeds[1]] if trees else [3, 8, 8, seeds[0], seeds[0]]))
            if rng.random() < 0.8:
                out.append((who, "index", d2, list(hot)))
        else:
            for _ in range(rng.randrange(1, 5)):
                d = rng.choice(pool)
                if rng.random() < 0.65:
                    out.append((who, rng.choice(["index", "reindex"]), d, docspec()))
                else:
                    out.append((who, "unindex", d, None))
        return out
    a_cross = rng.random() < 0.5
    a = txn("a", ids_a, a_cross)
    b = txn("b", ids_b, not a_cross)
    noval = directed and rng.random() < 0.12
    if noval:
        # documents WITHOUT a value: the not-indexed sets of all indexes are contended - one transaction gives a
        # value to a document that had none, the other adds a new value-less document (the smallest value-less
        # docid stays untouched, BTrees refuses to merge a deleted first key) - seeded C19_J rebound a copy
        none = ["-", "-", "-", "-", "-"]
        d0 = min(live)
        pa = [d for d in ids_a if d != d0] or ids_a
        pb = [d for d in ids_b if d != d0] or ids_b
        for d in (d0, pa[0]):
            cmds.insert(len(cmds) - 1, ["base", k[0], "index", d] + none)
            k[0] += 1
        a = [("a", "reindex", pa[0], list(hot))]
        b = [("b", "index", pb[0], list(none))]
        if rng.random() < 0.5 and len(pb) > 1:
            b.append(("b", "index", pb[1], list(none)))
    rename = directed and not noval and rng.random() < 0.25
    if rename:
        # "rename": one document is the sole holder of a value / keyword / facet / words; one transaction moves
        # it to a fresh one while the other gives a second document the old one (seeded C19_H re-keyed the
        # posting object instead of emptying it)
        sole = [rng.choice([4, 5]), rng.choice([8, 16]), rng.choice([3, 5]), rng.choice([31, 37]), rng.choice([31, 37])]
        fresh = [7, 24 - sole[1], 4, 43, 43]
        d1, d2 = ids_a[0], ids_b[0]
        cmds.insert(len(cmds) - 1, ["base", k[0], "index", d1] + sole)
        k[0] += 1
        mover, adder = ("a", "b") if rng.random() < 0.5 else ("b", "a")
        mv = (mover, "reindex", d1 if mover == "a" else d2, fresh)
        ad = (adder, "index", d2 if mover == "a" else d1, list(sole))
        if mover == "b":
            # the sole holder must belong to the mover's pool: swap the roles of the two documents
            cmds[-2][3] = d2
        a = [mv] if mover == "a" else [ad]
        b = [ad] if mover == "a" else [mv]
    ia = ib = 0
    while ia < len(a) or ib < len(b):
        if ib >= len(b) or (ia < len(a) and rng.random() < 0.5):
            add(*a[ia])
            ia += 1
        else:
            add(*b[ib])
            ib += 1
    first = rng.choice(["a", "b"])
    cmds.append(["commit", first])
    cmds.append(["commit", "b" if first == "a" else "a"])
    # half of the cases: the transaction that got ConflictError is retried on the SAME connection (abort,
    # run its operations again, commit) - the ordinary reaction to a conflict; afterwards the catalog must
    # look like base, winner, loser in that order (seeded change C19_C kept per-connection state across abort)
    cmds.append([rng.choice(["check", "retrycheck"])])
    r = rng.random()
    if rename:
        present = [rng.choice(c09.ALL)]      # one index kind alone (a second kind would conflict anyway)
    elif trees and r < 0.7:
        present = [rng.choice(["i3", "i4"])] if r < 0.6 else ["i3", "i4"]
    elif r < 0.25:
        present = list(c09.ALL)
    elif r < 0.85:
        present = [rng.choice(c09.ALL)]
    else:
        present = sorted(rng.sample(list(c09.ALL), 2))
    mode = ("padded-trees-directed" if directed else "padded-trees") if trees else \
        ("padded-directed" if directed else "padded")
    return {"session": "concurrency",
            "cfg": [["cfg", "ids", nids], ["cfg", "cutoff", cutoff], ["cfg", "present"] + present,
                    ["cfg", "thr", thr], ["cfg", "mode", mode]],
            "cmds": cmds}


def text_words(x):
    """the words (numbers 0..9) of `c09.make_doc`'s text for a seed below 100"""
    return [(x // 6 + j * (1 + x % 3)) % len(c09.WORDS) for j in range(x % 6)]


def interleave(rng, a, b):
    out = []
    ia = ib = 0
    while ia < len(a) or ib < len(b):
        if ib >= len(b) or (ia < len(a) and rng.random() < 0.5):
            out.append(a[ia])
            ia += 1
        else:
            out.append(b[ib])
            ib += 1
    return out


def finish(rng, cmds, a, b, k):
    for (who, op, d, spec) in interleave(rng, a, b):
        cmds.append([who, k[0], op, d] + (spec if spec is not None else []))
        k[0] += 1
    first = rng.choice(["a", "b"])
    cmds.append(["commit", first])
    cmds.append(["commit", "b" if first == "a" else "a"])
    cmds.append([rng.choice(["check", "retrycheck"])])


def gen_default_thresholds(rng, tier, idx):
    """The thresholds the classes ship with: KeywordIndex.tree_threshold 64 (FacetIndex inherits the attribute),
    DICT_CUTOFF 10.  The base leaves 60-66 documents under one keyword / facet / value / text (mostly 62 or 63:
    just below the default threshold); one transaction indexes enough new documents to reach or pass 64 members,
    the other one changes the same postings without crossing (removes one of its documents, adds one).  Three
    padding documents hold the smallest keys everywhere."""
    npad = 3
    n_hot = rng.choice([60, 61, 62, 62, 62, 63, 63, 63, 64, 65, 66])
    nspare = rng.randrange(5, 9)
    nids = npad + n_hot + nspare
    live = list(range(npad, nids))
    rng.shuffle(live)
    hot_docs, spare = live[:n_hot], live[n_hot:]
    hot = [rng.choice([1, 2]), rng.choice([2, 4, 6]), rng.choice([1, 2, 4]), rng.choice([7, 13, 20, 27]),
           rng.choice([7, 13, 20, 27])]
    k = [0]
    cmds = []
    for d in range(npad):
        cmds.append(["base", k[0], "index", d, 0, 1, 0, 1, 1])
        k[0] += 1
    for d in sorted(hot_docs) if rng.random() < 0.5 else hot_docs:
        cmds.append(["base", k[0], "index", d] + list(hot))
        k[0] += 1
    cmds.append(["begin"])
    cut = rng.randrange(2, nspare - 1)
    spare_a, spare_b = spare[:cut], spare[cut:]
    hot_a, hot_b = hot_docs[:n_hot // 2], hot_docs[n_hot // 2:]
    # the crossing side: as many new members as it takes to reach 64 (at least one), now and then one more
    need = max(1, 64 - n_hot) + (1 if rng.random() < 0.25 else 0)
    a = [("a", "index", d, list(hot)) for d in spare_a[:need]]
    if rng.random() < 0.2:
        a.insert(rng.randrange(len(a) + 1), ("a", "unindex", rng.choice(hot_a), None))
    # the other side: changes the same postings and stays below the threshold on its own
    b = []
    d1 = rng.choice(hot_b)
    r = rng.random()
    if r < 0.45:
        b.append(("b", "unindex", d1, None))
    elif r < 0.8:
        b.append(("b", "reindex", d1, [3, 8, 8, 1, 1]))
    if rng.random() < 0.7 or not b:
        b.append(("b", "index", spare_b[0], list(hot)))
    if rng.random() < 0.5:
        a, b = [("b",) + x[1:] for x in a], [("a",) + x[1:] for x in b]
    finish(rng, cmds, a, b, k)
    r = rng.random()
    present = ["i1"] if r < 0.3 else ["i2"] if r < 0.6 else ["i1", "i2"] if r < 0.75 else \
        [rng.choice(["i0", "i3", "i4"])] if r < 0.9 else list(c09.ALL)
    return {"session": "concurrency",
            "cfg": [["cfg", "ids", nids], ["cfg", "cutoff", 10], ["cfg", "present"] + present,
                    ["cfg", "thr", 64], ["cfg", "mode", "default-thresholds"]],
            "cmds": cmds}


def gen_shrunk(rng, tier, idx):
    """Postings that GREW past a representation threshold and then SHRANK again: a text (its words not used by the
    padding documents) is indexed under cutoff .. cutoff+3 documents - from cutoff+1 on the words' postings are
    IFBTrees and stay IFBTrees - and withdrawn again from all but one or two of them; likewise a keyword / facet
    posting that became a TreeSet.  Then one transaction removes the surviving document(s) of that text while the
    other one indexes a new document with the same text; padding documents (three per padding text) keep every
    other word's posting a tree, so that the two transactions meet in nothing but the shrunk postings."""
    cutoff = rng.choice([2, 2, 3, 10])            # 10 = the class default DICT_CUTOFF
    thr = rng.choice([2, 3, 4])
    npad = 6
    tseeds = rng.sample([7, 13, 20, 27, 9, 15, 22, 29, 35], 2)
    if cutoff == 10:
        # twelve padding documents with ONE text: their words' postings are IFBTrees too (a `_wordinfo` bucket that
        # holds a dict never merges)
        npad = 12
        tseeds[1] = tseeds[0]
    used = set(text_words(tseeds[0])) | set(text_words(tseeds[1]))
    cands = [x for x in range(1, 60) if x % 6 and set(text_words(x)) - used]
    disjoint = [x for x in cands if not set(text_words(x)) & used]
    rare = rng.choice(disjoint if disjoint and rng.random() < 0.5 else cands)
    g = cutoff + rng.choice([0, 1, 1, 1, 2, 3])
    nids = npad + g + rng.randrange(4, 8)
    live = list(range(npad, nids))
    rng.shuffle(live)
    grown, spare = live[:g], live[g:]
    nsurv = min(g, rng.choice([1, 1, 1, 2, 2, 3, 5]))
    k = [0]
    cmds = []
    kw_rare, fac_rare = rng.choice([8, 16, 24]), rng.choice([3, 4, 5])      # keyword / facet of the same documents

    def base(op, d, spec=None):
        cmds.append(["base", k[0], op, d] + (spec if spec is not None else []))
        k[0] += 1
    for d in range(npad):
        base("index", d, [0, 1, 0, tseeds[d % 2], tseeds[d % 2]])
    rare_spec = [2, kw_rare, fac_rare, rare, rare]
    for d in grown:
        base("index", d, list(rare_spec))
    for d in grown[nsurv:]:                                                     # shrink
        if rng.random() < 0.6:
            base("unindex", d)
        else:
            base("reindex", d, [0, 1, 0, rng.choice(tseeds), rng.choice(tseeds)])
    for _ in range(rng.choice([0, 0, 1, 2])):
        base("index", rng.choice(spare[2:] or spare), [1, 1, 0, rng.choice(tseeds), rng.choice(tseeds)])
    cmds.append(["begin"])
    surv = grown[:nsurv]
    a = []
    # all of the survivors (the posting goes away), or some of them (it stays, smaller)
    # (BTrees refuse to merge the deletion of a bucket's first key: a partial removal spares the smallest docid)
    part = [d for d in surv if d != min(surv)]
    for d in surv if rng.random() < 0.6 or not part else part[:rng.randrange(1, len(part) + 1)]:
        if rng.random() < 0.6:
            a.append(("a", "unindex", d, None))
        else:
            a.append(("a", "reindex", d, [0, 1, 0, rng.choice(tseeds), rng.choice(tseeds)]))
    b = [("b", "index", spare[0], list(rare_spec))]
    others = tseeds + [rare]
    if rng.random() < 0.3:
        b.append(("b", "index", spare[1], [1, 1, 0, rng.choice(others), rng.choice(others)]))
    if rng.random() < 0.2:
        a.append(("a", "index", spare[-1], [1, 1, 0, rng.choice(tseeds), rng.choice(tseeds)]))
    if rng.random() < 0.5:
        a, b = [("b",) + x[1:] for x in a], [("a",) + x[1:] for x in b]
    finish(rng, cmds, a, b, k)
    r = rng.random()
    present = [rng.choice(["i3", "i4"])] if r < 0.55 else ["i3", "i4"] if r < 0.7 else \
        [rng.choice(["i1", "i2"])] if r < 0.85 else list(c09.ALL)
    return {"session": "concurrency",
            "cfg": [["cfg", "ids", nids], ["cfg", "cutoff", cutoff], ["cfg", "present"] + present,
                    ["cfg", "thr", thr], ["cfg", "mode", "grown-then-shrunk"]],
            "cmds": cmds}


def gen(rng, tier, idx):
    i = idx % 1000003
    if i % 10 == 3:
        return gen_default_thresholds(rng, tier, idx)
    if i % 10 == 6:
        return gen_shrunk(rng, tier, idx)
    if rng.random() < 0.6:
        return gen_padded(rng, tier, idx)
    nids = rng.randrange(4, 9)
    ids = list(range(nids))
    rng.shuffle(ids)
    cut = rng.randrange(1, nids)
    ids_a, ids_b = ids[:cut], ids[cut:]
    shared = rng.random() < 0.7
    seeds = [rng.randrange(60) for _ in range(2)]

    def docspec():
        if shared:
            return [rng.randrange(3), rng.choice([1, 3, 3, 7, 2]), rng.choice([0, 1, 8]), rng.choice(seeds),
                    rng.choice(seeds)]
        return ["-" if rng.random() < 0.15 else rng.randrange(8),
                "-" if rng.random() < 0.15 else rng.randrange(1, 32),
                "-" if rng.random() < 0.2 else rng.randrange(40),
                "-" if rng.random() < 0.15 else rng.randrange(60),
                "-" if rng.random() < 0.15 else rng.randrange(60)]
    k = [0]

    def ops(pool, n, who):
        out = []
        for _ in range(n):
            d = rng.choice(pool)
            r = rng.random()
            if r < 0.6:
                out.append([who, k[0], rng.choice(["index", "reindex"]), d] + docspec())
            else:
                out.append([who, k[0], "unindex", d])
            k[0] += 1
        return out
    cmds = ops(list(range(nids)), rng.choice([0, 2, 4, 6, 8, 12]), "base")
    cmds.append(["begin"])
    a = ops(ids_a, rng.randrange(1, 5), "a")
    b = ops(ids_b, rng.randrange(1, 5), "b")
    # interleave the two transactions' operations arbitrarily (they run on separate connections)
    mix = []
    ia = ib = 0
    while ia < len(a) or ib < len(b):
        if ib >= len(b) or (ia < len(a) and rng.random() < 0.5):
            mix.append(a[ia])
            ia += 1
        else:
            mix.append(b[ib])
            ib += 1
    cmds += mix
    first = rng.choice(["a", "b"])
    cmds.append(["commit", first])
    cmds.append(["commit", "b" if first == "a" else "a"])
    # half of the cases: the transaction that got ConflictError is retried on the SAME connection (abort,
    # run its operations again, commit) - the ordinary reaction to a conflict; afterwards the catalog must
    # look like base, winner, loser in that order (seeded change C19_C kept per-connection state across abort)
    cmds.append([rng.choice(["check", "retrycheck"])])
    r = rng.random()
    if r < 0.3:
        present = list(c09.ALL)
    elif r < 0.8:
        present = [rng.choice(c09.ALL)]
    else:
        present = sorted(rng.sample(list(c09.ALL), 2))
    return {"session": "concurrency", "cfg": [["cfg", "ids", nids], ["cfg", "cutoff", rng.choice([2, 2, 10])],
                                              ["cfg", "present"] + present],
            "cmds": cmds}


_COUNTER = [0]


def _quiet_unraisable(u):
    """ZODB's conflict resolution compares PersistentReference objects while the garbage collector clears
    an ObjectWriter; CPython reports the (ignored) ValueError/SystemError on stderr - noise, not a result"""
    import sys
    msg = "%s %s" % (getattr(u.exc_type, "__name__", ""), u.exc_value)
    if "PersistentReferences" in msg or "WeakSet" in msg:
        return
    sys.__unraisablehook__(u)


def impl_run(hyp, case):
    import sys
    sys.unraisablehook = _quiet_unraisable
    import transaction
    from ZODB import DB
    from ZODB.FileStorage import FileStorage
    from ZODB.POSException import ConflictError
    _COUNTER[0] += 1
    d = core.scratch_dir() / ("zodb19_%d_%d" % (os.getpid(), _COUNTER[0]))
    d.mkdir(parents=True, exist_ok=True)
    ids = list(range(case["cfg"][0][2]))
    cutoff = case["cfg"][1][2]
    out = []
    storage = FileStorage(str(d / "Data.fs"))
    db = DB(storage)
    try:
        tm0 = transaction.TransactionManager()
        c0 = db.open(tm0)
        c0.root()["cat"] = c09.make_catalog(cutoff, case["cfg"][2][2:], cfgval(case, "thr", 2))
        tm0.commit()
        tms = {}
        conns = {}
        outcomes = {}
        for c in case["cmds"]:
            try:
                op = c[0]
                if op == "base":
                    c09.apply_op(c0.root()["cat"], ["op"] + list(c[1:]))
                    out.append("ok")
                elif op == "begin":
                    tm0.commit()
                    c0.close()
                    for w in ("a", "b"):
                        tms[w] = transaction.TransactionManager()
                        conns[w] = db.open(tms[w])
                        conns[w].root()["cat"].values()      # load the snapshot
                    out.append("ok")
                elif op in ("a", "b"):
                    c09.apply_op(conns[op].root()["cat"], ["op"] + list(c[1:]))
                    out.append("ok")
                elif op == "commit":
                    w = c[1]
                    try:
                        tms[w].commit()
                        out.append("ok")
                    except ConflictError:
                        tms[w].abort()
                        out.append("conflict")
                    outcomes[w] = out[-1]
                elif op in ("check", "retrycheck"):
                    if op == "retrycheck":
                        for w in ("a", "b"):
                            if outcomes.get(w) == "conflict":
                                for attempt in range(3):
                                    tms[w].abort()      # (already aborted; begins a new transaction at the latest state)
                                    for c2 in case["cmds"]:
                                        if c2[0] == w:
                                            c09.apply_op(conns[w].root()["cat"], ["op"] + list(c2[1:]))
                                    try:
                                        tms[w].commit()
                                        break
                                    except ConflictError:
                                        tms[w].abort()
                                else:
                                    raise RuntimeError("retry keeps conflicting without a concurrent writer")
                    for w in ("a", "b"):
                        tms[w].abort()
                        conns[w].close()
                    tm3 = transaction.TransactionManager()
                    c3 = db.open(tm3)
                    c3.cacheMinimize()
                    out.append(c09.observe(c3.root()["cat"], ids) + " @@ " + objobs(c3.root()["cat"], ids))
                    tm3.abort()
                    c3.close()
                else:
                    raise ValueError(c)
            except Exception as e:
                out.append(exc_name(e))
    finally:
        try:
            db.close()
        except Exception:
            pass
        shutil.rmtree(d, ignore_errors=True)
    return out


_LAST = {}      # the object-level model's verdict on the case evaluated last (read by `features`)


def objobs(cat, ids):
    """the object-level model's vocabulary, read through the public API: reverse map, not-indexed set, the
    counter where a method reports it, and every forward key with its posting"""
    from lib.core import idset
    out = []
    if "i0" in cat:
        ix = cat["i0"]
        rev = ["%d:%s" % (d, ix.document_repr(d)) for d in ids if ix.document_repr(d) is not None]
        fwd = ["%d:%s" % (v, idset(ix.applyEq(v))) for v in sorted(ix.unique_values())]
        out.append("i0 rev=[%s] ni=%s len=%d fwd=[%s]" % (" ".join(rev), idset(ix.not_indexed()),
                                                         ix.indexed_count(), " ".join(fwd)))
    for name, names in (("i1", c09.KWS), ("i2", c09.FACETS)):
        if name not in cat:
            continue
        ix = cat[name]
        rev = []
        for d in ids:
            r = ix.document_repr(d)
            if r is not None:
                rev.append("%d:%s" % (d, ",".join(str(k) for k in sorted(names.index(w) for w in
                                                                           re.findall(r"'([^']*)'", r)))))
        fwd = ["%d:%s" % (names.index(w), idset(ix.applyEq(w))) for w in sorted(ix.unique_values(), key=names.index)]
        out.append("%s rev=[%s] ni=%s fwd=[%s] inv=1" % (name, " ".join(rev), idset(ix.not_indexed()), " ".join(fwd)))
    for name in ("i3", "i4"):
        if name not in cat:
            continue
        ix = cat[name]
        rev = []
        for d in ids:
            r = ix.document_repr(d)
            if r is not None:
                rev.append("%d:%s" % (d, ",".join(str(wordcode(w)) for w in r.split())))
        fwd = []
        for w in sorted(ix.lexicon.words(), key=wordcode):
            try:
                post = idset(ix.apply(w).keys())
            except Exception as e:          # e.g. ZeroDivisionError on an inconsistent stored state
                post = exc_name(e).replace(" ", "-")
            if post != "{}":
                fwd.append("%d:%s" % (wordcode(w), post))
        out.append("%s rev=[%s] ni=%s ic=%d wc=%d lwc=%d fwd=[%s]" % (
            name, " ".join(rev), idset(ix.not_indexed()), ix.indexed_count(), ix.word_count(),
            ix.lexicon.word_count(), " ".join(fwd)))
    return " ;; ".join(out)


def wordcode(w):
    """the object-level model's numbering of `make_doc`'s vocabulary"""
    return c09.WORDS.index(w) if w in c09.WORDS else 100 + int(w[1:])


def post_model(hyp, case, mouts, iouts=None):
    """the `check` line lists, for each combination of commit outcomes, the operations that must be visible;
    pick the combination the implementation produced (both outcomes are admissible) and turn it into the
    observation of an in-memory catalog that ran exactly those operations serially (= the specification's
    answer).  The part after ` @@ ` is the object-level model: the heaps its own merge produced (both
    committed) or the first committer's heaps (second commit refused), compared with the stored catalog in
    the model's vocabulary; the second `commit` line carries the model's merge verdict - a model conflict
    where the real commit succeeded is a wrong footprint (drift), the converse is admissible"""
    ops = {c[1]: c for c in case["cmds"] if c[0] in ("base", "a", "b")}
    ids = list(range(case["cfg"][0][2]))
    cutoff = case["cfg"][1][2]
    outcome = {}
    for c, o in zip(case["cmds"], iouts or []):
        if c[0] == "commit":
            outcome[c[1]] = o
    key = "%s,%s:" % (outcome.get("a", "?"), outcome.get("b", "?"))
    order = [c[1] for c in case["cmds"] if c[0] == "commit"]
    _LAST["model2"] = "conflict" if any(m.startswith("conflict ") for m in mouts) else "ok"
    _LAST["objects"] = sorted({"%s:%s" % x for m in mouts if m.startswith("conflict ")
                               for x in re.findall(r"(i\d):(fwd|rev|ni|len|post|wids|words|wordinfo|docwords|docweight|tree)", m.split(" ## ")[0])})
    res = []
    for m in mouts:
        if m.startswith("eff "):
            parts = m.split(" @@ ")
            m = parts[0]
            alts = [x.strip() for x in m[4:].split(";")]
            pick = [x for x in alts if x.startswith(key)]
            if not pick:
                res.append("no-admissible-outcome " + key)
                continue
            ks = [int(x) for x in pick[0][len(key):].split()]
            if any(c[0] == "retrycheck" for c in case["cmds"]):
                for w in [c[1] for c in case["cmds"] if c[0] == "commit"]:
                    if outcome.get(w) == "conflict":
                        ks += [c[1] for c in case["cmds"] if c[0] == w]
            cat = c09.make_catalog(cutoff, case["cfg"][2][2:], cfgval(case, "thr", 2))
            try:
                for k in ks:
                    c09.apply_op(cat, ["op"] + list(ops[k][1:]))
                spec = c09.observe(cat, ids) + " @@ " + objobs(cat, ids)
                model = spec
                retried = any(c[0] == "retrycheck" for c in case["cmds"]) and "conflict" in outcome.values()
                if len(parts) == 3 and len(order) == 2 and outcome.get(order[0]) == "ok" and not retried:
                    # the object-level model: merged heaps / the first committer's heaps
                    model = c09.observe(cat, ids) + " @@ " + (parts[1] if outcome.get(order[1]) == "ok" else parts[2])
                res.append(spec if model == spec else model + " ## " + spec)
            except Exception as e:
                res.append(exc_name(e))
        else:
            res.append(m)
    return res


def model_cmd(c):
    return ["check"] if c[0] == "retrycheck" else c


def keep_cmd(c):
    """shrinking never drops the protocol skeleton (begin / the two commits / check)"""
    return c[0] in ("begin", "commit", "check", "retrycheck")


def same(a, b):
    if b == "any":
        return a in ("ok", "conflict")
    if b.startswith("conflict "):       # the object-level model refuses the merge (and names the objects)
        return a == "conflict"
    return a == b


def nontrivial(case, outs):
    a = [c for c in case["cmds"] if c[0] == "a"]
    b = [c for c in case["cmds"] if c[0] == "b"]
    return bool(a) and bool(b) and any(c[2] != "unindex" for c in a + b)


def features(case, outs):
    f = ["present:" + "+".join(case["cfg"][2][2:]), "mode:%s" % cfgval(case, "mode", "small")]
    res = [o for c, o in zip(case["cmds"], outs) if c[0] == "commit"]
    f.append("present:%s outcomes:%s" % ("+".join(case["cfg"][2][2:]), "+".join(res)))
    f.append("outcomes:" + "+".join(res))
    f.append("mode:%s outcomes:%s" % (cfgval(case, "mode", "small"), "+".join(res)))
    if len(res) == 2 and _LAST:
        f.append("second commit real:%s object-model:%s" % (res[1], _LAST.get("model2")))
        for ob in _LAST.get("objects", []):
            f.append("object-model refuses " + ob)
    present = case["cfg"][2][2:]
    for ix, pos in (("i3", 7), ("i4", 8)):
        if ix in present and len(res) == 2:
            both = all(any(c[0] == w and c[2] != "unindex" and len(c) > pos and c[pos] != "-" for c in case["cmds"])
                       for w in ("a", "b"))
            if both:
                f.append("%s: both transactions index text, outcomes:%s" % (ix, "+".join(res)))
    for c, o in zip(case["cmds"], outs):
        if c[0] in ("a", "b"):
            f.append("txn-op:" + c[2])
        if isinstance(o, str) and o.startswith("err"):
            f.append(o)
    return f
