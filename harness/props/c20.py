"""C20  Text ranking: normalised scores, relevance sort and score bound.

Session `score` (shared with C08, whose module supplies the stub lexicon, the float plumbing and the tree
rendering).  The implementation is always a `TextIndex` over an OkapiIndex (C extension) or a CosineIndex.

Commands added to C08's:
  apply  <tree>            TextIndex.apply(query string): scores / query_weight, compared numerically
  applyb <tree>            the same call, reduced to "are all scores in (0, 1 + 1e-6]?"; the specification's
                           answer is `in-bound` (theorems c20_okapi_bound / c20_cosine_bound) - only issued
                           for glob-free trees (cosine: pairwise distinct word ids)
  sort rev lim d v ...     TextIndex.sort(weighted result, reverse, limit) and ResultSet(...).sort(text index)
  sortset rev lim d ...    the same for a result without weights (TypeError unless empty)
  applysort rev lim <tree> sort(apply(q)): ids with their scores; scores closer than the tolerance may swap

Mutation sanity check (scratch copies VERIF_REPO=/var/tmp/mut_score_N, quick tier; all 8 gave VIOLATION with a
shrunk failing input):
  1 TextIndex.apply: zero guard `if qw == 0: qw = 1.0` removed - needs a non-empty result with query weight 0
      (a glob whose pattern is itself no indexed word) -> ZeroDivisionError
  2 NotNode.terms() returns the child's terms - needs a NOT subtree with in-vocabulary words
  3 TextIndex.sort: items.sort(reverse=reverse)
  4 TextIndex.sort: `if limit is not None` (limit 0 returns nothing)
  5 OkapiIndex.query_weight: tfmax = K1 (scores above 1: the bound check fires)
  6 TextIndex.sort: empty result no longer returned unchanged
  7 CosineIndex.query_weight sums idf instead of idf^2
  8 AndNode.executeQuery no longer subtracts the NOT results
K1 / B are the documented "BM25 free parameters" (class attributes of OkapiIndex): 30% of the Okapi corpora run on an
index whose K1 and/or B is overridden on a subclass, a sub-subclass, the instance, or the instance of a subclass that
says something else (K1 in {0.5, 2.0, 3.75, 1.2}, B in {0, 0.25, 0.5, 0.75, 1}) - handed to TextIndex(index=...), with
the pure-Python scoring loop (`cfg impl textpy`); the model takes `cfg k1` / `cfg b` (Lean: `Score.Bm25`; the bound
theorems hold for 0 <= k1 <= kq, 0 <= b <= 1).  Seeded C20_E (query_weight reads a constant computed in the class
body) was missed before and is caught now; two more of the class, VIOLATION on quick seed 0 here and in C08:
  9  the Python loop reads `OkapiIndex.B` instead of `self.B`
  10 query_weight reads `type(self).K1` (an instance-level override is ignored)
`sort` also gets results of >= 32 x limit ids (limit 1-5, 1-5 distinct scores: the limit-th place is shared), the
class of seeded C20_F (n-best fast path without the final cut; was caught through a negative limit only); one more:
  11 n-best fast path `heapq.nlargest(limit, result.items(), key=weight)` - ties come out by ascending docid
NOT generated, because it fails on the unchanged tree (reported): the COMPILED loop keeps the constants of okascore.c
whatever K1 / B say ("okascore hardcodes the values of K, B1"), query_weight reads self.K1 - with K1 < 1.2 on a
subclass scores exceed 1 (K1 = 0.5, docs 'apple'*30 / 'pear plum' / 'apple pear': apply('apple') -> 1.346, 1.005).
Repeated one-word queries with DICT_CUTOFF 2 / 3 / default (see C08): seeded change C08_F (setops._trivial scales in
place) and C08's mutations 10 (single-operand intersection, reached through a word+stop-word phrase) and 11 (single-match
glob) give VIOLATION here on quick seed 0; 10 and 11 were run against the generator as it was before and were missed.
"""
import random

from lib import core
from lib.core import exc_name
from props import c08 as base

ID = "C20"
BUILD_C = True
AUDIT_IMPORTS = ["HypatiaProofs.Properties.C20", "HypatiaProofs.Properties.C20Keys"]
THEOREMS = ["Hyp.C20." + t for t in (
    "c20_apply_normalised", "c20_apply_passthrough", "c20_tree_score", "c20_okapi_raw_bound",
    "c20_okapi_bound", "c20_okapi_bound_default", "c20_cosine_raw_bound", "c20_cosine_bound", "c20_cosine_repeated_term", "c20_sort_weighted", "c20_sort_limit", "c20_sort_empty",
    "c20_sort_unweighted",
    # composed with C03 (Properties/C20Keys.lean): the scored result has the keys of the key-set model
    "c20_scored_keys_are_c03_result", "c20_scored_documents_satisfy_query")]
CASES = {"quick": 900, "thorough": 30000}
BUDGET_S = {"quick": 45, "thorough": 780}
BATCH = 40
TOL = 2e-6

setup = base.setup
cfgdict = base.cfgdict


def model_cmd(c):
    if c[0] in ("apply", "applyb"):
        return [t for t in c if not (isinstance(t, str) and t.startswith("w:"))]
    if c[0] == "applysort":
        return [t for t in c if not (isinstance(t, str) and t.startswith("w:"))]
    if c[0] == "sort":
        out = list(c[:3])
        for i in range(3, len(c), 2):
            out += [c[i], base.bits(c[i + 1])]
        return out
    return base.model_cmd(c)


def wide(c):
    """number of operands of a very wide And/Or at the root of an apply command (0 if not wide): hundreds
    of 32-bit additions accumulate rounding error, so the comparison tolerance scales with the width"""
    if c[0] in ("apply", "applyb") and len(c) > 2 and c[1] in ("or", "and") and isinstance(c[2], int) and c[2] > 32:
        return c[2]
    return 0


def post_model(hyp, case, mouts, iouts):
    out = base.post_model(hyp, case, mouts, iouts)
    res = []
    for c, line in zip(case["cmds"], out):
        if wide(c) and line.startswith("{"):
            parts = line.split(" ## ")
            res.append(" ## ".join("~%d %s" % (wide(c), x) for x in parts))
        elif c[0] == "applysort" and line.startswith("S["):
            body = line[2:-1].split()
            res.append("S[" + " ".join("%s:%r" % (t.split(":")[0], base.unbits(t.split(":")[1])) for t in body) + "]")
        else:
            res.append(line)
    return res


def parse_seq(s):
    return [(int(t.split(":")[0]), float(t.split(":")[1])) for t in s[2:-1].split()]


def same(a, b):
    if a == b:
        return True
    if a.startswith("~") and b.startswith("~"):
        n = int(a[1:].split(" ", 1)[0])
        x = [(int(t.split(":")[0]), float(t.split(":")[1])) for t in a.split(" ", 1)[1][1:-1].split()]
        y = [(int(t.split(":")[0]), float(t.split(":")[1])) for t in b.split(" ", 1)[1][1:-1].split()]
        tol = base.TOL * (1 + n / 8.0)
        return [k for k, _ in x] == [k for k, _ in y] and \
            all(abs(u - v) <= tol * max(abs(u), abs(v)) for (_, u), (_, v) in zip(x, y))
    if a.startswith("S[") and b.startswith("S["):
        x, y = parse_seq(a), parse_seq(b)
        if len(x) != len(y):
            return False
        if not all(base.close(u, v) for (_, u), (_, v) in zip(x, y)):
            return False
        dx, dy = dict(x), dict(y)
        for k in set(dx) & set(dy):
            if not base.close(dx[k], dy[k]):
                return False
        # ids present on one side only must sit at the cut: their score equals the last kept score
        last = x[-1][1] if x else 0.0
        for k in set(dx) ^ set(dy):
            v = dx.get(k, dy.get(k))
            if not base.close(v, last):
                return False
        return True
    return base.same(a, b)


# ----------------------------------------------------------------------------
# generator
# ----------------------------------------------------------------------------
def gen(rng, tier, idx):
    kind = "okapi" if rng.random() < 0.55 else "cosine"
    fam = rng.choice([32, 64])
    nvocab = rng.choice([3, 4, 6, 8])
    vocab = list(range(1, nvocab + 1))
    ids = list(range(1, 9)) + ([2 ** 31 - 1, -5] if fam == 32 else [2 ** 40, -5])
    ndocs = rng.choice([2, 3, 4, 5, 6, 8, 12])
    # DICT_CUTOFF as an instance setting (see C08): beyond it a word's stored docid -> weight map is the IFBTree the
    # cosine back end hands to the set operations uncopied
    cutoff = rng.choice([None, None, 2, 2, 3, 3])
    common = None
    if cutoff is None and rng.random() < 0.3:
        ndocs = rng.choice([12, 13, 16])
        common = rng.choice(vocab)
    if ndocs > len(ids):
        ids = ids + list(range(100, 100 + ndocs))
    if common is not None:
        ids = ids[:ndocs + 1]
    cmds = []
    table = {}
    lexn = [0]
    terms = {}

    def new_term(wids):
        lexn[0] += 1
        terms[lexn[0]] = list(wids)
        cmds.append(["lex", "t", lexn[0]] + list(wids))
        return lexn[0]

    def history(nops):
        for _ in range(nops):
            r = rng.random()
            known = list(table)
            if r < (0.6 if common is None or len(table) > 11 else 0.92) or not known:
                d = rng.choice(ids)
                if common is not None and rng.random() < 0.7:
                    fresh = [x for x in ids if x not in table]
                    d = rng.choice(fresh) if fresh else d
                ws = base.gen_doc(rng, vocab, False)
                if common is not None and common not in ws and rng.random() < 0.9:
                    ws.insert(rng.randrange(len(ws) + 1), common)
                cmds.append(["index", d] + ws)
                table[d] = ws
            elif r < 0.8:
                d = rng.choice(known)
                ws = base.gen_doc(rng, vocab, False)
                cmds.append(["reindex", d] + ws)
                table[d] = ws
            elif r < 0.98:
                d = rng.choice(known) if rng.random() < 0.8 else rng.choice(ids)
                cmds.append(["unindex", d])
                table.pop(d, None)
            else:
                cmds.append(["reset"])
                table.clear()
        while len(table) < 2 and rng.random() < 0.9:
            d = rng.choice(ids)
            ws = base.gen_doc(rng, vocab, False)
            cmds.append(["index", d] + ws)
            table[d] = ws

    oov = [99]

    def unknown(distinct):
        """an id no document contains; a fresh one each time when ids must be pairwise distinct"""
        if distinct:
            oov[0] += 1
            return oov[0]
        return 99

    def gen_tree(depth, pool, distinct, allow_glob):
        """pool: word ids still available when `distinct`"""
        def pick():
            if distinct:
                return pool.pop(rng.randrange(len(pool))) if pool else None
            return rng.choice(vocab)
        r = rng.random()
        if depth >= 2 or r < 0.45 or (distinct and len(pool) < 2):
            r2 = rng.random()
            if allow_glob and r2 < 0.12:
                gid = new_term([rng.choice(vocab)])
                gw = rng.sample(vocab + [99], rng.randrange(0, min(4, len(vocab)) + 1))
                cmds.append(["lex", "g", gid] + gw)
                return ("g", gid)
            if r2 < 0.25 and not (distinct and len(pool) < 2):
                # phrase: a sub-list of an indexed document when possible
                docs = [ws for ws in table.values() if len(ws) >= 2]
                if docs and not distinct and rng.random() < 0.8:
                    ws = rng.choice(docs)
                    a = rng.randrange(len(ws) - 1)
                    pw = ws[a:a + rng.choice([2, 2, 3])]
                else:
                    pw = [w for w in (pick(), pick()) if w is not None]
                    if len(pw) < 2:
                        pw = pw + [unknown(distinct)]
                parts = [new_term([w]) for w in pw]
                lexn[0] += 1
                pid = lexn[0]
                wids = [w for i in parts for w in terms[i]]
                terms[pid] = wids
                cmds.append(["lexp", pid, "_".join("t%d" % i for i in parts)] + wids)
                return ("p", pid, parts)
            r3 = rng.random()
            w = pick()
            if w is None:
                return ("a", new_term([unknown(distinct)]))
            if r3 < 0.75:
                return ("a", new_term([w]))
            if r3 < 0.83:
                return ("a", new_term([]))                      # stop word: search -> None
            if r3 < 0.9:
                return ("a", new_term([w, unknown(distinct)]))  # one unknown id
            if r3 < 0.95 and not distinct:
                return ("a", new_term([w, w]))                  # repeated id inside one term
            return ("a", new_term([unknown(distinct)]))
        if r < 0.75:
            pos = [gen_tree(depth + 1, pool, distinct, allow_glob) for _ in range(rng.choice([2, 2, 3]))]
            nots = [("n", gen_tree(depth + 1, list(vocab), False, allow_glob))
                    for _ in range(rng.choice([0, 0, 1]))]
            return ("and", pos + nots)
        return ("or", [gen_tree(depth + 1, pool, distinct, allow_glob) for _ in range(rng.choice([2, 2, 3]))])

    def tree_cmds():
        r = rng.random()
        if r < 0.5:
            # inside the theorem's hypotheses: glob-free; cosine additionally with distinct word ids
            distinct = kind == "cosine"
            repeat = (not distinct) and rng.random() < 0.4
            t = gen_tree(0, list(vocab), distinct, False)
            if repeat and t[0] in ("a",):
                t = ("or", [t, t]) if rng.random() < 0.5 else ("and", [t, t])
            toks = base.tree_tokens(t)
            cmds.append(["applyb"] + toks)
            cmds.append(["apply"] + toks)
        elif r < 0.8:
            t = gen_tree(0, list(vocab), False, True)
            cmds.append(["apply"] + base.tree_tokens(t))
        else:
            t = gen_tree(0, list(vocab), False, False)
            lim = rng.choice(["none", "none", 0, 1, 2, 3, 50])
            cmds.append(["applysort", rng.randrange(2), lim] + base.tree_tokens(t))

    def frequent_word():
        df = {}
        for ws in table.values():
            for w in set(ws):
                df[w] = df.get(w, 0) + 1
        if not df:
            return rng.choice(vocab)
        top = max(df.values())
        return rng.choice(sorted(w for w, n in df.items() if n == top))

    def one_word_tree(w):
        r = rng.random()
        if r < 0.6:
            return ("a", new_term([w]))
        if r < 0.75:
            # a phrase of the word and a stop word: search_phrase with ONE word id (single-operand intersection)
            parts = [new_term([w]), new_term([])]
            if rng.random() < 0.5:
                parts.reverse()
            lexn[0] += 1
            pid = lexn[0]
            terms[pid] = [w]
            cmds.append(["lexp", pid, "_".join("t%d" % i for i in parts), w])
            return ("p", pid, parts)
        gid = new_term([w] if r < 0.9 else [])          # the pattern itself in or out of the vocabulary
        cmds.append(["lex", "g", gid, w])
        return ("g", gid)

    def repeated_reads():
        """the SAME one-word query through TextIndex.apply before and after other reads of the unchanged corpus"""
        w = frequent_word() if rng.random() < 0.85 else rng.choice(vocab)
        toks = base.tree_tokens(one_word_tree(w))
        op = rng.choice(["apply", "apply", "applyb" if toks[0] == "a" else "apply", "applysort"])
        first = [op] + ([rng.randrange(2), rng.choice(["none", 2, 50])] if op == "applysort" else []) + toks
        cmds.append(list(first))
        for _ in range(rng.choice([1, 1, 2])):
            r = rng.random()
            if r < 0.4:
                tree_cmds()
            elif r < 0.7:
                cmds.append(["apply"] + base.tree_tokens(one_word_tree(w)))
            cmds.append(list(first) if rng.random() < 0.7 else ["apply"] + toks)

    def sort_cmds():
        n = rng.choice([0, 1, 2, 3, 5, 8])
        ds = rng.sample(ids, min(n, len(ids)))
        lim = rng.choice(["none", "none", 0, 1, 2, 3, 50, -1, -2])
        rev = rng.randrange(2)
        if rng.random() < 0.3:
            # a short page out of a big result: >= 32 x limit hits (n-best selection instead of a full sort is
            # worth it there), few distinct scores, so that the limit-th place is shared (a tie at the cut)
            lim = rng.choice([1, 1, 2, 2, 3, 5])
            n = lim * rng.choice([32, 32, 33, 40, 64]) + rng.choice([0, 0, 1, -1])
            ds = rng.sample(ids, min(len(ids), 3)) + rng.sample(range(1000, 1000 + 3 * n), n)
            ds = ds[:n]
            pool = rng.choice([[0.5], [0.25, 0.5], [0.125, 0.25, 0.5, 0.75, 1.0], [0.5, 1.0, 1.0, 1.0]])
            vals = [rng.choice(pool) for _ in ds]
            if rng.random() < 0.3:
                # exactly lim-1 clear winners / losers, everything else tied
                for j in range(lim - 1):
                    vals[rng.randrange(len(vals))] = 2.0 if not rev else 0.0625
            c = ["sort", rev, lim]
            for d, v in zip(ds, vals):
                c += [d, v]
            cmds.append(c)
            return
        if rng.random() < 0.75:
            vals = [rng.choice([0.125, 0.25, 0.5, 0.5, 1.0, 0.75]) for _ in ds]      # heavy ties
            c = ["sort", rev, lim]
            for d, v in zip(ds, vals):
                c += [d, v]
            cmds.append(c)
        else:
            cmds.append(["sortset", rev, lim] + ds)

    def swap_history():
        """re-index documents so that term frequencies change but the number of documents and of distinct
        words does not (a word of one document is replaced by a word some other document still has)"""
        for _ in range(rng.randrange(1, 3)):
            known = [d for d in table if table[d]]
            if not known:
                return
            d = rng.choice(known)
            ws = list(table[d])
            others = [w for d2, w2 in table.items() if d2 != d for w in w2]
            if not others:
                return
            i = rng.randrange(len(ws))
            if ws[i] in others or ws.count(ws[i]) > 1:
                ws[i] = rng.choice(others)
            else:
                ws.append(rng.choice(others))
            cmds.append([rng.choice(["reindex", "index"]), d] + ws)
            table[d] = ws

    history(ndocs + rng.randrange(0, 3))
    first = len(cmds)
    r_big = rng.random()
    if r_big < 0.02:
        # a very large result (2049-2400 hits on one word): size-gated paths in apply / sort (seeded C20_G)
        w = rng.choice(vocab)
        for d in range(1000, 1000 + rng.randrange(2049, 2400)):
            ws = [w] * rng.choice([1, 1, 2]) + ([rng.choice(vocab)] if rng.random() < 0.3 else [])
            cmds.append(["index", d] + ws)
            table[d] = ws
        t = ("a", new_term([w]))
        cmds.append(["applyb"] + base.tree_tokens(t))
        cmds.append(["apply"] + base.tree_tokens(t))
        cmds.append(["applysort", rng.randrange(2), rng.choice([1, 3, 50]), ] + base.tree_tokens(t))
    elif r_big < 0.05:
        # a very long query: 257-400 term occurrences over a few distinct words (seeded C20_H: a size-gated
        # de-duplication of the query's word ids changes the weight but not the raw score)
        few = [new_term([w]) for w in rng.sample(vocab, min(len(vocab), rng.choice([1, 2, 3])))]
        atoms = [("a", rng.choice(few)) for _ in range(rng.randrange(257, 400))]
        t = (rng.choice(["or", "and"]), atoms)
        cmds.append(["apply"] + base.tree_tokens(t))
    for _ in range(rng.randrange(2, 5)):
        tree_cmds()
    if rng.random() < 0.6:
        repeated_reads()
    asked = [c for c in cmds[first:] if c[0] in ("apply", "applyb", "applysort")]
    if rng.random() < 0.6:
        if rng.random() < 0.5:
            swap_history()
        else:
            history(rng.randrange(1, 4))
        # the SAME queries again on the changed corpus (scores are a function of the current corpus: seeded
        # change C20_C cached the query weight per query text while document and word counts stayed the same)
        for c in rng.sample(asked, min(len(asked), rng.randrange(1, 3))):
            cmds.append(list(c))
        for _ in range(rng.randrange(0, 2)):
            tree_cmds()
        if rng.random() < 0.35:
            repeated_reads()
    for _ in range(rng.randrange(0, 3)):
        sort_cmds()
    # K1 / B (the documented BM25 free parameters) overridden on a subclass / on the instance handed to
    # TextIndex(index=...): pure-Python loop (the compiled one keeps the constants of okascore.c)
    tuned = base.gen_tuning(rng, 0.3) if kind == "okapi" else []
    cfg = [["cfg", "kind", kind], ["cfg", "impl", "textpy" if tuned else "text"], ["cfg", "fam", fam]]
    if cutoff:
        cfg.append(["cfg", "cutoff", cutoff])
    cfg += tuned
    return {"session": "score", "cfg": cfg, "cmds": cmds}


# ----------------------------------------------------------------------------
# implementation side
# ----------------------------------------------------------------------------
def impl_run(hyp, case):
    import BTrees
    from hypatia.text import TextIndex, okapiindex
    from hypatia.text.cosineindex import CosineIndex
    from hypatia.util import ResultSet
    cfg = cfgdict(case)
    fam = BTrees.family32 if cfg["fam"] == 32 else BTrees.family64
    lex = base.StubLexicon()
    if cfg["kind"] == "cosine":
        inner = CosineIndex(lex, family=fam)
    elif cfg["impl"] == "textpy":
        inner = base.tuned_index(cfg, base._PURE.OkapiIndex, lex, fam)
    else:
        if "k1" in cfg or "b" in cfg:
            raise core.Infra("K1 / B overrides are only compared on the pure-Python loop")
        inner = okapiindex.OkapiIndex(lex, family=fam)
    if cfg.get("cutoff"):
        inner.DICT_CUTOFF = int(cfg["cutoff"])
    ti = TextIndex("text", lexicon=lex, index=inner, family=fam)
    outs = []

    def parsed(c, start):
        tree, _ = base.parse_tree_tokens(c, start)
        q = base.render(tree)
        real = ti.parse_query(q)
        if base.tree_shape(real) != base.expected_shape(tree):
            raise core.Infra("query %r parsed as %r, generator expected %r" % (q, real, tree))
        return q

    def lim_of(t):
        return None if t == "none" else t

    for ci, c in enumerate(case["cmds"]):
        op = c[0]
        try:
            if op == "index":
                ti.index_doc(c[1], base.Doc(" ".join(map(str, c[2:]))))
                outs.append("ok")
            elif op == "reindex":
                if c[1] not in inner._docweight:
                    # TextIndex.reindex_doc IS index_doc: never generated for an unknown id; a shrinking step that
                    # drops the earlier index command must not turn the case into a different one
                    raise core.Infra("reindex of an unknown docid through TextIndex is not a generated case")
                ti.reindex_doc(c[1], base.Doc(" ".join(map(str, c[2:]))))
                outs.append("ok")
            elif op == "unindex":
                ti.unindex_doc(c[1])
                outs.append("ok")
            elif op == "reset":
                ti.reset()
                outs.append("ok")
            elif op == "lex":
                (lex.term if c[1] == "t" else lex.glob)[c[2]] = list(c[3:])
                outs.append("ok")
            elif op == "lexp":
                lex.term[c[1]] = list(c[3:])
                outs.append("ok")
            elif op == "apply":
                r = ti.apply(parsed(c, 1))
                outs.append("none" if r is None else base.fmt_map(r.items()))
            elif op == "applyb":
                r = ti.apply(parsed(c, 1))
                if r is None:
                    outs.append("none")
                else:
                    bad = [(d, v) for d, v in r.items() if not (0 < v <= 1 + 1e-6)]
                    outs.append("in-bound" if not bad else "out-of-bound")
            elif op == "applysort":
                r = ti.apply(parsed(c, 3))
                if r is None:
                    outs.append("none")
                else:
                    scores = dict(r.items())
                    if ci % 2:
                        ids = ResultSet(r, len(r), None).sort(ti, reverse=bool(c[1]), limit=lim_of(c[2])).ids
                    else:
                        ids = ti.sort(r, reverse=bool(c[1]), limit=lim_of(c[2]))
                    if ids is r:
                        outs.append("same")
                    else:
                        outs.append("S[" + " ".join("%d:%r" % (d, float(scores[d])) for d in ids) + "]")
            elif op == "sort":
                items = [(c[i], c[i + 1]) for i in range(3, len(c), 2)]
                kind = (ci + len(items)) % 3
                if kind == 0:
                    r = fam.IF.Bucket()
                    for d, v in items:
                        r[d] = v
                elif kind == 1:
                    r = fam.IF.BTree()
                    for d, v in items:
                        r[d] = v
                else:
                    r = dict(items)
                if ci % 2 and lim_of(c[2]) is not None and lim_of(c[2]) >= 0:
                    ids = ResultSet(r, len(r), None).sort(ti, reverse=bool(c[1]), limit=lim_of(c[2])).ids
                else:
                    ids = ti.sort(r, reverse=bool(c[1]), limit=lim_of(c[2]))
                outs.append("same" if ids is r else "[" + " ".join(str(d) for d in ids) + "]")
            elif op == "sortset":
                r = fam.IF.Set(c[3:]) if ci % 2 else list(c[3:])
                ids = ti.sort(r, reverse=bool(c[1]), limit=lim_of(c[2]))
                outs.append("same" if ids is r else "[" + " ".join(str(d) for d in ids) + "]")
            else:
                raise core.Infra("unknown command %r" % (c,))
        except core.Infra:
            raise
        except Exception as e:
            outs.append(exc_name(e))
    return ["~%d %s" % (wide(c), o) if wide(c) and isinstance(o, str) and o.startswith("{") else o
            for c, o in zip(case["cmds"], outs)]


# ----------------------------------------------------------------------------
# statistics
# ----------------------------------------------------------------------------
def nontrivial(case, outs):
    scored = [o for c, o in zip(case["cmds"], outs) if c[0] == "apply" and o.count(":") >= 2]
    return len(scored) >= 1 and any(c[0] == "applyb" and o == "in-bound" for c, o in zip(case["cmds"], outs))


def features(case, outs):
    cfg = cfgdict(case)
    f = ["kind:" + cfg["kind"], "fam:%s" % cfg["fam"], "cutoff:%s" % (cfg.get("cutoff") or "default")]
    if cfg.get("override"):
        f += ["tuned:any", "tuned:" + cfg["override"],
              "tuned:K1=%s,B=%s" % (base.unbits(cfg["k1"]) if "k1" in cfg else "default",
                                    base.unbits(cfg["b"]) if "b" in cfg else "default")]
    cutoff = int(cfg.get("cutoff") or 10)
    read = {}
    for (i, c, table, terms, globs), o in zip(base.replay_tables(case), outs):
        op = c[0]
        if op in ("index", "reindex", "unindex", "reset"):
            read = {}
        if op in ("apply", "applyb", "applysort"):
            toks = [t for t in (c[3:] if op == "applysort" else c[1:]) if not str(t).startswith("w:")]
            if toks[0] in ("a", "g", "p") and len(toks) == 2:
                w = (globs if toks[0] == "g" else terms).get(toks[1], [])
                df = {x: sum(1 for ws in table.values() if x in ws) for x in set(w)}
                if len(w) == 1 and df[w[0]]:
                    tree = "stored-tree" if df[w[0]] > cutoff else "dict"
                    read[w[0]] = read.get(w[0], 0) + 1
                    if read[w[0]] >= 2:
                        f.append("repeat:one-word-query-again:%s:%s" % (tree, cfg["kind"]))
                        f.append("repeat:one-word-%s-again:%s:%s" % ({"a": "atom", "g": "glob", "p": "phrase"}[toks[0]],
                                                                     tree, cfg["kind"]))
        if op in ("index", "lex", "lexp"):
            continue
        f.append("op:" + op)
        if o.startswith("err"):
            f.append(op + ":" + o.replace(" ", "-"))
        if op in ("apply", "applyb", "applysort"):
            toks = c[1:]
            for k in ("and", "or", "n", "p", "g"):
                if k in toks:
                    f.append(op + ":has-" + k)
            if o == "none":
                f.append(op + ":None")
            elif o in ("{}", "same"):
                f.append(op + ":empty")
            elif op == "apply" and o.startswith("{"):
                vals = [float(t.split(":")[1]) for t in o[1:-1].split()]
                f.append("apply:scored")
                if cfg.get("override"):
                    f.append("tuned:apply-scored")
                    if "k1" in cfg:
                        f.append("tuned:apply-scored-with-K1-overridden")
                        if base.unbits(cfg["k1"]) > 1.2 and any(v > 2.2 / (1 + base.unbits(cfg["k1"])) for v in vals):
                            f.append("tuned:K1>1.2-and-score>2.2/(1+K1)")
                if any(v > 0.999999 for v in vals):
                    f.append("apply:score==1")
                if any(v > 1 + 1e-6 for v in vals):
                    f.append("apply:score>1(outside-hypotheses)")
            elif op == "applyb" and not o.startswith("err"):
                f.append("applyb:" + o)
        if op in ("sort", "sortset", "applysort"):
            f.append("%s:rev=%s" % (op, c[1]))
            f.append("%s:limit=%s" % (op, "none" if c[2] == "none" else ("0" if c[2] == 0 else
                                                                      ("neg" if c[2] < 0 else "pos"))))
            if op == "sort":
                vals = [c[i + 1] for i in range(3, len(c), 2)]
                if len(set(vals)) < len(vals):
                    f.append("sort:ties")
                if isinstance(c[2], int) and c[2] > 0 and len(vals) >= 32 * c[2]:
                    f.append("sort:result>=32xlimit")
                    sv = sorted(vals, reverse=not c[1])
                    if len(sv) > c[2] and sv[c[2] - 1] == sv[c[2]]:
                        f.append("sort:result>=32xlimit-tie-at-the-cut")
                if o == "same":
                    f.append("sort:empty-returned-unchanged")
    for k in sorted(set(f)):
        if k.startswith("repeat:"):
            f.append("case:" + k)
    return f


RULE = ("corpora as in C08 (histories of index/reindex/unindex/reset through TextIndex, documents of 0-20 words "
        "with repeats, both families, Okapi with the rebuilt C extension and cosine); per corpus 2-7 query "
        "trees: 50% glob-free trees inside the bound theorems' hypotheses (AND/OR/NOT/phrases, stop words, "
        "unknown ids, repeated terms for Okapi, pairwise distinct ids for cosine) issued as applyb (bound) and "
        "apply (values), 30% arbitrary trees incl. globs (values only), 20% apply followed by sort / "
        "ResultSet.sort(text index) with limits none/0/1/2/3/50 and reverse; 0-2 sort calls on hand-made "
        "weighted results (IF buckets, IF BTrees, dicts; 0-8 ids, scores from 5 values -> ties; limits incl. "
        "0 and negative; reverse) or on unweighted results (IF sets, lists; TypeError unless empty); DICT_CUTOFF "
        "2 / 3 / default as in C08 and, in 60% of the corpora, the SAME one-word query (atom, single-match glob, "
        "word+stop-word phrase) on the most frequent word through apply / applyb / applysort before and after "
        "other reads of the unchanged corpus (measured quick seed 0, of 912 corpora: 587 repeat on a dict posting, "
        "139 on a stored IFBTree posting - 66 cosine; by form atom 111, glob 54, phrase 28 on stored trees). "
        "30% of the Okapi corpora: K1 / B overridden on a subclass / sub-subclass / instance / instance of a "
        "subclass handed to TextIndex(index=...), pure-Python loop, cfg k1 / cfg b to the model (measured quick "
        "seed 0: 154 of 492 Okapi corpora - 31 / 36 / 42 / 45; 584 scored apply results on them, 432 with K1 "
        "overridden, 96 with K1 > 1.2 and a score above 2.2/(1+K1)); 30% of the hand-made sort calls have "
        ">= 32 x limit ids (limit 1-5, 32-64 x limit ids, 1-5 distinct scores; measured 223 of 728 sort calls, "
        "all 223 with a tie at the cut). "
        "non-trivial = a scored apply with >= 2 documents and an applyb inside the hypotheses")
LEVEL_TEXT = ("Lean 4 theorems over the reals: TextIndex.apply = raw score / query_weight (raw if the weight is "
              "0) for every tree; for every glob-free tree, every history and every lexicon each raw score is a "
              "sum of the C08 summands over a sub-list of the tree's word ids (mutual induction over the tree "
              "following executeQuery, C17 sums); hence 0 < score <= query_weight for Okapi (tf < k1+1, idf > 0) "
              "and, when the word ids are pairwise distinct, for cosine (Cauchy-Schwarz against the document's "
              "unit weight vector), so normalised scores lie in (0,1]; a proved counterexample for repeated "
              "cosine terms; TextIndex.sort returns the ids in descending (reverse: ascending) score order, cut "
              "to the limit, the empty result unchanged, TypeError without weights; tied to hypatia by a "
              "numerical differential run against TextIndex (Okapi with the rebuilt C extension, cosine)")
LEVEL_NOTE = ("real-number theorems; float rounding, 32-bit score storage and libm are outside and covered by "
              "tolerance (bound checked as score <= 1 + 1e-6). Tie order in sort mirrors the code (tuples compare "
              "by docid next); `limit=0` means no limit, as in the code (`if limit:`); the lexicon is a "
              "table-driven stub; trusted: Lean kernel, sampled correspondence, harness")
TECHNIQUE = ("Lean 4 proof (mutual structural induction over parse trees, real analysis for the BM25 bound, "
             "Cauchy-Schwarz for cosine, sorted-permutation lemmas) + numerical differential correspondence")
