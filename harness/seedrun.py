#!/venv/bin/python
"""Run checks against the seeded breaking changes kept under /verif/seeded/<name>/.

    seedrun.py [--tier quick] [--all-checks] [--verify] [name ...]

For every seed: a scratch copy of /repo's working tree is made under /var/tmp, patch.diff is applied
to the copy (never to /repo), with --verify the demonstration and the repository's test-suite are run
on the copy (demo must fail with the patch and pass without; the suite must pass), then the check of the
property named in meta.json (with --all-checks: every claimed check) runs with VERIF_REPO pointing at the
copy.  Prints one line per (seed, check): CAUGHT (exit 1 + VIOLATION line), MISSED (exit 0) or INFRA, and
writes /verif/seeded/RESULTS.json.  Evidence and replays of these runs go to the scratch copy (VERIF_OUT),
not to /verif; the copy is removed afterwards.
"""
import argparse
import json
import os
import shutil
import subprocess
import sys
from pathlib import Path

VERIF = Path(__file__).resolve().parents[1]
SEEDED = Path(os.environ.get("SEEDRUN_DIR") or (VERIF / "seeded"))    # harmless refactorings: /verif/harmless
REPO = Path("/repo")
PY = "/venv/bin/python"


def sh(cmd, cwd=None, env=None, timeout=3600):
    r = subprocess.run(cmd, cwd=cwd, env=env, capture_output=True, text=True, timeout=timeout)
    return r.returncode, r.stdout + r.stderr


def make_copy(name, patch):
    dst = Path("/var/tmp/seedrun_%s_%d" % (name, os.getpid()))
    if dst.exists():
        shutil.rmtree(dst)
    dst.mkdir(parents=True)
    # working tree of /repo (tracked + untracked sources), without VCS data and build output
    shutil.copytree(REPO, dst / "repo", ignore=shutil.ignore_patterns(".git", "*.so", "__pycache__", "*.pyc",
                                                                      "*.egg-info", ".pytest_cache"))
    tree = dst / "repo"
    if patch is not None:
        rc, out = sh(["patch", "-p1", "--no-backup-if-mismatch", "-i", str(patch)], cwd=tree)
        if rc != 0:
            shutil.rmtree(dst, ignore_errors=True)
            raise RuntimeError("patch does not apply: " + out[-500:])
    return dst, tree


def claimed():
    man = json.loads((VERIF / "MANIFEST.json").read_text())
    return [c["property_id"] for c in man["checks"]]


def main():
    ap = argparse.ArgumentParser()
    ap.add_argument("names", nargs="*")
    ap.add_argument("--tier", default="quick")
    ap.add_argument("--all-checks", action="store_true")
    ap.add_argument("--related", action="store_true",
                    help="every claimed check whose property is anchored in a file the patch touches")
    ap.add_argument("--verify", action="store_true")
    ap.add_argument("--seed", default="0")
    a = ap.parse_args()
    names = a.names or sorted(p.name for p in SEEDED.iterdir() if (p / "patch.diff").exists())
    have = claimed()
    resfile = SEEDED / "RESULTS.json"
    results = {}
    for q in sorted(SEEDED.glob("*/result.json")):      # one record per seed (safe for concurrent runs)
        results[q.parent.name] = json.loads(q.read_text())
    for name in names:
        d = SEEDED / name
        meta = json.loads((d / "meta.json").read_text())
        rec = results.setdefault(name, {"property": meta["property"], "checks": {}})
        base, tree = make_copy(name, d / "patch.diff")
        try:
            if a.verify:
                clean_base, clean = make_copy(name + "_clean", None)
                try:
                    rc0, o0 = sh([PY, str(d / "demo.py")], cwd=clean, timeout=600)
                finally:
                    shutil.rmtree(clean_base, ignore_errors=True)
                rc1, o1 = sh([PY, str(d / "demo.py")], cwd=tree, timeout=600)
                rc2, o2 = sh([PY, "-m", "pytest", "-q", "-p", "no:cacheprovider", "-x"], cwd=tree, timeout=1800)
                tail = o2.strip().split("\n")[-1]
                rec["verified"] = {"demo_on_clean_rc": rc0, "demo_on_patched_rc": rc1, "suite_rc": rc2,
                                   "suite_tail": tail}
                ok = rc0 == 0 and rc1 != 0 and rc2 == 0
                print("%-12s verify: demo clean rc=%d patched rc=%d suite rc=%d (%s) -> %s"
                      % (name, rc0, rc1, rc2, tail, "OK" if ok else "NOT A VALID SEED"))
            props = have if a.all_checks else [p for p in [meta["property"]] + meta.get("also", []) if p in have]
            if a.related:
                sys.path.insert(0, str(VERIF / "harness"))
                from lib import fingerprint
                touched = {l.split(" b/", 1)[1].strip() for l in (d / "patch.diff").read_text().splitlines()
                           if l.startswith("diff --git ")}
                props = props + [p for p in have if p not in props and touched & set(fingerprint.anchored_files(p))]
            for pid in props:
                env = dict(os.environ, VERIF_REPO=str(tree), VERIF_SEED=a.seed,
                           VERIF_SCRATCH="/var/tmp/hypatia-verif-seed.%s.%d" % (name, os.getpid()),
                           VERIF_OUT=str(base / "out"))
                rc, out = sh([PY, str(VERIF / "harness" / "check.py"), pid, "--tier", a.tier], cwd=VERIF, env=env,
                             timeout=7200)
                viol = [l for l in out.split("\n") if l.startswith("VIOLATION")]
                verdict = "CAUGHT" if rc == 1 and viol else "MISSED" if rc == 0 else "INFRA(rc=%d)" % rc
                rec["checks"]["%s/%s" % (pid, a.tier)] = {"verdict": verdict, "lines": viol[:3]}
                if viol and "replay=" in viol[0]:
                    rp = Path(viol[0].split("replay=", 1)[1].split()[0])
                    if rp.exists():     # keep the concrete replay next to the seed
                        shutil.copy(rp, d / ("caught_by_%s.json" % pid))
                print("%-12s %s %-8s %s %s" % (name, pid, a.tier, verdict, viol[0] if viol else
                                               (out.strip().split("\n")[-1][:160] if rc not in (0, 1) else "")))
                sys.stdout.flush()
        finally:
            shutil.rmtree(base, ignore_errors=True)
        prev = {}
        if (d / "result.json").exists():
            prev = json.loads((d / "result.json").read_text())
        prev.setdefault("checks", {}).update(rec["checks"])
        for kk in ("property", "verified"):
            if kk in rec:
                prev[kk] = rec[kk]
        (d / "result.json").write_text(json.dumps(prev, indent=1, sort_keys=True) + "\n")
        results[name] = prev
    for q in sorted(SEEDED.glob("*/result.json")):
        results[q.parent.name] = json.loads(q.read_text())
    resfile.write_text(json.dumps(results, indent=1, sort_keys=True) + "\n")


if __name__ == "__main__":
    main()
