#!/venv/bin/python
"""Regenerate the seeded-changes table of DESIGN.md (between the SEEDTABLE markers) from seeded/*/result.json."""
import json
import re
from pathlib import Path

VERIF = Path(__file__).resolve().parents[1]
rows = []
for d in sorted((VERIF / "seeded").iterdir()):
    if not (d / "meta.json").exists():
        continue
    meta = json.loads((d / "meta.json").read_text())
    res = json.loads((d / "result.json").read_text()) if (d / "result.json").exists() else {"checks": {}}
    caught, missed = [], []
    for k, v in sorted(res.get("checks", {}).items()):
        pid, tier = k.split("/")
        (caught if v["verdict"] == "CAUGHT" else missed if v["verdict"] == "MISSED" else []).append(pid)
    own = meta["property"]
    what = re.sub(r"\s+", " ", meta.get("what", "")).strip()
    if len(what) > 150:
        what = what[:147] + "..."
    files = ", ".join(sorted({f.replace("hypatia/", "").replace("/__init__.py", "") for f in meta.get("files", [])}))
    rows.append("| %s | %s | %s | %s | %s |" % (
        d.name, files, what.replace("|", "/"),
        "**yes**" if own in caught else ("no (%s)" % ", ".join(c for c in caught if c != own) if caught else
                                        ("outside every property: " + meta["out_of_scope"] if meta.get("out_of_scope")
                                         else "NO")),
        ", ".join(c for c in caught if c != own) or "–"))
table = ["| seed | where | change | caught by its own property's check | also caught by |", "|---|---|---|---|---|"] + rows
p = VERIF / "DESIGN.md"
s = p.read_text()
a, b = "<!-- SEEDTABLE:BEGIN -->", "<!-- SEEDTABLE:END -->"
s = s[:s.index(a) + len(a)] + "\n" + "\n".join(table) + "\n" + s[s.index(b):]
p.write_text(s)
print("%d seeds" % len(rows))
