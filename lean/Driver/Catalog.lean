import HypatiaModel.Catalog
import HypatiaModel.CatalogSort
import HypatiaModel.Spec.SortSpec
import HypatiaModel.Spec.CatalogSpec
import Driver.Sess
/-!
Session `catalog` (C12).  Lines:

* `cfg add <name> field|keyword <attr>` / `cfg add <name> facet <attr> <facet>*`  (also as a command `add …`)
* `index|reindex <docid> <attr>=<val>*`, `unindex <docid>`, `reset`
  docid: integer | `T` | `F` (bool) | anything else (str / float / None)
  val: `i<int>` | `w<k>,<k>…` (keyword list, `w` = empty) | `S` (a str) | `f<facet>,<facet>…` | `P` (persistent) | `B` (broken)
* `name <n>`, `obs <n>`
* `search <opt>* [; <name> <form>]*`, `query|call <opt>* [; <name> <form>]+`, `sort <opt>* ; <id>*`
  opt: `order=a,b` (`order=-` = empty list) | `sort=<name>` | `limit=<n>` | `rev=1` |
       `st=none|fwscan|nbest|timsort|stable|optimal|other` (sort_type; answered by the composed C12∘C07 model)
  form: `v E` | `p a b` | `l E*` | `t E*` (tuple, length ≠ 2) | `d <or|and|xor|none> (v E | p a b | l E* | t E* | nq)`
  E: `3` | `3..5` | `..5` | `3..` | `..`   (facet indexes: facet tokens `1:2`, no ranges)
     `N` = Python's `None` as a query value: under a field index `(None, None)` reaches `_fwd_index.values`, i.e.
     both ends open (every document with a value); as the bare argument of a keyword/facet index it is not
     iterable (TypeError), like `Z` = the int `0` handed to a keyword/facet index
* `recheck` – the (num, ids) pairs handed out by earlier searches are re-read: results are values, later
  catalog traffic cannot change them (`stable`); `clobber` – the caller empties a result it was handed (`ok`):
  nothing in the catalog changes
-/
namespace Driver.CatalogS
open Hyp Hyp.Legacy Hyp.Catalog

inductive Attr where
  | val (v : DVal)
  | persistent
  | broken

abbrev Doc := AMap String Attr

def discOf (attr : String) (doc : Doc) : Disc :=
  match AMap.get doc attr with
  | none => .missing
  | some (.val v) => .value v
  | some .persistent => .reject
  | some .broken => .reject

/-- the specification's document table of one index -/
inductive SpecT where
  | field (t : Field.Spec.Table Int)
  | keyword (t : Keyword.Spec.Table Int)
  | facet (facets : List Facet.Facet) (t : Facet.Spec.Table)

structure St where
  cat : Cat Doc := []
  specs : List (String × SpecT) := []      -- parallel to `cat`

def facet? (tok : String) : Option Facet.Facet := (tok.splitOn ":").mapM String.toNat?
def showFacet (f : Facet.Facet) : String := ":".intercalate (f.map toString)
def sortFacets (l : List Facet.Facet) : List Facet.Facet := Hyp.Sort.isort Facet.lexLe l

def csv (s : String) : List String := if s = "" then [] else s.splitOn ","

def attrVal? (s : String) : Option Attr :=
  if s = "P" then some .persistent
  else if s = "B" then some .broken
  else if s = "S" then some (.val .str)
  else
    let rest := (s.drop 1).toString
    if s.startsWith "i" then rest.toInt?.map (fun v => .val (.int v))
    else if s.startsWith "w" then ((csv rest).mapM String.toInt?).map (fun l => .val (.kws l))
    else if s.startsWith "f" then ((csv rest).mapM facet?).map (fun l => .val (.paths l))
    else none

def doc? (toks : List String) : Option Doc :=
  toks.mapM (fun t =>
    match t.splitOn "=" with
    | [a, v] => (attrVal? v).map (fun x => (a, x))
    | _ => none)

def docid (tok : String) : DocId :=
  match tok.toInt? with
  | some n => .int n
  | none => if tok = "T" then .bool true else if tok = "F" then .bool false else .other

def showErr : Err → String
  | .valueError => "err ValueError"
  | .typeError => "err TypeError"
  | .keyError => "err KeyError"
  | .attributeError => "err AttributeError"
  | .unsortable => "err Unsortable"
  | .unmodelled => "unmodelled"

def showOpt : Option Err → String
  | none => "ok"
  | some e => showErr e

/-! ## specification side of the mutating calls -/

def stepField (t : Field.Spec.Table Int) (ops : List Spec.IxOp) : Field.Spec.Table Int :=
  (ops.filterMap Spec.fieldOp).foldl Field.Spec.stepT t
def stepKw (t : Keyword.Spec.Table Int) (ops : List Spec.IxOp) : Keyword.Spec.Table Int :=
  (ops.filterMap Spec.kwOp).foldl Keyword.Spec.stepT t
def stepFacet (t : Facet.Spec.Table) (ops : List Spec.IxOp) : Facet.Spec.Table :=
  (ops.filterMap Spec.facetOp).foldl Facet.Spec.stepT t

/-- every table is advanced by the calls its own index receives -/
def specStep (pre : List (Spec.Cfg Doc)) : List (Entry Doc) → List (String × SpecT) → Op Doc → List (String × SpecT)
  | e :: es, (n, t) :: ts, op =>
    let ops := Spec.project pre e.disc op
    let t' := match t with
      | .field t => SpecT.field (stepField t ops)
      | .keyword t => SpecT.keyword (stepKw t ops)
      | .facet F t => SpecT.facet F (stepFacet t ops)
    (n, t') :: specStep (pre ++ [Spec.cfgOf e]) es ts op
  | _, _, _ => []

def apply (st : St) (op : Op Doc) : St × String :=
  let r := stepE st.cat op
  ({ cat := r.1, specs := specStep [] st.cat st.specs op },
   showOpt r.2 ++ " ## " ++ showOpt (Spec.raised st.cat op))

/-! ## observation of one index -/

def showPost (l : List (String × List Int)) : String :=
  " ".intercalate (l.map (fun p => p.1 ++ ":" ++ showIdSet p.2))

def obsLine (indexed ni docids : List Int) (ic : Int) (wc : Nat) (post : List (String × List Int)) : String :=
  s!"indexed={showIdSet indexed} ni={showIdSet ni} docids={showIdSet docids} ic={ic} nic={ni.length} " ++
  s!"dc={docids.length} wc={wc} post=[{showPost post}]"

def obsField (s : Field.State Int) (t : Field.Spec.Table Int) : String :=
  let kn := Field.Spec.known t
  let withVal := kn.filter (fun d => (Field.Spec.valueOf t d).isSome)
  let noVal := kn.filter (fun d => (Field.Spec.valueOf t d).isNone)
  let vals := sortInts (kn.filterMap (fun d => Field.Spec.valueOf t d)).eraseDups
  obsLine (Field.indexed s) s.notIndexed (Field.docids s) (Field.indexedCount s) (Field.wordCount s)
    ((sortInts (Field.uniqueValues s)).map (fun v => (toString v, Field.applyEq s v))) ++ " ## " ++
  obsLine withVal noVal kn withVal.length vals.length (vals.map (fun v => (toString v, Field.Spec.eq t v)))

def obsKw {K : Type} [DecidableEq K] (sortK : List K → List K) (showK : K → String)
    (s : Keyword.State K) (t : Keyword.Spec.Table K) : String :=
  let kn := Keyword.Spec.known t
  let withKw := kn.filter (fun d => !(Keyword.Spec.kwOf t d).isEmpty)
  let noVal := kn.filter (fun d => Keyword.Spec.withdrawn t d)
  let vals := sortK (withKw.flatMap (Keyword.Spec.kwOf t)).eraseDups
  obsLine (Keyword.indexed s) s.notIndexed (Keyword.docids s) (Keyword.indexedCount s) (Keyword.wordCount s)
    ((sortK (Keyword.uniqueValues s)).map (fun k => (showK k, Keyword.applyEq s k))) ++ " ## " ++
  obsLine withKw noVal kn withKw.length vals.length (vals.map (fun k => (showK k, Keyword.Spec.eq t k)))

def obs (st : St) (name : String) : String :=
  match get st.cat name, st.specs.lookup name with
  | some e, some t =>
    match e.ix, t with
    | .field s, .field t => obsField s t
    | .keyword s, .keyword t => obsKw sortInts toString s t
    | .facet s, .facet F t => obsKw sortFacets showFacet s.ks (Facet.Spec.kwTable F t)
    | _, _ => "bad-op"
  | _, _ => "err KeyError ## err KeyError"

/-! ## parsing of query arguments -/

def bound? (s : String) : Option (Option Int) := if s = "" then some none else s.toInt?.map some

def elemInt? (tok : String) : Option (Elem Int) :=
  if tok = "N" then some (.range none none) else
  match tok.splitOn ".." with
  | [v] => v.toInt?.map .val
  | [lo, hi] => do let lo ← bound? lo; let hi ← bound? hi; pure (.range lo hi)
  | _ => none

def elemFacet? (tok : String) : Option (Elem Facet.Facet) :=
  if tok = "N" || tok = "Z" then some (.range none none) else (facet? tok).map .val

/-- element of a keyword-index query: a keyword number, a range, `N` (None) or `Z` (int 0: not iterable) -/
def elemKw? (tok : String) : Option (Elem Int) :=
  if tok = "Z" then some (.range none none) else elemInt? tok

def shape? {α : Type} (elem? : String → Option (Elem α)) : List String → Option (Shape α)
  | ["v", e] => (elem? e).map .bare
  | ["p", a, b] =>
    match elem? a, elem? b with
    | some (.val a), some (.val b) => some (.pair a b)
    | _, _ => none
  | "l" :: es => (es.mapM elem?).map .seq
  | "t" :: es => if es.length = 2 then none else (es.mapM elem?).map .seq
  | _ => none

def oper? : String → Option (Option Oper)
  | "or" => some (some .or)
  | "and" => some (some .and)
  | "xor" => some (some .other)
  | "none" => some none
  | _ => none

def lq? {α : Type} (elem? : String → Option (Elem α)) : List String → Option (LQ α)
  | ["d", op, "nq"] => (oper? op).map (fun o => .dict o none)
  | "d" :: op :: rest => do
    let o ← oper? op
    let sh ← shape? elem? rest
    pure (.dict o (some sh))
  | toks => (shape? elem?) toks |>.map .plain

/-- a term `<name> <form>`; the element syntax follows the kind of the named index -/
def term? (c : Cat Doc) : List String → Option (String × QArg)
  | name :: form =>
    let isFacet : Bool := match get c name with
      | some e => e.ix.kind == .facet
      | none => false
    let isKw : Bool := match get c name with
      | some e => e.ix.kind == .keyword
      | none => false
    if isFacet then (lq? elemFacet? form).map (fun q => (name, .fac q))
    else if isKw then (lq? elemKw? form).map (fun q => (name, .int q))
    else match lq? elemInt? form with
      | some q => some (name, .int q)
      | none => (lq? elemFacet? form).map (fun q => (name, .fac q))
  | [] => none

structure Opts where
  sort : SortArgs := {}
  order : Option (List String) := none
  /-- `st=<sort_type>`: answer with the composed model (`searchM / queryM / callM / sortM`: the sort index's
  own `FieldIndex.sort`, C07) and pass this `sort_type` (`none` = the default `None`) -/
  st : Option (Option Field.SortType) := none

def sortType? : String → Option (Option Field.SortType)
  | "none" => some none
  | "fwscan" => some (some .fwscan)
  | "nbest" => some (some .nbest)
  | "timsort" => some (some .timsort)
  | "stable" => some (some .stable)
  | "optimal" => some (some .optimal)
  | "other" => some (some .other)
  | _ => none

def opts? : List String → Opts → Option Opts
  | [], o => some o
  | t :: ts, o =>
    match t.splitOn "=" with
    | ["order", v] => opts? ts { o with order := some (if v = "-" then [] else csv v) }
    | ["sort", v] => opts? ts { o with sort := { o.sort with sortIndex := some v } }
    | ["limit", v] => v.toInt?.bind (fun l => opts? ts { o with sort := { o.sort with limit := some l } })
    | ["rev", v] => opts? ts { o with sort := { o.sort with reverse := v = "1" } }
    | ["st", v] => (sortType? v).bind (fun t => opts? ts { o with st := some t })
    | _ => none

/-! ## answers -/

def showSeq (l : List Int) : String := "[" ++ showInts l ++ "]"

/-- canonical form of a `(num, result)` pair; of a sorted result the sequence of sort *values*
(the contract leaves the order of ties open), whether `Unsortable` follows, and – without a
limit – the set of ids -/
def showSorted (n : Nat) (keys : List Int) (raised : Bool) (ids : Option (List Int)) : String :=
  s!"{n} keys={showSeq keys} uns={if raised then 1 else 0} ids=" ++
    (match ids with | some l => showIdSet l | none => "*")

def showModel (c : Cat Doc) (a : SortArgs) : Except Err (Nat × Result) → String
  | .error e => showErr e
  | .ok (n, .ids s) => s!"{n} {showIdSet s}"
  | .ok (n, .seq l raised) =>
    let key : Int → Int := fun d =>
      match a.sortIndex.bind (get c) with
      | some e => match e.ix with
        | .field s => (AMap.get s.rev d).getD 0
        | _ => 0
      | none => 0
    showSorted n (l.map key) raised (if a.limit.isSome then none else some l)

/-- the composed model's `(num, result)` in the same canonical form (what iterating the result shows) -/
def showModelM (c : Cat Doc) (a : SortArgs) : Except Err (Nat × ResultM) → String
  | .error e => showErr e
  | .ok (n, .ids s) => s!"{n} {showIdSet s}"
  | .ok (n, .sorted r) =>
    match r.observe with
    | none => showErr .valueError
    | some g => showModel c a (.ok (n, .seq g.ids g.raised.isSome))

/-- the specification's answer for an id set `I` and the sort arguments -/
def showSpec (st : St) (a : SortArgs) (bailEmpty : Bool) (sortType : Option Field.SortType := none) :
    Except Err IdSet → String
  | .error e => showErr e
  | .ok I =>
    if bailEmpty && I = [] then "0 {}"
    else match a.sortIndex with
    | none => s!"{I.length} {showIdSet I}"
    | some name =>
      match st.specs.lookup name with
      | none => showErr .keyError
      | some (.field t) =>
        if (match a.limit with | some l => decide (l < 1) | none => false) then showErr .valueError
        else if I ≠ [] && (Field.Spec.known t).all (fun d => (Field.Spec.valueOf t d).isNone) then
          showErr .unsortable          -- a sort index without any value raises at once
        else if I ≠ [] && Field.Spec.rejects a.reverse a.limit sortType then
          showErr .valueError          -- forward scan in reverse, n-best without a limit, unknown sort type
        else
          let r := Spec.sortKeys t I a.reverse a.limit
          showSorted (Spec.num I.length a.sortIndex a.limit) r.1 r.2
            (if a.limit.isSome then none else some (I.filter (fun d => (Field.Spec.valueOf t d).isSome)))
      | some _ => showErr .attributeError

def specResolve (st : St) (t : String × QArg) : Except Err IdSet :=
  match st.specs.lookup t.1, t.2 with
  | none, _ => .error .valueError
  | some (.field tb), .int q => Spec.fieldAnswer tb q
  | some (.keyword tb), .int q => Spec.kwAnswer tb q
  | some (.facet F tb), .fac q => Spec.kwAnswer (Facet.Spec.kwTable F tb) q
  | _, _ => .error .unmodelled

def parseTerms (c : Cat Doc) (groups : List (List String)) : Option (List (String × QArg)) :=
  groups.mapM (term? c)

def doSearch (st : St) (o : Opts) (terms : List (String × QArg)) : String :=
  let a : SearchArgs := { toSortArgs := o.sort, terms := terms, order := o.order }
  let sp := match o.order with
    | none => Spec.unordered (terms.map (specResolve st)) []
    | some order => Spec.orderedGo ((Spec.applicable terms order).map (specResolve st)) []
  match o.st with
  | some t => showModelM st.cat o.sort (searchM st.cat a t) ++ " ## " ++ showSpec st o.sort true t sp
  | none => showModel st.cat o.sort (search st.cat a) ++ " ## " ++ showSpec st o.sort true none sp

def seqE {ε α : Type} : List (Except ε α) → Except ε (List α)
  | [] => .ok []
  | .error e :: _ => .error e
  | .ok a :: rest => (seqE rest).map (a :: ·)

def doQuery (st : St) (o : Opts) (terms : List (String × QArg)) (viaCall : Bool) : String :=
  let sp := (seqE (terms.map (specResolve st))).map Spec.interAll
  match o.st with
  | some t =>
    let m := match seqE (terms.map (resolve st.cat)) with
      | .error e => .error e
      | .ok rs => if viaCall then callM st.cat (andApply rs) o.sort t else queryM st.cat (andApply rs) o.sort t
    showModelM st.cat o.sort m ++ " ## " ++ showSpec st o.sort false t sp
  | none =>
    let m := match seqE (terms.map (resolve st.cat)) with
      | .error e => .error e
      | .ok rs => if viaCall then call st.cat (andApply rs) o.sort else query st.cat (andApply rs) o.sort
    showModel st.cat o.sort m ++ " ## " ++ showSpec st o.sort false none sp

def doSort (st : St) (o : Opts) (ids : List Int) : String :=
  match o.st with
  | some t => showModelM st.cat o.sort (sortM st.cat ids o.sort t) ++ " ## " ++ showSpec st o.sort false t (.ok ids)
  | none => showModel st.cat o.sort (sort st.cat ids o.sort) ++ " ## " ++ showSpec st o.sort false none (.ok ids)

def addIndex (st : St) : List String → Option St
  | [name, "field", attr] =>
    some { cat := setitem st.cat name { name := "", nameAttr := none, disc := discOf attr, ix := .field Field.init },
           specs := setSpec st.specs name (.field []) }
  | [name, "keyword", attr] =>
    some { cat := setitem st.cat name { name := "", nameAttr := none, disc := discOf attr, ix := .keyword Keyword.init },
           specs := setSpec st.specs name (.keyword []) }
  | name :: "facet" :: attr :: fs =>
    (fs.mapM facet?).map (fun F =>
      { cat := setitem st.cat name { name := "", nameAttr := none, disc := discOf attr, ix := .facet (Facet.init F) },
        specs := setSpec st.specs name (.facet (Keyword.dedup F) []) })
  | _ => none
where
  setSpec (l : List (String × SpecT)) (name : String) (t : SpecT) : List (String × SpecT) :=
    if l.any (fun x => x.1 == name) then l.map (fun x => if x.1 == name then (name, t) else x)
    else l ++ [(name, t)]

def step (st : St) (toks : List String) : St × String :=
  match toks with
  | "cfg" :: "add" :: rest | "add" :: rest =>
    match addIndex st rest with
    | some st' => (st', "ok")
    | none => (st, "bad-op")
  | "cfg" :: _ => (st, "ok")
  | "index" :: d :: rest =>
    match doc? rest with
    | some doc => apply st (.index (docid d) doc)
    | none => (st, "bad-op")
  | "reindex" :: d :: rest =>
    match doc? rest with
    | some doc => apply st (.reindex (docid d) doc)
    | none => (st, "bad-op")
  | ["unindex", d] => apply st (.unindex (docid d))
  | ["reset"] => apply st .reset
  | ["name", n] =>
    let f : Option String → String := fun o => match o with | some s => "name=" ++ s | none => "name=None"
    match get st.cat n with
    | some e => (st, f e.nameAttr ++ " ## " ++ f (some n))
    | none => (st, "err KeyError ## err KeyError")
  | ["obs", n] => (st, obs st n)
  -- model: every result the model hands out is a value (`stable`); the specification (C12) does not say
  -- whether a returned container may alias index state, so its answer is undetermined (`?`): a change
  -- here is correspondence drift (a provenance change), not a failing input of the property
  | ["recheck"] => (st, "stable ## ?")
  | ["clobber"] => (st, "ok")
  | cmd :: rest =>
    match splitAll ";" rest with
    | [] => (st, "bad-op")
    | optToks :: groups =>
      match opts? optToks {} with
      | none => (st, "bad-op")
      | some o =>
        if cmd = "sort" then
          match groups with
          | [ids] => match intList? ids with
            | some ids => (st, doSort st o ids)
            | none => (st, "bad-op")
          | _ => (st, "bad-op")
        else match parseTerms st.cat groups with
          | none => (st, "bad-op")
          | some terms =>
            if cmd = "search" then (st, doSearch st o terms)
            else if cmd = "query" then (st, doQuery st o terms false)
            else if cmd = "call" then (st, doQuery st o terms true)
            else (st, "bad-op")
  | _ => (st, "bad-op")

def sess : Sess := { σ := St, st := {}, step := step }
end Driver.CatalogS
