import HypatiaModel.Concurrency
import HypatiaModel.ConcurrencyIndex
import HypatiaModel.ConcurrencyText
import Driver.Sess
namespace Driver.ConcurrencyS
open Hyp Hyp.Concurrency Hyp.CIdx

/-!
Session `concurrency`: the abstract commit log (which operations must be visible for each
combination of commit outcomes) **and** the object-level replay of the same case: the base
operations run in transaction 0, `a` / `b` run as transactions 1 / 2 on the snapshot taken at
`begin`, the second `commit` merges (`commitSecond`), `check` prints the merged heaps.

Document specification of the harness (`props/c09.py: make_doc`): `f kw c t u` with `-` = attribute
absent; `f` = field value, `kw` = bit mask over keywords 0‥4, `c` = facet path(s) out of the six
configured facets `a, a:b, a:b:c, d, d:e, f` (numbered 0‥5): path `c % 6`, and `(c / 7) % 6` when
`c ≥ 7`; `t`, `u` = text seeds for the Okapi (`i3`) and the cosine (`i4`) text index: the words of
the text as `make_doc` builds it, numbered 0‥9 (`apple` … `jade`) and 100 + n (`w%03d`); none is a
stop word and all are lower case, so the lexicon's pipeline returns them unchanged.
-/

def alt (l : CLog) (a b : Bool) : String :=
  s!"{if a then "ok" else "conflict"},{if b then "ok" else "conflict"}:" ++
    String.join ((l.visible a b).map fun k => s!" {k}")

structure St where
  log : CLog := {}
  thr : Nat := 2
  cutoff : Nat := 10
  present : List String := ["i0", "i1", "i2", "i3", "i4"]
  begun : Bool := false
  f0 : FTx Int := {}
  fA : FTx Int := {}
  fB : FTx Int := {}
  k0 : KTx Int := {}
  kA : KTx Int := {}
  kB : KTx Int := {}
  c0 : KTx Int := {}
  cA : KTx Int := {}
  cB : KTx Int := {}
  t0 : TTx Nat TextFreq.SWt := {}
  tA : TTx Nat TextFreq.SWt := {}
  tB : TTx Nat TextFreq.SWt := {}
  u0 : TTx Nat TextFreq.SWt := {}
  uA : TTx Nat TextFreq.SWt := {}
  uB : TTx Nat TextFreq.SWt := {}

/-- the prefix expansion of facet path `j` (indices into `a, a:b, a:b:c, d, d:e, f`) -/
def facetPrefixes (j : Nat) : List Int :=
  match j with
  | 0 => [0]
  | 1 => [0, 1]
  | 2 => [0, 1, 2]
  | 3 => [3]
  | 4 => [3, 4]
  | _ => [5]

def allFacets : List Int := [0, 1, 2, 3, 4, 5]

structure DocSpec where
  f : Option Int
  k : Option (List Int)
  c : Option (List Int)          -- candidates (prefix-expanded)
  t : Option (List Nat)          -- tokens of the Okapi index's text
  u : Option (List Nat)          -- tokens of the cosine index's text

/-- the words of `make_doc`'s text for seed `x` -/
def textWords (x : Nat) : List Nat :=
  if x ≥ 1000 then (List.range (x - 1000)).map (100 + ·) ++ [0]
  else
    let n := x % 6
    let ws := (List.range n).map (fun j => (x / 6 + j * (1 + x % 3)) % 10)
    if x ≥ 100 then ws ++ [100 + x % 80, 100 + (x * 7) % 80] else ws

def docSpec? (toks : List String) : Option DocSpec :=
  match toks with
  | f :: k :: c :: rest => do
    let f ← optDash f
    let k ← optDash k
    let c ← optDash c
    let t ← match rest with | t :: _ => optDash t | [] => some none
    let u ← match rest with | _ :: u :: _ => optDash u | _ => some none
    let kws := k.map (fun m => (List.range 5).filterMap (fun i =>
      if (m.toNat >>> i) % 2 = 1 then some (Int.ofNat i) else none))
    let cs := c.map (fun c =>
      let n := c.toNat
      facetPrefixes (n % 6) ++ (if n ≥ 7 then facetPrefixes ((n / 7) % 6) else []))
    pure { f := f, k := kws, c := cs, t := t.map (fun x => textWords x.toNat), u := u.map (fun x => textWords x.toNat) }
  | _ => none
where
  optDash (t : String) : Option (Option Int) := if t = "-" then some none else (t.toInt?).map some

abbrev XTx := TTx Nat TextFreq.SWt

/-- the five modelled indexes of one transaction -/
structure Txs where
  f : FTx Int := {}
  k : KTx Int := {}
  c : KTx Int := {}
  t : XTx := {}
  u : XTx := {}

/-- one catalog operation on the modelled indexes of one transaction -/
def applyOp (thr cutoff : Nat) (x : Txs) (toks : List String) : Option Txs :=
  let cfg : KCfg := { thr := thr }
  match toks with
  | op :: d :: spec =>
    match d.toInt? with
    | none => none
    | some d =>
      if op = "unindex" then
        some { f := x.f.unindexDoc d, k := x.k.unindexDoc d, c := x.c.unindexDoc d,
               t := TTx.unindexDoc (TextFreq.okapiCfg cutoff) x.t d,
               u := TTx.unindexDoc (TextFreq.cosineCfg cutoff) x.u d }
      else if op = "index" ∨ op = "reindex" then
        match docSpec? spec with
        | some s => some { f := x.f.indexDoc d s.f, k := KTx.indexDoc cfg x.k d s.k,
                           c := KTx.facetIndexDoc allFacets x.c d s.c,
                           t := TTx.indexDoc (TextFreq.okapiCfg cutoff) x.t d s.t,
                           u := TTx.indexDoc (TextFreq.cosineCfg cutoff) x.u d s.u }
        | none => none
      else none
  | _ => none

def showSet (l : List Int) : String := showIdSet l

def showPairs (l : List (Int × String)) : String :=
  let keys := sortInts (l.map (·.1))
  "[" ++ " ".intercalate (keys.map (fun k => s!"{k}:{(l.lookup k).getD "?"}")) ++ "]"

def obsF (h : FHeap Int) : String :=
  let rev := showPairs (h.rev.map (fun e => (e.1, toString e.2)))
  let fwd := showPairs (h.fwd.map (fun e => (e.1, showSet (h.posting e.1))))
  s!"i0 rev={rev} ni={showSet h.ni} len={h.len} fwd={fwd}"

def obsK (name : String) (h : KHeap Int) : String :=
  let rev := showPairs (h.rev.map (fun e => (e.1, ",".intercalate ((sortInts e.2).map toString))))
  let fwd := showPairs (h.fwd.map (fun e => (e.1, showSet (h.posting e.1))))
  s!"{name} rev={rev} ni={showSet h.ni} fwd={fwd} inv={if h.len = h.rev.length then 1 else 0}"

/-- a text index in the vocabulary of its public API: the words of every document, the
not-indexed set, the three counts, and for every word that has a posting the documents in it -/
def obsT (name : String) (h : THeap Nat TextFreq.SWt) : String :=
  let word (i : Nat) : String := match AMap.get h.words i with | some w => toString w | none => s!"?{i}"
  let rev := showPairs (h.docwords.map (fun e => (e.1, ",".intercalate (e.2.map word))))
  let fwd := showPairs (h.wordinfo.map (fun e =>
    (match AMap.get h.words e.1 with | some w => Int.ofNat w | none => -1 - Int.ofNat e.1,
     showSet (AMap.keys (h.posting e.1)))))
  s!"{name} rev={rev} ni={showSet h.ni} ic={h.indexedCount} wc={h.wordCount} lwc={h.lexCount} fwd={fwd}"

def showObj : ObjId → String
  | .fwd => "fwd" | .rev => "rev" | .ni => "ni" | .len => "len"
  | .post o => s!"post({o.1},{o.2})"

/-- which objects refuse to merge (diagnostics) -/
def conflictsF (base : FHeap Int) (a b : FTx Int) : List String :=
  let chk (o : ObjId) (r : Option Unit) : List String := if r.isNone then [showObj o] else []
  chk .fwd ((mergeObj resolveMap (dirty a.writes .fwd) (dirty b.writes .fwd) base.fwd a.heap.fwd b.heap.fwd).map fun _ => ()) ++
  chk .rev ((mergeObj resolveMap (dirty a.writes .rev) (dirty b.writes .rev) base.rev a.heap.rev b.heap.rev).map fun _ => ()) ++
  chk .ni ((mergeObj resolveSet (dirty a.writes .ni) (dirty b.writes .ni) base.ni a.heap.ni b.heap.ni).map fun _ => ()) ++
  base.post.flatMap (fun e =>
    chk (.post e.1) ((mergeObj resolveSet (dirty a.writes (.post e.1)) (dirty b.writes (.post e.1)) e.2
      ((AMap.get a.heap.post e.1).getD e.2) ((AMap.get b.heap.post e.1).getD e.2)).map fun _ => ()))

def conflictsK (base : KHeap Int) (a b : KTx Int) : List String :=
  let chk (o : ObjId) (r : Option Unit) : List String := if r.isNone then [showObj o] else []
  chk .fwd ((mergeObj resolveMap (dirty a.writes .fwd) (dirty b.writes .fwd) base.fwd a.heap.fwd b.heap.fwd).map fun _ => ()) ++
  chk .rev ((mergeObj resolveMap (dirty a.writes .rev) (dirty b.writes .rev) base.rev a.heap.rev b.heap.rev).map fun _ => ()) ++
  chk .ni ((mergeObj resolveSet (dirty a.writes .ni) (dirty b.writes .ni) base.ni a.heap.ni b.heap.ni).map fun _ => ()) ++
  base.post.flatMap (fun e =>
    chk (.post e.1) ((mergeObj resolvePosting (dirty a.writes (.post e.1)) (dirty b.writes (.post e.1)) e.2
      ((AMap.get a.heap.post e.1).getD e.2) ((AMap.get b.heap.post e.1).getD e.2)).map fun _ => ()))

def conflictsT (base : THeap Nat TextFreq.SWt) (a b : XTx) : List String :=
  let da := tdirty a.writes
  let db := tdirty b.writes
  let chk (n : String) (r : Option Unit) : List String := if r.isNone then [n] else []
  chk "wids" ((mergeObj resolveMap (da .wids) (db .wids) base.wids a.heap.wids b.heap.wids).map fun _ => ()) ++
  chk "words" ((mergeObj resolveMap (da .words) (db .words) base.words a.heap.words b.heap.words).map fun _ => ()) ++
  chk "wordinfo" ((mergeObj resolveMap (da .wordinfo) (db .wordinfo) base.wordinfo a.heap.wordinfo b.heap.wordinfo).map fun _ => ()) ++
  chk "docwords" ((mergeObj resolveMap (da .docwords) (db .docwords) base.docwords a.heap.docwords b.heap.docwords).map fun _ => ()) ++
  chk "docweight" ((mergeObj resolveMap (da .docweight) (db .docweight) base.docweight a.heap.docweight b.heap.docweight).map fun _ => ()) ++
  chk "ni" ((mergeObj resolveSet (da .ni) (db .ni) base.ni a.heap.ni b.heap.ni).map fun _ => ()) ++
  base.tree.flatMap (fun e =>
    chk s!"tree({e.1.1},{e.1.2})" ((mergeObj resolveMap (da (.tree e.1)) (db (.tree e.1)) e.2
      ((AMap.get a.heap.tree e.1).getD e.2) ((AMap.get b.heap.tree e.1).getD e.2)).map fun _ => ()))

def txsA (st : St) : Txs := { f := st.fA, k := st.kA, c := st.cA, t := st.tA, u := st.uA }
def txsB (st : St) : Txs := { f := st.fB, k := st.kB, c := st.cB, t := st.tB, u := st.uB }
def txs0 (st : St) : Txs := { f := st.f0, k := st.k0, c := st.c0, t := st.t0, u := st.u0 }

/-- the transactions in commit order -/
def ordered (st : St) : Option (Txs × Txs) :=
  match st.log.order with
  | [.a, .b] => some (txsA st, txsB st)
  | [.b, .a] => some (txsB st, txsA st)
  | _ => none

/-- object-level outcome of the second commit: conflicting objects per present index, or the merged heaps -/
def merged (st : St) : Option (List String × String × String) :=
  match ordered st with
  | none => none
  | some (x1, x2) =>
    let has (n : String) : Bool := st.present.contains n
    let mf := commitSecond st.f0.heap x1.f x2.f
    let mk := commitSecondK st.k0.heap x1.k x2.k
    let mc := commitSecondK st.c0.heap x1.c x2.c
    let mt := commitSecondT st.t0.heap x1.t x2.t
    let mu := commitSecondT st.u0.heap x1.u x2.u
    let confl :=
      (if has "i0" ∧ mf.isNone then (conflictsF st.f0.heap x1.f x2.f).map ("i0:" ++ ·) else []) ++
      (if has "i1" ∧ mk.isNone then (conflictsK st.k0.heap x1.k x2.k).map ("i1:" ++ ·) else []) ++
      (if has "i2" ∧ mc.isNone then (conflictsK st.c0.heap x1.c x2.c).map ("i2:" ++ ·) else []) ++
      (if has "i3" ∧ mt.isNone then (conflictsT st.t0.heap x1.t x2.t).map ("i3:" ++ ·) else []) ++
      (if has "i4" ∧ mu.isNone then (conflictsT st.u0.heap x1.u x2.u).map ("i4:" ++ ·) else [])
    let both := " ;; ".intercalate (
      (if has "i0" then [match mf with | some h => obsF h | none => "i0 conflict"] else []) ++
      (if has "i1" then [match mk with | some h => obsK "i1" h | none => "i1 conflict"] else []) ++
      (if has "i2" then [match mc with | some h => obsK "i2" h | none => "i2 conflict"] else []) ++
      (if has "i3" then [match mt with | some h => obsT "i3" h | none => "i3 conflict"] else []) ++
      (if has "i4" then [match mu with | some h => obsT "i4" h | none => "i4 conflict"] else []))
    let first := " ;; ".intercalate (
      (if has "i0" then [obsF x1.f.heap] else []) ++
      (if has "i1" then [obsK "i1" x1.k.heap] else []) ++
      (if has "i2" then [obsK "i2" x1.c.heap] else []) ++
      (if has "i3" then [obsT "i3" x1.t.heap] else []) ++
      (if has "i4" then [obsT "i4" x1.u.heap] else []))
    some (confl, both, first)

def showLoc : Loc Int → String
  | .fwd v => s!"fwd[{v}]" | .rev d => s!"rev[{d}]" | .ni d => s!"ni[{d}]" | .len => "len"
  | .post o d => s!"post({o.1},{o.2})[{d}]" | .whole o => s!"post({o.1},{o.2})[*]"

def showTLoc : TLoc Nat → String
  | .wids w => s!"wids[{w}]" | .words i => s!"words[{i}]" | .lexCount => "lexCount"
  | .wi i => s!"wordinfo[{i}]" | .wiRoot => "wordinfo-root"
  | .docwords d => s!"docwords[{d}]" | .docweight d => s!"docweight[{d}]"
  | .wordCount => "wordCount" | .indexedCount => "indexedCount" | .totalDocLen => "totalDocLen"
  | .ni d => s!"ni[{d}]" | .tree o d => s!"tree({o.1},{o.2})[{d}]" | .whole o => s!"tree({o.1},{o.2})[*]"

def showStep (s : TStep Nat) : String := (if s.notify then "" else "~") ++ showTLoc s.loc

def withOp (st : St) (who : String) (toks : List String) : Option St :=
  match who with
  | "base" => (applyOp st.thr st.cutoff (txs0 st) toks).map fun x =>
      { st with f0 := x.f, k0 := x.k, c0 := x.c, t0 := x.t, u0 := x.u }
  | "a" => (applyOp st.thr st.cutoff (txsA st) toks).map fun x =>
      { st with fA := x.f, kA := x.k, cA := x.c, tA := x.t, uA := x.u }
  | "b" => (applyOp st.thr st.cutoff (txsB st) toks).map fun x =>
      { st with fB := x.f, kB := x.k, cB := x.c, tB := x.t, uB := x.u }
  | _ => none

def addLog (st : St) (who : String) (k : Nat) : St :=
  match who with
  | "base" => { st with log := { st.log with base := st.log.base ++ [k] } }
  | "a" => { st with log := { st.log with opsA := st.log.opsA ++ [k] } }
  | _ => { st with log := { st.log with opsB := st.log.opsB ++ [k] } }

def commitLine (st : St) : String :=
  if st.log.order.length < 2 then "any"
  else match merged st with
    | some (confl, _, _) => if confl = [] then "any" else "conflict " ++ ",".intercalate confl ++ " ## any"
    | none => "any"

def step (st : St) (toks : List String) : St × String :=
  match toks with
  | ["cfg", "thr", n] => match n.toNat? with | some n => ({ st with thr := n }, "ok") | none => (st, "bad-op")
  | ["cfg", "cutoff", n] => match n.toNat? with | some n => ({ st with cutoff := n }, "ok") | none => (st, "bad-op")
  | "cfg" :: "present" :: ps => ({ st with present := ps }, "ok")
  | "cfg" :: _ => (st, "ok")
  | ["begin"] =>
    ({ st with begun := true,
               fA := FTx.start st.f0.heap 1, fB := FTx.start st.f0.heap 2,
               kA := KTx.start st.k0.heap 1, kB := KTx.start st.k0.heap 2,
               cA := KTx.start st.c0.heap 1, cB := KTx.start st.c0.heap 2,
               tA := TTx.start st.t0.heap 1, tB := TTx.start st.t0.heap 2,
               uA := TTx.start st.u0.heap 1, uB := TTx.start st.u0.heap 2 }, "ok")
  | ["commit", "a"] => let st := { st with log := { st.log with order := st.log.order ++ [.a] } }; (st, commitLine st)
  | ["commit", "b"] => let st := { st with log := { st.log with order := st.log.order ++ [.b] } }; (st, commitLine st)
  | ["check"] =>
    let l := st.log
    let eff := "eff " ++ " ; ".intercalate [alt l true true, alt l true false, alt l false true, alt l false false]
    let obj := match merged st with
      | some (_, both, first) => " @@ " ++ both ++ " @@ " ++ first
      | none => ""
    (st, eff ++ obj)
  | ["footprint", who] =>      -- diagnostics: the write sets (text: all mutation steps, `~` = plain) of a transaction
    let x := if who = "a" then txsA st else if who = "b" then txsB st else txs0 st
    (st, "i0 " ++ " ".intercalate (x.f.writes.reverse.map showLoc) ++ " ;; i1 " ++
         " ".intercalate (x.k.writes.reverse.map showLoc) ++ " ;; i2 " ++ " ".intercalate (x.c.writes.reverse.map showLoc) ++
         " ;; i3 " ++ " ".intercalate (x.t.log.reverse.map showStep) ++
         " ;; i4 " ++ " ".intercalate (x.u.log.reverse.map showStep))
  | who :: k :: rest =>
    if who = "base" ∨ who = "a" ∨ who = "b" then
      match k.toNat? with
      | none => (st, "bad-op")
      | some k =>
        let st := addLog st who k
        match rest with
        | [] => (st, "ok")                       -- abstract log only (old replays)
        | _ => match withOp st who rest with
          | some st' => (st', "ok")
          | none => (st, "bad-op")
    else (st, "bad-op")
  | _ => (st, "bad-op")

def sess : Sess := { σ := St, st := {}, step := step }
end Driver.ConcurrencyS
