import HypatiaModel.Concurrency
import Driver.Sess
namespace Driver.ConcurrencyS
open Hyp.Concurrency

def alt (l : CLog) (a b : Bool) : String :=
  s!"{if a then "ok" else "conflict"},{if b then "ok" else "conflict"}:" ++
    String.join ((l.visible a b).map fun k => s!" {k}")

def step (l : CLog) (toks : List String) : CLog × String :=
  match toks with
  | "cfg" :: _ => (l, "ok")
  | "base" :: k :: _ => match k.toNat? with | some k => ({ l with base := l.base ++ [k] }, "ok") | none => (l, "bad-op")
  | ["begin"] => (l, "ok")
  | "a" :: k :: _ => match k.toNat? with | some k => ({ l with opsA := l.opsA ++ [k] }, "ok") | none => (l, "bad-op")
  | "b" :: k :: _ => match k.toNat? with | some k => ({ l with opsB := l.opsB ++ [k] }, "ok") | none => (l, "bad-op")
  | ["commit", "a"] => ({ l with order := l.order ++ [.a] }, "any")
  | ["commit", "b"] => ({ l with order := l.order ++ [.b] }, "any")
  | ["check"] =>
    (l, "eff " ++ " ; ".intercalate [alt l true true, alt l true false, alt l false true, alt l false false])
  | _ => (l, "bad-op")

def sess : Sess := { σ := CLog, st := {}, step := step }
end Driver.ConcurrencyS
