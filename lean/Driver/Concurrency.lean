import HypatiaModel.Concurrency
import HypatiaModel.ConcurrencyIndex
import Driver.Sess
namespace Driver.ConcurrencyS
open Hyp Hyp.Concurrency Hyp.CIdx

/-!
Session `concurrency`: the abstract commit log (which operations must be visible for each
combination of commit outcomes) **and** the object-level replay of the same case: the base
operations run in transaction 0, `a` / `b` run as transactions 1 / 2 on the snapshot taken at
`begin`, the second `commit` merges (`commitSecond`), `check` prints the merged heaps.

Document specification of the harness (`props/c09.py: make_doc`): `f kw c t u` with `-` = attribute
absent; `f` = field value, `kw` = bit mask over keywords 0‥4, `c` = facet path(s) out of the six
configured facets `a, a:b, a:b:c, d, d:e, f` (numbered 0‥5): path `c % 6`, and `(c / 7) % 6` when
`c ≥ 7`; `t`, `u` = text seeds (not modelled at object level).
-/

def alt (l : CLog) (a b : Bool) : String :=
  s!"{if a then "ok" else "conflict"},{if b then "ok" else "conflict"}:" ++
    String.join ((l.visible a b).map fun k => s!" {k}")

structure St where
  log : CLog := {}
  thr : Nat := 2
  present : List String := ["i0", "i1", "i2", "i3", "i4"]
  begun : Bool := false
  f0 : FTx Int := {}
  fA : FTx Int := {}
  fB : FTx Int := {}
  k0 : KTx Int := {}
  kA : KTx Int := {}
  kB : KTx Int := {}
  c0 : KTx Int := {}
  cA : KTx Int := {}
  cB : KTx Int := {}

/-- the prefix expansion of facet path `j` (indices into `a, a:b, a:b:c, d, d:e, f`) -/
def facetPrefixes (j : Nat) : List Int :=
  match j with
  | 0 => [0]
  | 1 => [0, 1]
  | 2 => [0, 1, 2]
  | 3 => [3]
  | 4 => [3, 4]
  | _ => [5]

def allFacets : List Int := [0, 1, 2, 3, 4, 5]

structure DocSpec where
  f : Option Int
  k : Option (List Int)
  c : Option (List Int)          -- candidates (prefix-expanded)

def docSpec? (toks : List String) : Option DocSpec :=
  match toks with
  | f :: k :: c :: _ => do
    let f ← optDash f
    let k ← optDash k
    let c ← optDash c
    let kws := k.map (fun m => (List.range 5).filterMap (fun i =>
      if (m.toNat >>> i) % 2 = 1 then some (Int.ofNat i) else none))
    let cs := c.map (fun c =>
      let n := c.toNat
      facetPrefixes (n % 6) ++ (if n ≥ 7 then facetPrefixes ((n / 7) % 6) else []))
    pure { f := f, k := kws, c := cs }
  | _ => none
where
  optDash (t : String) : Option (Option Int) := if t = "-" then some none else (t.toInt?).map some

/-- one catalog operation on the three modelled indexes of one transaction -/
def applyOp (thr : Nat) (x : FTx Int × KTx Int × KTx Int) (toks : List String) :
    Option (FTx Int × KTx Int × KTx Int) :=
  let (f, k, c) := x
  let cfg : KCfg := { thr := thr }
  match toks with
  | op :: d :: spec =>
    match d.toInt? with
    | none => none
    | some d =>
      if op = "unindex" then
        some (f.unindexDoc d, k.unindexDoc d, c.unindexDoc d)
      else if op = "index" ∨ op = "reindex" then
        match docSpec? spec with
        | some s => some (f.indexDoc d s.f, KTx.indexDoc cfg k d s.k, KTx.facetIndexDoc allFacets c d s.c)
        | none => none
      else none
  | _ => none

def showSet (l : List Int) : String := showIdSet l

def showPairs (l : List (Int × String)) : String :=
  let keys := sortInts (l.map (·.1))
  "[" ++ " ".intercalate (keys.map (fun k => s!"{k}:{(l.lookup k).getD "?"}")) ++ "]"

def obsF (h : FHeap Int) : String :=
  let rev := showPairs (h.rev.map (fun e => (e.1, toString e.2)))
  let fwd := showPairs (h.fwd.map (fun e => (e.1, showSet (h.posting e.1))))
  s!"i0 rev={rev} ni={showSet h.ni} len={h.len} fwd={fwd}"

def obsK (name : String) (h : KHeap Int) : String :=
  let rev := showPairs (h.rev.map (fun e => (e.1, ",".intercalate ((sortInts e.2).map toString))))
  let fwd := showPairs (h.fwd.map (fun e => (e.1, showSet (h.posting e.1))))
  s!"{name} rev={rev} ni={showSet h.ni} fwd={fwd} inv={if h.len = h.rev.length then 1 else 0}"

def showObj : ObjId → String
  | .fwd => "fwd" | .rev => "rev" | .ni => "ni" | .len => "len"
  | .post o => s!"post({o.1},{o.2})"

/-- which objects refuse to merge (diagnostics) -/
def conflictsF (base : FHeap Int) (a b : FTx Int) : List String :=
  let chk (o : ObjId) (r : Option Unit) : List String := if r.isNone then [showObj o] else []
  chk .fwd ((mergeObj resolveMap (dirty a.writes .fwd) (dirty b.writes .fwd) base.fwd a.heap.fwd b.heap.fwd).map fun _ => ()) ++
  chk .rev ((mergeObj resolveMap (dirty a.writes .rev) (dirty b.writes .rev) base.rev a.heap.rev b.heap.rev).map fun _ => ()) ++
  chk .ni ((mergeObj resolveSet (dirty a.writes .ni) (dirty b.writes .ni) base.ni a.heap.ni b.heap.ni).map fun _ => ()) ++
  base.post.flatMap (fun e =>
    chk (.post e.1) ((mergeObj resolveSet (dirty a.writes (.post e.1)) (dirty b.writes (.post e.1)) e.2
      ((AMap.get a.heap.post e.1).getD e.2) ((AMap.get b.heap.post e.1).getD e.2)).map fun _ => ()))

def conflictsK (base : KHeap Int) (a b : KTx Int) : List String :=
  let chk (o : ObjId) (r : Option Unit) : List String := if r.isNone then [showObj o] else []
  chk .fwd ((mergeObj resolveMap (dirty a.writes .fwd) (dirty b.writes .fwd) base.fwd a.heap.fwd b.heap.fwd).map fun _ => ()) ++
  chk .rev ((mergeObj resolveMap (dirty a.writes .rev) (dirty b.writes .rev) base.rev a.heap.rev b.heap.rev).map fun _ => ()) ++
  chk .ni ((mergeObj resolveSet (dirty a.writes .ni) (dirty b.writes .ni) base.ni a.heap.ni b.heap.ni).map fun _ => ()) ++
  base.post.flatMap (fun e =>
    chk (.post e.1) ((mergeObj resolvePosting (dirty a.writes (.post e.1)) (dirty b.writes (.post e.1)) e.2
      ((AMap.get a.heap.post e.1).getD e.2) ((AMap.get b.heap.post e.1).getD e.2)).map fun _ => ()))

/-- the transactions in commit order -/
def ordered (st : St) : Option ((FTx Int × KTx Int × KTx Int) × (FTx Int × KTx Int × KTx Int)) :=
  match st.log.order with
  | [.a, .b] => some ((st.fA, st.kA, st.cA), (st.fB, st.kB, st.cB))
  | [.b, .a] => some ((st.fB, st.kB, st.cB), (st.fA, st.kA, st.cA))
  | _ => none

/-- object-level outcome of the second commit: conflicting objects per present index, or the merged heaps -/
def merged (st : St) : Option (List String × String × String) :=
  match ordered st with
  | none => none
  | some ((f1, k1, c1), (f2, k2, c2)) =>
    let has (n : String) : Bool := st.present.contains n
    let mf := commitSecond st.f0.heap f1 f2
    let mk := commitSecondK st.k0.heap k1 k2
    let mc := commitSecondK st.c0.heap c1 c2
    let confl :=
      (if has "i0" ∧ mf.isNone then (conflictsF st.f0.heap f1 f2).map ("i0:" ++ ·) else []) ++
      (if has "i1" ∧ mk.isNone then (conflictsK st.k0.heap k1 k2).map ("i1:" ++ ·) else []) ++
      (if has "i2" ∧ mc.isNone then (conflictsK st.c0.heap c1 c2).map ("i2:" ++ ·) else [])
    let both := " ;; ".intercalate (
      (if has "i0" then [match mf with | some h => obsF h | none => "i0 conflict"] else []) ++
      (if has "i1" then [match mk with | some h => obsK "i1" h | none => "i1 conflict"] else []) ++
      (if has "i2" then [match mc with | some h => obsK "i2" h | none => "i2 conflict"] else []))
    let first := " ;; ".intercalate (
      (if has "i0" then [obsF f1.heap] else []) ++
      (if has "i1" then [obsK "i1" k1.heap] else []) ++
      (if has "i2" then [obsK "i2" c1.heap] else []))
    some (confl, both, first)

def showLoc : Loc Int → String
  | .fwd v => s!"fwd[{v}]" | .rev d => s!"rev[{d}]" | .ni d => s!"ni[{d}]" | .len => "len"
  | .post o d => s!"post({o.1},{o.2})[{d}]" | .whole o => s!"post({o.1},{o.2})[*]"

def withOp (st : St) (who : String) (toks : List String) : Option St :=
  match who with
  | "base" => (applyOp st.thr (st.f0, st.k0, st.c0) toks).map fun (f, k, c) => { st with f0 := f, k0 := k, c0 := c }
  | "a" => (applyOp st.thr (st.fA, st.kA, st.cA) toks).map fun (f, k, c) => { st with fA := f, kA := k, cA := c }
  | "b" => (applyOp st.thr (st.fB, st.kB, st.cB) toks).map fun (f, k, c) => { st with fB := f, kB := k, cB := c }
  | _ => none

def addLog (st : St) (who : String) (k : Nat) : St :=
  match who with
  | "base" => { st with log := { st.log with base := st.log.base ++ [k] } }
  | "a" => { st with log := { st.log with opsA := st.log.opsA ++ [k] } }
  | _ => { st with log := { st.log with opsB := st.log.opsB ++ [k] } }

def commitLine (st : St) : String :=
  if st.log.order.length < 2 then "any"
  else match merged st with
    | some (confl, _, _) => if confl = [] then "any" else "conflict " ++ ",".intercalate confl ++ " ## any"
    | none => "any"

def step (st : St) (toks : List String) : St × String :=
  match toks with
  | ["cfg", "thr", n] => match n.toNat? with | some n => ({ st with thr := n }, "ok") | none => (st, "bad-op")
  | "cfg" :: "present" :: ps => ({ st with present := ps }, "ok")
  | "cfg" :: _ => (st, "ok")
  | ["begin"] =>
    ({ st with begun := true,
               fA := FTx.start st.f0.heap 1, fB := FTx.start st.f0.heap 2,
               kA := KTx.start st.k0.heap 1, kB := KTx.start st.k0.heap 2,
               cA := KTx.start st.c0.heap 1, cB := KTx.start st.c0.heap 2 }, "ok")
  | ["commit", "a"] => let st := { st with log := { st.log with order := st.log.order ++ [.a] } }; (st, commitLine st)
  | ["commit", "b"] => let st := { st with log := { st.log with order := st.log.order ++ [.b] } }; (st, commitLine st)
  | ["check"] =>
    let l := st.log
    let eff := "eff " ++ " ; ".intercalate [alt l true true, alt l true false, alt l false true, alt l false false]
    let obj := match merged st with
      | some (_, both, first) => " @@ " ++ both ++ " @@ " ++ first
      | none => ""
    (st, eff ++ obj)
  | ["footprint", who] =>      -- diagnostics: the write sets of a transaction
    let (f, k, c) := if who = "a" then (st.fA, st.kA, st.cA) else (st.fB, st.kB, st.cB)
    (st, "i0 " ++ " ".intercalate (f.writes.reverse.map showLoc) ++ " ;; i1 " ++
         " ".intercalate (k.writes.reverse.map showLoc) ++ " ;; i2 " ++ " ".intercalate (c.writes.reverse.map showLoc))
  | who :: k :: rest =>
    if who = "base" ∨ who = "a" ∨ who = "b" then
      match k.toNat? with
      | none => (st, "bad-op")
      | some k =>
        let st := addLog st who k
        match rest with
        | [] => (st, "ok")                       -- abstract log only (old replays)
        | _ => match withOp st who rest with
          | some st' => (st', "ok")
          | none => (st, "bad-op")
    else (st, "bad-op")
  | _ => (st, "bad-op")

def sess : Sess := { σ := St, st := {}, step := step }
end Driver.ConcurrencyS
